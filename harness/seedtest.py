#!/usr/bin/env python3
# seedtest.py - mutation rehearsal (DESIGN Appendix A): run checks against a scratch worktree of /repo carrying one seeded change.
#   seedtest.py <patch.diff> <ID> [<ID> ...] [--tier quick]     prints one line per check: CAUGHT / MISSED and the first VIOLATION line
# The worktree lives under /tmp/seedrun and is removed afterwards; evidence goes to a scratch directory.
import os
import subprocess
import sys
import tempfile

VERIF = os.path.dirname(os.path.dirname(os.path.abspath(__file__)))


def main():
    args = sys.argv[1:]
    tier = 'quick'
    if '--tier' in args:
        i = args.index('--tier')
        tier = args[i + 1]
        del args[i:i + 2]
    patch = os.path.abspath(args[0])
    ids = args[1:]
    os.makedirs('/tmp/seedrun', exist_ok=True)
    wt = tempfile.mkdtemp(prefix='wt_', dir='/tmp/seedrun')
    os.rmdir(wt)
    subprocess.run(['git', '-C', '/repo', 'worktree', 'add', '-q', '--detach', wt, 'HEAD'], check=True)
    try:
        r = subprocess.run(['git', '-C', wt, 'apply', patch], capture_output=True, text=True)
        if r.returncode != 0:
            print('PATCH-DOES-NOT-APPLY', patch, r.stderr.strip()[:300])
            return 2
        ev = tempfile.mkdtemp(prefix='ev_', dir='/tmp/seedrun')
        env = dict(os.environ, VERIF_REPO=wt, VERIF_EVIDENCE_DIR=ev)
        caught_any = False
        for pid in ids:
            p = subprocess.run([os.path.join(VERIF, 'check'), pid, '--tier', tier], capture_output=True, text=True, env=env, cwd=VERIF)
            lines = [l for l in p.stdout.split('\n') if l.startswith('VIOLATION')]
            detail = ''
            if lines:
                j = p.stdout.split('\n').index(lines[0])
                detail = p.stdout.split('\n')[j + 1][:400] if j + 1 < len(p.stdout.split('\n')) else ''
            caught = p.returncode != 0 and bool(lines)
            caught_any = caught_any or caught
            print('%s %s rc=%d violations=%d %s' % ('CAUGHT' if caught else 'MISSED', pid, p.returncode, len(lines), (lines[0] + ' ' + detail) if lines else ''))
        subprocess.run(['rm', '-rf', ev])
        return 0 if caught_any else 1
    finally:
        subprocess.run(['git', '-C', '/repo', 'worktree', 'remove', '--force', wt])


if __name__ == '__main__':
    sys.exit(main())
