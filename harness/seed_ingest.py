#!/usr/bin/env python3
# seed_ingest.py <ID> [extra check ids...] [--src /tmp/seed2] [--offset 2] - take the changes a seeding sub-agent left in /tmp/seed/<ID>/out/, confirm each
# demonstration (passes on clean HEAD, fails with the change) in a fresh scratch worktree, store it under seeded/<ID>-<i>/
# and run the property's check(s) against it (mutation rehearsal). Never touches /repo's working tree.
import json
import os
import shutil
import subprocess
import sys
import tempfile

VERIF = os.path.dirname(os.path.dirname(os.path.abspath(__file__)))


def sh(cmd, **kw):
    return subprocess.run(cmd, capture_output=True, text=True, **kw)


def run_demo(demo, root):
    if demo.endswith('.js'):
        return sh(['node', demo, root], timeout=600)
    return sh(['/venv/bin/python', '-W', 'ignore', demo, root], timeout=600)


def main():
    argv = list(sys.argv[1:])
    root, offset = '/tmp/seed', 0
    if '--src' in argv:
        k = argv.index('--src')
        root = argv[k + 1]
        del argv[k:k + 2]
    if '--offset' in argv:
        k = argv.index('--offset')
        offset = int(argv[k + 1])
        del argv[k:k + 2]
    pid = argv[0]
    checks = [pid] + argv[1:]
    src = '%s/%s/out' % (root, pid)
    os.makedirs('/tmp/seedrun', exist_ok=True)
    for i in (1, 2):
        patch = os.path.join(src, 'change%d.diff' % i)
        if not os.path.exists(patch):
            print('no', patch)
            continue
        demo = None
        for ext in ('.py', '.js'):
            if os.path.exists(os.path.join(src, 'demo%d%s' % (i, ext))):
                demo = os.path.join(src, 'demo%d%s' % (i, ext))
        wt = tempfile.mkdtemp(prefix='ing_', dir='/tmp/seedrun')
        os.rmdir(wt)
        sh(['git', '-C', '/repo', 'worktree', 'add', '-q', '--detach', wt, 'HEAD'])
        try:
            clean = run_demo(demo, wt)
            ap = sh(['git', '-C', wt, 'apply', patch])
            changed = run_demo(demo, wt) if ap.returncode == 0 else None
        finally:
            sh(['git', '-C', '/repo', 'worktree', 'remove', '--force', wt])
        confirmed = clean.returncode == 0 and changed is not None and changed.returncode != 0
        dst = os.path.join(VERIF, 'seeded', '%s-%d' % (pid, i + offset))
        os.makedirs(dst, exist_ok=True)
        shutil.copy(patch, os.path.join(dst, 'patch.diff'))
        shutil.copy(demo, os.path.join(dst, os.path.basename(demo).replace('demo%d' % i, 'demo')))
        notes = open(os.path.join(src, 'notes%d.txt' % i)).read() if os.path.exists(os.path.join(src, 'notes%d.txt' % i)) else ''
        res = sh([sys.executable, os.path.join(VERIF, 'harness', 'seedtest.py'), os.path.join(dst, 'patch.diff')] + checks, timeout=3600)
        lines = [l for l in res.stdout.split('\n') if l.startswith(('CAUGHT', 'MISSED', 'PATCH'))]
        meta = {
            'property': pid,
            'what_it_needs_to_manifest': notes.strip(),
            'demonstration': os.path.basename(demo).replace('demo%d' % i, 'demo'),
            'demo_on_clean_head_rc': clean.returncode,
            'demo_with_change_rc': None if changed is None else changed.returncode,
            'demo_with_change_output': None if changed is None else (changed.stdout + changed.stderr)[-600:],
            'confirmed': confirmed,
            'what_i_ran': ['git worktree add <scratch> HEAD; demo on clean; git apply patch.diff; demo again; worktree removed',
                           'harness/seedtest.py patch.diff ' + ' '.join(checks) + '  (checks run with VERIF_REPO=<scratch worktree with the patch>)'],
            'checks': [{'check': l.split()[1], 'result': l.split()[0], 'first_violation': ' '.join(l.split()[4:])[:500]} for l in lines if not l.startswith('PATCH')],
        }
        with open(os.path.join(dst, 'meta.json'), 'w') as f:
            json.dump(meta, f, indent=1)
        print('%s-%d confirmed=%s %s' % (pid, i + offset, confirmed, ' | '.join('%s %s' % (c['check'], c['result']) for c in meta['checks'])))


if __name__ == '__main__':
    main()
