#!/usr/bin/env python3
# seed_rerun.py [ID-prefix ...] - re-run the mutation rehearsal for stored seeds (seeded/<id>-<n>/) against the CURRENT checks:
# for every seed, the check of its own property plus the checks recorded earlier; meta.json gets the new results, and the
# first result a check ever had is kept in 'history' when it changed (so "missed at first" stays visible).
import json
import os
import subprocess
import sys
from concurrent.futures import ThreadPoolExecutor

VERIF = os.path.dirname(os.path.dirname(os.path.abspath(__file__)))


def one(d):
    mp = os.path.join(VERIF, 'seeded', d, 'meta.json')
    m = json.load(open(mp))
    checks = [m['property']] + [c['check'] for c in m['checks'] if c['check'] != m['property']]
    seen = []
    checks = [c for c in checks if not (c in seen or seen.append(c))]
    r = subprocess.run([sys.executable, os.path.join(VERIF, 'harness', 'seedtest.py'), os.path.join(VERIF, 'seeded', d, 'patch.diff')] + checks,
                       capture_output=True, text=True, timeout=7200)
    lines = [l for l in r.stdout.split('\n') if l.startswith(('CAUGHT', 'MISSED'))]
    new = [{'check': l.split()[1], 'result': l.split()[0], 'first_violation': ' '.join(l.split()[4:])[:500]} for l in lines]
    old = {c['check']: c['result'] for c in m['checks']}
    notes = []
    for c in new:
        if c['check'] in old and old[c['check']] != c['result']:
            notes.append('%s was %s before the checks were strengthened' % (c['check'], old[c['check']].lower()))
    if notes:
        m['history'] = (m.get('history', '') + '; ' if m.get('history') else '') + '; '.join(notes)
    if new:
        m['checks'] = new
    json.dump(m, open(mp, 'w'), indent=1)
    return d, ' | '.join('%s %s' % (c['check'], c['result']) for c in new)


def main():
    pre = sys.argv[1:]
    ds = sorted(d for d in os.listdir(os.path.join(VERIF, 'seeded')) if os.path.exists(os.path.join(VERIF, 'seeded', d, 'meta.json')))
    if pre:
        ds = [d for d in ds if any((d.endswith(p[1:]) if p.startswith('*') else d.startswith(p)) for p in pre)]      # 'C07' or '*-5'
    with ThreadPoolExecutor(max_workers=3) as ex:
        for d, res in ex.map(one, ds):
            print(d, res, flush=True)


if __name__ == '__main__':
    main()
