#!/usr/bin/env python3
# harmless_ingest.py <ID> [extra check ids...] [--src /tmp/seed6] - take the behaviour-preserving changes a sub-agent left in
# <src>/<ID>/out/harmless{1,2}.diff, store them under seeded/harmless/<ID>-h<i>/ and run the property's check(s) against a
# scratch worktree carrying the change: the expected outcome is SILENT (exit 0, no VIOLATION line). An alarm is either a
# false alarm of the machinery or a change that is not behaviour-preserving after all - to be decided by hand, recorded in meta.json.
import json
import os
import shutil
import subprocess
import sys
import tempfile

VERIF = os.path.dirname(os.path.dirname(os.path.abspath(__file__)))


def sh(cmd, **kw):
    return subprocess.run(cmd, capture_output=True, text=True, **kw)


def run_checks(patch, checks, tier='quick'):
    os.makedirs('/tmp/seedrun', exist_ok=True)
    wt = tempfile.mkdtemp(prefix='hl_', dir='/tmp/seedrun')
    os.rmdir(wt)
    sh(['git', '-C', '/repo', 'worktree', 'add', '-q', '--detach', wt, 'HEAD'])
    res = []
    try:
        ap = sh(['git', '-C', wt, 'apply', patch])
        if ap.returncode != 0:
            return [{'check': '-', 'result': 'PATCH-DOES-NOT-APPLY', 'detail': ap.stderr[:300]}]
        ev = tempfile.mkdtemp(prefix='ev_', dir='/tmp/seedrun')
        env = dict(os.environ, VERIF_REPO=wt, VERIF_EVIDENCE_DIR=ev)
        for pid in checks:
            p = sh([os.path.join(VERIF, 'check'), pid, '--tier', tier], env=env, cwd=VERIF)
            lines = p.stdout.split('\n')
            vio = [i for i, l in enumerate(lines) if l.startswith('VIOLATION')]
            detail = ''
            if vio:
                detail = lines[vio[0]] + ' ' + (lines[vio[0] + 1][:600] if vio[0] + 1 < len(lines) else '')
            elif p.returncode != 0:
                detail = '\n'.join(lines[-6:])[:800]
            res.append({'check': pid, 'result': 'SILENT' if (p.returncode == 0 and not vio) else 'ALARM', 'detail': detail})
        shutil.rmtree(ev, ignore_errors=True)
    finally:
        sh(['git', '-C', '/repo', 'worktree', 'remove', '--force', wt])
    return res


def main():
    argv = list(sys.argv[1:])
    root = '/tmp/seed6'
    if '--src' in argv:
        k = argv.index('--src')
        root = argv[k + 1]
        del argv[k:k + 2]
    offset = 0
    if '--offset' in argv:
        k = argv.index('--offset')
        offset = int(argv[k + 1])
        del argv[k:k + 2]
    pid = argv[0]
    checks = [pid] + argv[1:]
    src = '%s/%s/out' % (root, pid)
    for i in (1, 2):
        patch = os.path.join(src, 'harmless%d.diff' % i)
        dst = os.path.join(VERIF, 'seeded', 'harmless', '%s-h%d' % (pid, i + offset))
        if os.path.exists(patch):
            os.makedirs(dst, exist_ok=True)
            shutil.copy(patch, os.path.join(dst, 'patch.diff'))
            notes = os.path.join(src, 'notes%d.txt' % i)
            note_text = open(notes).read() if os.path.exists(notes) else ''
        elif os.path.exists(os.path.join(dst, 'patch.diff')):
            note_text = json.load(open(os.path.join(dst, 'meta.json'))).get('equivalence_argument', '')
        else:
            print('no', patch)
            continue
        res = run_checks(os.path.join(dst, 'patch.diff'), checks)
        meta_path = os.path.join(dst, 'meta.json')
        old = json.load(open(meta_path)) if os.path.exists(meta_path) else {}
        meta = {'property': pid, 'kind': 'behaviour-preserving change (expected outcome: SILENT)', 'equivalence_argument': note_text,
                'checks': res, 'verdict': old.get('verdict', '')}
        json.dump(meta, open(meta_path, 'w'), indent=1)
        print('%s-h%d %s' % (pid, i + offset, ' | '.join('%s %s' % (r['check'], r['result']) for r in res)))
        for r in res:
            if r['result'] != 'SILENT':
                print('   ', r['detail'][:700])


if __name__ == '__main__':
    main()
