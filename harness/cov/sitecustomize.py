# sitecustomize.py - line coverage of the implementation under the correspondence runs (development aid, harness/coverage_report.py):
# active only when VERIF_COVERAGE names a directory; records every executed line of files under $VERIF_REPO/rbql-py, in every Python
# process of the run (drivers, command-line children), and writes the set at exit.
import atexit
import os
import sys
import threading

_dir = os.environ.get('VERIF_COVERAGE')
if _dir:
    _root = os.path.realpath(os.path.join(os.environ.get('VERIF_REPO', '/repo'), 'rbql-py')) + os.sep
    _seen = set()
    _files = {}

    def _local(frame, event, arg):
        if event == 'line':
            _seen.add((frame.f_code.co_filename, frame.f_lineno))
        return _local

    def _tracer(frame, event, arg):
        fn = frame.f_code.co_filename
        ok = _files.get(fn)
        if ok is None:
            ok = _files[fn] = (os.path.realpath(fn).startswith(_root) if not fn.startswith('<') else fn.startswith('<rbql'))
        if ok:
            _seen.add((fn, frame.f_lineno))
            return _local
        return None

    def _dump():
        try:
            os.makedirs(_dir, exist_ok=True)
            with open(os.path.join(_dir, 'py_%d.txt' % os.getpid()), 'w') as f:
                for fn, ln in sorted(_seen):
                    f.write('%s:%d\n' % (os.path.realpath(fn) if not fn.startswith('<') else fn, ln))
        except Exception:
            pass

    atexit.register(_dump)
    threading.settrace(_tracer)
    sys.settrace(_tracer)
    _orig_exit = os._exit

    def _exit(code):
        _dump()
        _orig_exit(code)
    os._exit = _exit
