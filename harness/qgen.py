# qgen.py - generators of tables and queries of the modelled fragment (type-directed, mostly valid, with a
# controlled share of runtime errors). Every random choice comes from the rng handed in.
CELLS = ['a', 'b', 'ab', 'ba', '', '1', '2', '10', '-3', 'x1', 'A', 'é', '%', 'a b', 'b%', '_']
KEYCELLS = ['1', '2', 'k', '']
NUMCELLS = ['1', '2', '3', '10', '-4', '7', '0', '2.5', '0.25', '-1.5', '12', '3.0']
INTCELLS = ['1', '2', '3', '10', '-4', '7', '0', '12']
AGGS = ['MIN', 'MAX', 'SUM', 'AVG', 'VARIANCE', 'MEDIAN', 'COUNT', 'ARRAY_AGG', 'ANY_VALUE']


class Gen:
    def __init__(self, rng):
        self.rng = rng

    # ---- tables
    def table(self, max_rows=6, max_cols=4, ragged_p=0.33, none_p=0.1, cells=CELLS, min_rows=0, min_cols=0):
        r = self.rng
        nrows = r.randint(min_rows, max_rows)
        ncols = r.randint(max(min_cols, 0), max_cols)
        ragged = r.random() < ragged_p
        t = []
        for _ in range(nrows):
            n = ncols
            if ragged and r.random() < 0.5:
                n = r.randint(0, max_cols)
            t.append([None if r.random() < none_p else r.choice(cells) for _ in range(n)])
        return t

    def rect_table(self, nrows, ncols, cells=CELLS):
        r = self.rng
        return [[r.choice(cells) for _ in range(ncols)] for _ in range(nrows)]

    # ---- expressions (ctx: na = #columns addressable in a, nb = same for b or None)
    def fld(self, ctx):
        r = self.rng
        if ctx.get('nb') is not None and r.random() < 0.4:
            return ('fld', 'b', r.randint(0, max(0, ctx['nb'] - 1) + (1 if r.random() < 0.15 else 0)))
        return ('fld', 'a', r.randint(0, max(0, ctx['na'] - 1) + (1 if r.random() < 0.15 else 0)))

    def str_expr(self, ctx, d=2):
        r = self.rng
        x = r.random()
        if d <= 0 or x < 0.45:
            return self.fld(ctx) if r.random() < 0.7 else ('lit', r.choice(CELLS))
        if x < 0.75:
            return ('add', self.str_expr(ctx, d - 1), self.str_expr(ctx, d - 1))
        if x < 0.9:
            return ('cond', self.bool_expr(ctx, d - 1), self.str_expr(ctx, d - 1), self.str_expr(ctx, d - 1))
        return ('or', self.fld(ctx), ('lit', r.choice(CELLS)))

    def int_expr(self, ctx, d=2):
        r = self.rng
        x = r.random()
        if d <= 0 or x < 0.4:
            c = ['NR', 'NF'] + (['bNR', 'bNF'] if ctx.get('nb') is not None else []) + (['NU'] if ctx.get('update') else [])
            return (r.choice(c),) if r.random() < 0.7 else ('lit', r.randint(-3, 12))
        if x < 0.6:
            return ('len', self.str_expr(ctx, d - 1))
        if x < 0.75:
            return ('int', self.fld(ctx))
        return ('add', self.int_expr(ctx, d - 1), self.int_expr(ctx, d - 1))

    def bool_expr(self, ctx, d=2):
        r = self.rng
        x = r.random()
        if d <= 0 or x < 0.3:
            return (r.choice(['eq', 'ne']), self.fld(ctx), ('lit', r.choice(CELLS + [None])))
        if x < 0.45:
            return (r.choice(['lt', 'le']), self.str_expr(ctx, d - 1), self.str_expr(ctx, d - 1))
        if x < 0.6:
            return (r.choice(['lt', 'le', 'eq']), self.int_expr(ctx, d - 1), self.int_expr(ctx, d - 1))
        if x < 0.72:
            return ('like', self.str_expr(ctx, d - 1), ('lit', r.choice(['a%', '%b', '_', '%', 'a_', '%1%', 'ab', ''])))
        if x < 0.87:
            return (r.choice(['and', 'or']), self.bool_expr(ctx, d - 1), self.bool_expr(ctx, d - 1))
        if x < 0.95:
            return ('not', self.bool_expr(ctx, d - 1))
        return self.fld(ctx)          # truthiness of a cell

    def any_expr(self, ctx, d=2):
        x = self.rng.random()
        if x < 0.5:
            return self.str_expr(ctx, d)
        if x < 0.75:
            return self.int_expr(ctx, d)
        if x < 0.93:
            return self.bool_expr(ctx, d)
        return ('lit', None)

    def list_expr(self, ctx):
        r = self.rng
        return ('list', [self.str_expr(ctx, 1) if r.random() < 0.8 else self.int_expr(ctx, 1) for _ in range(r.randint(0, 3))])

    # ---- joins
    def join(self, ctx, nkeys=None):
        r = self.rng
        kind, spelling = r.choice([('inner', 'join'), ('inner', 'inner join'), ('left', 'left join'),
                                   ('left', 'left outer join'), ('strict', 'strict left join')])
        n = nkeys or r.choice([1, 1, 1, 2, 3])
        lhs, rhs = [], []
        for _ in range(n):
            lhs.append(None if r.random() < 0.12 else r.randint(0, max(0, ctx['na'] - 1)))
            rhs.append(None if r.random() < 0.12 else r.randint(0, max(0, ctx['nb'] - 1)))
        return {'kind': kind, 'spelling': spelling, 'lhs': lhs, 'rhs': rhs}

    # ---- select lists
    def items(self, ctx, allow_unnest=True, allow_star=True, max_items=4):
        r = self.rng
        n = r.randint(1, max_items)
        items = []
        used_unnest = False
        for _ in range(n):
            x = r.random()
            if allow_star and x < 0.12:
                items.append(('star',))
            elif allow_star and x < 0.18:
                items.append(('stara',))
            elif allow_star and ctx.get('nb') is not None and x < 0.26:
                items.append(('starb',))
            elif allow_unnest and x < 0.36 and (not used_unnest or r.random() < 0.1):
                e = self.list_expr(ctx) if r.random() < 0.85 else self.str_expr(ctx, 1)
                items.append(('unnest', e, r.choice(['UNNEST', 'unnest', 'Unnest'])))
                used_unnest = True
            else:
                items.append(('expr', self.any_expr(ctx)))
        return items
