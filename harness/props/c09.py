# C09 - Column-name variables bind to the right column; header line is never data.
# Model: ParserVars.v (variable maps, escape, Python literal value, header logic) composed with Parser.v (the WITH
# modifier is the one the model's own parse of the query finds); theorems: Props/C09.v.
# Correspondence: headers of 1-5 distinct names over printable ASCII, both quotes, backslash, brackets, TAB / LF,
# non-ASCII; every column position; a.name / a["name"] / a['name'] / bare name (direct mode); sources: Python list +
# input_column_names (query_table), rbql_csv.CSVRecordIterator + rbql.query, rbql.query_csv file -> file (also with a
# JOIN file), pandas dataframe, sqlite table; caller flag x WITH modifier {none, header, noheader}.
# Observed: `select <var>` (the selected column's values), `select NR` (NR of the first record, number of records),
# `select *` (records and output header). Expected values come from the model (entry 528: header/NR logic + the index the
# variable map gives the probe variable).
# Second tie (props/fngen.py, job `vars`): python_string_escape_column_name / query_probably_has_dictionary_variable of rbql_engine.py and
# js_string_escape_column_name / query_probably_has_dictionary_variable of rbql.js are TRANSLATED into Gallina on every run
# (harness/translate_fn.py); the generated obligations (= VarsIx.v, proved equal to ParserVars.v) are compiled beside the correspondence run.
import keyword
import lib
from props import fngen

THEOREM = ('C09_binding / C09_escape_roundtrip / C09_header_never_data / C09_with_override (Props/C09.v); '
           'model = ParserVars.get_variables_map + csv_records / csv_header')
NAME_ALPHA = (list('abcxyzABZ019_') * 2 + list(' !#$%&()*+,-./:;<=>?@[]^`{|}~') + ['"', "'", '\\', '[', ']', '\t', '\n', 'é', '世', 'ß', ' ', 'a.', 'b.x', 'a1', '\\n', '""'])
SAFE_VALUES = ['x', 'y', '1', '22', 'a b', '', 'q"r', "it's", 'z,z']
MODS = [None, None, 'header', 'noheader', 'headers', 'noheaders', 'abcd']


def is_ident(s):
    return bool(s) and (s[0].isalpha() or s[0] == '_') and all(c.isalnum() or c == '_' for c in s) and s.isascii()


# ordinary words that are also member names of the objects the engines use for a / b (an attribute store that keeps its own
# state in a member called like a column, a prototype chain, a dict method) - "for every set of distinct column names"
WORDS = ['storage', 'constructor', 'toString', 'valueOf', 'hasOwnProperty', 'length', 'keys', 'get', 'items', 'values', 'name', 'prototype',
         '__proto__', 'self', 'record', 'fields', 'writer', 'query_context', 'isPrototypeOf']


def gen_ident(rng):
    if rng.random() < 0.1:
        return rng.choice(WORDS)
    n = rng.randint(1, 6)
    s = rng.choice('abcxyzABZ_') + ''.join(rng.choice('abcxyzABZ019_') for _ in range(n - 1))
    return s


# character sequences that mean something to a replacement / template facility of either language (String.prototype.replace and
# replaceAll patterns, re.sub group references, % and str.format fields): a column name is data wherever the query text is
# taken apart and re-assembled, so a["US$$"] must stay the column called US$$ (seeded change C09-14: replaceAll collapsed $$)
META = ['$$', '$&', '$`', "$'", '$$', '$&', '$1', '$0', '$<n>', '${x}', '\\1', '\\g<0>', '%s', '%(n)s', '%%', '{}', '{0}', '{{', '}}']
# what the facility would turn the sequence into: a sibling column of that name makes "reads another column" out of "reads nothing"
META_COLLAPSED = {'$$': '$', '%%': '%', '{{': '{', '}}': '}', '$&': '', '$`': '', "$'": '', '{}': '', '\\1': '', '$1': ''}


def gen_meta_name(rng):
    parts = [gen_ident(rng)[:rng.randint(0, 3)]]
    for _ in range(rng.choice([1, 1, 2, 3])):
        parts.append(rng.choice(META))
        parts.append(gen_ident(rng)[:rng.randint(0, 2)] if rng.random() < 0.6 else rng.choice(['', ' ', '$', '-']))
    return ''.join(parts)


def meta_sibling(rng, n):
    cands = [m for m in META_COLLAPSED if m in n]
    if not cands:
        return None
    m = rng.choice(sorted(cands))
    return n.replace(m, META_COLLAPSED[m])


def gen_name(rng, allow_lf=True):
    if rng.random() < 0.1:
        return gen_meta_name(rng)
    if rng.random() < 0.45:
        return gen_ident(rng)
    if rng.random() < 0.15:
        # the SAME special character several times (an escape that handles only the first occurrence is wrong)
        sp = rng.choice(['\\', '\t', '"', "'", '\n' if allow_lf else '\t', '\\'])
        return sp.join(gen_ident(rng)[:2] for _ in range(rng.randint(3, 4)))
    n = rng.choice([0, 1, 1, 2, 3, 4, 6]) if rng.random() < 0.9 else rng.randint(7, 14)
    s = ''.join(rng.choice(NAME_ALPHA) for _ in range(n))
    if not allow_lf:
        s = s.replace('\n', ' ')
    return s


def gen_names(rng, allow_lf=True, nonempty=False, ci_distinct=False, idents=False):
    k = rng.randint(1, 5)
    out = []

    def fresh(n):
        if '___RBQL' in n or '\r' in n or (nonempty and not n):
            return False
        key = n.lower() if ci_distinct else n
        return key not in [(x.lower() if ci_distinct else x) for x in out]
    while len(out) < k:
        n = ('c' + gen_ident(rng) + str(len(out))) if idents else gen_name(rng, allow_lf)
        if not fresh(n):
            continue
        out.append(n)
        if not idents and len(out) < k and any(m in n for m in META_COLLAPSED) and rng.random() < 0.5:
            sib = meta_sibling(rng, n)
            if sib is not None and fresh(sib):
                out.insert(rng.randrange(len(out) + 1), sib)
    return out


def gen_sqlite_schema(rng, names, rows):
    """how the sqlite table that holds (names, rows) is declared. "sqlite columns" are the columns of `SELECT *` over the table in
    that order, however each of them came to be: an ordinary column (with or without a declared type), a generated column
    (VIRTUAL / STORED; the schema pragma table_info does not list those - seeded change C09-13), or a column of a VIEW (the name is
    the alias). The values stay TEXT: a generated column copies an ordinary column or is a constant, and `rows` is rewritten
    accordingly (harness-side statement of what sqlite computes; the driver reads the table back through sqlite3 itself and reports
    a 'harness_spec_mismatch' if names / rows are not what `SELECT *` returns)."""
    n = len(names)
    x = rng.random()
    if x < 0.35:
        return None                                         # CREATE TABLE t ("name" TEXT, ...) as before
    cols = [{'role': 'plain', 'type': rng.choice(['TEXT', 'TEXT', '', 'BLOB'])} for _ in range(n)]      # (no numeric affinity: the cells stay strings)
    plain = list(range(n))
    if x < 0.85 and n >= 2:
        k = rng.randint(1, n - 1)
        for j in rng.sample(range(n), k):
            plain.remove(j)
        for j in range(n):
            if j in plain:
                continue
            stored = rng.random() < 0.5
            if rng.random() < 0.7:
                cols[j] = {'role': 'gen', 'stored': stored, 'src': rng.choice(plain)}
                for r_ in rows:
                    r_[j] = r_[cols[j]['src']]
            else:
                cols[j] = {'role': 'gen', 'stored': stored, 'const': 'g%d' % j}
                for r_ in rows:
                    r_[j] = cols[j]['const']
    return {'cols': cols, 'view': rng.random() < (0.3 if plain != list(range(n)) else 1.0)}


def gen_rows(rng, width, ragged=False):
    rows = []
    for _ in range(rng.choice([0, 1, 2, 3, 4])):
        w = width
        if ragged and rng.random() < 0.3:
            w = max(1, width + rng.choice([-1, 1]))
        rows.append([rng.choice(SAFE_VALUES) for _ in range(w)])
    return rows


def mod_suffix(rng, m):
    if m is None:
        return ''
    w = rng.choice(['with', 'WITH', 'With', 'wItH'])
    return rng.choice([' ', '  ']) + w + rng.choice([' ', '', '  ']) + '(' + m + ')' + rng.choice(['', ' ', ';'])


def esc_model(names_q):
    """[(name, quote char)] -> escaped texts by the model (entry 520)"""
    args = [lib.enc([ord(q), n]) for n, q in names_q]
    return [lib.dec_str(x) for x in lib.run_model(520, args)]


def build_cases(ctx):
    rng = ctx.rng
    quick = ctx.tier == 'quick'
    n_per = {'table': 900, 'direct': 200, 'csv': 700, 'csvfile': 160, 'pandas': 120, 'pandas_direct': 80, 'sqlite': 120} if quick else \
            {'table': 50000, 'direct': 15000, 'csv': 60000, 'csvfile': 10000, 'pandas': 8000, 'pandas_direct': 5000, 'sqlite': 8000}
    protos = []
    for kind, n in n_per.items():
        for _ in range(n):
            if kind in ('direct', 'pandas_direct'):
                names = gen_names(rng, idents=True if kind == 'pandas_direct' else rng.random() < 0.9)
                # direct mode turns every column name into a LOCAL VARIABLE of the generated loop, whose own variable is called
                # query_context in both ports: a column of that name cannot work by the design of the mode (observation O34; found by the
                # thorough tier, where the word list of gen_ident reaches the direct source)
                names = [('qc_' + x if x == 'query_context' else x) for x in names]
                if rng.random() < 0.3:
                    # column names that are spelled like positional variables (a3, b1) at some OTHER position: the name wins
                    for j in range(len(names)):
                        if rng.random() < 0.6:
                            cand = rng.choice('ab') + str(rng.randint(1, 6))
                            if cand not in names:
                                names[j] = cand
            elif kind in ('csv', 'csvfile'):
                names = gen_names(rng, allow_lf=True)
                names = [x for x in names if not x.startswith('﻿')]
            elif kind == 'sqlite':
                names = gen_names(rng, nonempty=True, ci_distinct=True)
            elif kind == 'pandas':
                names = gen_names(rng, nonempty=True)
            else:
                names = gen_names(rng)
            rows = gen_rows(rng, len(names), ragged=kind in ('table', 'csv') and rng.random() < 0.2)
            if kind in ('pandas', 'pandas_direct', 'sqlite') and not rows:
                rows = [[rng.choice(SAFE_VALUES) for _ in names]]
            schema = gen_sqlite_schema(rng, names, rows) if kind == 'sqlite' else None
            i = rng.randrange(len(names))
            styles = ['dq', 'sq']
            if is_ident(names[i]) and not keyword.iskeyword(names[i]):
                styles += ['attr', 'attr']
            style = rng.choice(styles) if kind not in ('direct', 'pandas_direct') else 'bare'
            if kind not in ('csv', 'csvfile', 'direct', 'pandas_direct') and rng.random() < 0.06:
                names_arg = None        # no header at all: the variable must be unbound
            else:
                names_arg = names
            flag = rng.random() < 0.5
            mod = rng.choice(MODS)
            protos.append({'src': kind, 'names': names, 'names_arg': names_arg, 'rows': rows, 'i': i, 'style': style, 'flag': flag, 'mod': mod, 'schema': schema})
    # variable texts from the model's escape
    need = [(p['names'][p['i']], '"' if p['style'] == 'dq' else "'") for p in protos]
    escd = esc_model(need)
    # second variables: another column, another spelling
    second = []
    for p in protos:
        p['var2'] = None
        if p['style'] != 'bare' and len(p['names']) > 1 and rng.random() < 0.5:
            j = rng.choice([x for x in range(len(p['names'])) if x != p['i']])
            n2 = p['names'][j]
            st2 = [x for x in ['dq', 'sq'] + (['attr', 'attr'] if is_ident(n2) and not keyword.iskeyword(n2) else []) if x != p['style']]
            p['_second'] = (j, rng.choice(st2))
            second.append(p)
    esc2 = esc_model([(p['names'][p['_second'][0]], '"' if p['_second'][1] == 'dq' else "'") for p in second])
    for p, e in zip(second, esc2):
        n2 = p['names'][p['_second'][0]]
        p['var2'] = {'attr': 'a.' + n2, 'dq': 'a["' + e + '"]', 'sq': "a['" + e + "']"}[p['_second'][1]]
    cases = []
    for p, e in zip(protos, escd):
        n = p['names'][p['i']]
        var = {'attr': 'a.' + n, 'dq': 'a["' + e + '"]', 'sq': "a['" + e + "']", 'bare': n}[p['style']]
        suf = mod_suffix(rng, p['mod'])
        sel = rng.choice(['select', 'SELECT', 'Select'])
        queries = ['%s %s%s' % (sel, var, suf), '%s NR%s' % (sel, suf), '%s *%s' % (sel, suf)]
        src = p['src']
        c = {'src': src, 'var': var, 'style': p['style'], 'col': p['i'], 'queries': queries, 'flag': p['flag'], 'mod': p['mod'], 'names_all': p['names']}
        if p.get('var2') is not None:
            # a second column in ANOTHER spelling in the same query (the attribute store and the subscript store are one object)
            c['var2'] = p['var2']
            c['queries'].append('%s %s, %s%s' % (sel, var, p['var2'], suf))
        if src in ('csv', 'csvfile'):
            recs = [p['names']] + p['rows']
            if rng.random() < 0.04:
                recs = []                               # empty file
            c.update(kind=src, records=recs, mkind=0, names=None)
        elif src == 'direct':
            c.update(kind='table', records=p['rows'], names=p['names_arg'], normalize=False, mkind=2)
        elif src == 'pandas_direct':
            c.update(kind='pandas', records=p['rows'], names=p['names'], normalize=False, mkind=2)
        elif src == 'table':
            c.update(kind='table', records=p['rows'], names=p['names_arg'], normalize=True, mkind=1)
        else:
            c.update(kind=src, records=p['rows'], names=p['names'], mkind=3)
            if p.get('schema') is not None:
                c['schema'] = p['schema']
        cases.append(c)
    return cases


def model_expect(cases):
    """entry 528 per (case, query); returns per case the list of expected observations"""
    args = []
    for c in cases:
        for qi, q in enumerate(c['queries']):
            args.append(lib.enc([c['mkind'], c['flag'], q, c['var'], c['records'], lib.Opt(c['names'])]))
            if qi == 3:
                args.append(lib.enc([c['mkind'], c['flag'], q, c['var2'], c['records'], lib.Opt(c['names'])]))
    raw = lib.run_model(528, args)
    out = []
    k = 0
    for c in cases:
        exp = []
        for qi, q in enumerate(c['queries']):
            m = raw[k]
            k += 1
            m2 = None
            if qi == 3:
                m2 = raw[k]
                k += 1
            if m == 4040404:
                exp.append({'model': 'ERR'})
                continue
            if len(m) == 2:                     # the model's parse rejects the query text
                exp.append({'error': True, 'why': 'parse error %r' % (m[1],)})
                continue
            hdr = [lib.dec_str(x) for x in m[0][0]] if m[0] else None
            recs = [[lib.dec_str(f) for f in r] for r in m[1]]
            vres = m[2]
            if qi == 0:
                if vres[0] == 1:
                    e = {'error': True, 'why': 'varmap error %d' % vres[1]}
                elif not vres[1]:
                    # an unbound variable fails when it is first evaluated, i.e. iff there is a record
                    e = {'error': True, 'why': 'variable not bound'} if recs else {'rows': []}
                else:
                    idx = vres[1][0][1]
                    e = {'rows': [[r[idx] if idx < len(r) else None] for r in recs], 'index': idx}
            elif qi == 1:
                e = {'error': True, 'why': 'varmap error'} if vres[0] == 1 else {'rows': [[j + 1] for j in range(len(recs))]}
            elif qi == 3:
                v2 = m2[2] if isinstance(m2, (list, tuple)) and len(m2) >= 3 else None
                if v2 is None or vres[0] == 1 or v2[0] == 1:
                    e = {'error': True, 'why': 'varmap error'}
                elif not vres[1] or not v2[1]:
                    e = {'error': True, 'why': 'variable not bound'} if recs else {'rows': []}
                else:
                    i1, i2 = vres[1][0][1], v2[1][0][1]
                    e = {'rows': [[r[i1] if i1 < len(r) else None, r[i2] if i2 < len(r) else None] for r in recs]}
            else:
                e = {'error': True, 'why': 'varmap error'} if vres[0] == 1 else {'rows': recs, 'header': hdr}
            e['has_header'] = hdr is not None
            exp.append(e)
        out.append(exp)
    return args, raw, out


def canon_got(c, got, exp):
    """implementation observation -> the shape of the expectation (per query)"""
    if not isinstance(got, list):
        return got
    out = []
    for qi, (g, e) in enumerate(zip(got, exp)):
        if not isinstance(g, dict):
            out.append(g)
            continue
        if 'error' in g:
            out.append({'error': True})
            continue
        if 'out_records' in g:                 # query_csv file -> file: None is written as '', the header is the first line
            recs = g['out_records']
            if e.get('has_header'):
                hdr, recs = (recs[0] if recs else None), recs[1:]
            else:
                hdr = None
            g = {'rows': recs, 'header': hdr}
        r = {'rows': g['rows']}
        if qi == 2:
            r['header'] = g.get('header')
        out.append(r)
    return out


def canon_exp(c, exp):
    out = []
    for qi, e in enumerate(exp):
        if 'model' in e:
            out.append(e)
        elif e.get('error'):
            out.append({'error': True})
        else:
            rows = e['rows']
            if c['kind'] == 'csvfile':
                rows = [['' if v is None else str(v) for v in r] for r in rows]
            r = {'rows': rows}
            if qi == 2:
                r['header'] = e['header']
            out.append(r)
    return out


def describe(c, e, g):
    for qi, (x, y) in enumerate(zip(e, g if isinstance(g, list) else [g] * len(e))):
        if x != y:
            return ('%s source, header %r, column %d as %s, caller flag %r, modifier %r: query %r -> model %r, implementation %r'
                    % (c['src'], c['names_all'], c['col'], c['var'], c['flag'], c['mod'], c['queries'][qi], x, y))
    return 'C09 observation differs: %r vs %r' % (e, g)


# ------------------------------------------------------------------ JOIN stream (query_csv, both files)

def build_join_cases(ctx):
    rng = ctx.rng
    n = 120 if ctx.tier == 'quick' else 8000
    protos = []
    for _ in range(n):
        an = gen_names(rng)
        bn = gen_names(rng)
        keys = ['k1', 'k2', 'k3']
        arows = [[rng.choice(keys)] + [rng.choice(SAFE_VALUES) for _ in an[1:]] for _ in range(rng.randint(0, 3))]
        brows = [[rng.choice(keys)] + [rng.choice(SAFE_VALUES) for _ in bn[1:]] for _ in range(rng.randint(0, 3))]
        i = rng.randrange(len(bn))
        styles = ['dq', 'sq'] + (['attr'] if is_ident(bn[i]) and not keyword.iskeyword(bn[i]) else [])
        protos.append({'an': an, 'bn': bn, 'arows': arows, 'brows': brows, 'i': i, 'style': rng.choice(styles),
                       'flag': rng.random() < 0.5, 'mod': rng.choice(MODS)})
    escd = esc_model([(p['bn'][p['i']], '"' if p['style'] == 'dq' else "'") for p in protos])
    cases = []
    for p, e in zip(protos, escd):
        n = p['bn'][p['i']]
        var = {'attr': 'b.' + n, 'dq': 'b["' + e + '"]', 'sq': "b['" + e + "']"}[p['style']]
        q = 'select %s join JOINFILE_7f3a on a1 == b1%s' % (var, mod_suffix(rng, p['mod']))
        cases.append({'kind': 'csvfile', 'src': 'csvjoin', 'records': [p['an']] + p['arows'], 'join_records': [p['bn']] + p['brows'],
                      'queries': [q], 'var': var, 'flag': p['flag'], 'mod': p['mod'], 'names_all': p['bn'], 'col': p['i']})
    return cases


def join_expect(cases):
    """B's header logic and variable map are the same functions applied to the join table (C09_with_override)"""
    mod_ok = lambda m: m if m in ('header', 'headers', 'noheader', 'noheaders') else None
    hargs_a = [lib.enc([0, c['flag'], lib.Opt(c['mod']), c['records'], lib.Opt(None)]) for c in cases]
    hargs_b = [lib.enc([0, c['flag'], lib.Opt(c['mod']), c['join_records'], lib.Opt(None)]) for c in cases]
    ha = lib.run_model(523, hargs_a)
    hb = lib.run_model(523, hargs_b)
    vargs = []
    for c, b in zip(cases, hb):
        names = [lib.dec_str(x) for x in b[0][0]] if b[0] else None
        vargs.append(lib.enc([2, c['queries'][0].replace('JOINFILE_7f3a', '/tmp/tb.csv'), ord('b'), lib.Opt(names), lib.Opt(None)]))
    vm = lib.run_model(522, vargs)
    out = []
    for c, a, b, v in zip(cases, ha, hb, vm):
        arecs = [[lib.dec_str(f) for f in r] for r in a[1]]
        brecs = [[lib.dec_str(f) for f in r] for r in b[1]]
        has_hdr = bool(a[0])
        if v[0] == 1:
            out.append([{'error': True}])
            continue
        found = [e for e in v[1] if lib.dec_str(e[0]) == c['var']]
        pairs = [(ar, br) for ar in arecs for br in brecs if br[0] == ar[0]]
        if not found:
            out.append([{'error': True}] if pairs else [{'rows': [], 'has_header': has_hdr}])
            continue
        idx = found[0][2]
        out.append([{'rows': [['' if idx >= len(br) else br[idx]] for ar, br in pairs], 'has_header': has_hdr}])
    return out


# ------------------------------------------------------------------ internal probes and literal values

def build_internal(ctx):
    rng = ctx.rng
    n = 1500 if ctx.tier == 'quick' else 150000
    protos = []
    for _ in range(n):
        names = gen_names(rng)
        src = rng.choice([0, 0, 1, 2, 2])
        if src == 1 and rng.random() < 0.85:
            names = gen_names(rng, idents=True)
        if rng.random() < 0.2:                       # duplicate column names (outside the property, inside the model:
            j = rng.randrange(len(names))            # the dictionary comprehension keeps the LAST duplicate)
            names = names + [names[j]] if rng.random() < 0.5 else [names[j]] + names
        protos.append({'names': names, 'src': src})
    allq = []
    for p in protos:
        for n_ in p['names']:
            allq.append((n_, '"'))
            allq.append((n_, "'"))
    escd = iter(esc_model(allq))
    cases = []
    for p in protos:
        names = p['names']
        vars_ = []
        for n_ in names:
            d, s = next(escd), next(escd)
            vars_ += ['a["%s"]' % d, "a['%s']" % s]
            if is_ident(n_):
                vars_.append('a.' + n_)
            vars_.append(n_)
        pool = vars_ + ['a1', 'a2', 'a[3]', 'a12', 'a.NR', 'aNR', 'NR', 'b1', 'b.x', 'a.zz', 'xa1', 'a1x', 'a[x]', 'a[', "'a.q'", '"a[\\"k\\"]"', 'a.a.b', '_a.b', 'a[10]', 'a01', 'a0']
        parts = [rng.choice(pool) for _ in range(rng.randint(1, 5))]
        q = 'select ' + rng.choice([', ', ' + ', ',', ' ']).join(parts)
        c = {'kind': 'internal', 'query': q, 'names': names if rng.random() < 0.93 else None, 'src': p['src'], 'prefix': 'a',
             'records': [['v'] * len(names)] if rng.random() < 0.8 else [['v'] * (len(names) + 1)]}
        cases.append(c)
    return cases


def internal_expect(cases):
    out = []
    vargs, iargs = [], []
    for c in cases:
        first_len = len(c['records'][0]) if c['src'] in (0, 1) and c['records'] else None
        vargs.append(lib.enc([c['src'], c['query'], ord(c['prefix']), lib.Opt(c['names']), lib.Opt(first_len)]))
    vm = lib.run_model(522, vargs)
    eargs = [lib.enc([ord(q), n]) for c in cases if c['names'] is not None for n in c['names'] for q in '"\'']
    esc = iter(lib.run_model(520, eargs))
    pargs = [lib.enc([c['query'], n]) for c in cases if c['names'] is not None for n in c['names']]
    pre = iter(lib.run_model(527, pargs))
    # init code needs the model's format expression and literals of the query
    sargs = [lib.enc([0, c['query']]) for c in cases]
    seps = lib.run_model(501, sargs)
    iargs = []
    for c, v, sp in zip(cases, vm, seps):
        iargs.append(lib.enc([lib.Raw(lib.enc(lib.dec_str(sp[0]))), lib.Raw(sx_vmap(v[1]) if v[0] == 0 else '()'), lib.Opt(None), [lib.dec_str(x) for x in sp[1]]]))
    init = lib.run_model(524, iargs)
    for c, v, it in zip(cases, vm, init):
        e = {}
        if c['names'] is not None:
            e['escape'] = [[lib.dec_str(next(esc)), lib.dec_str(next(esc))] for _ in c['names']]
            e['prefilter'] = [bool(next(pre)) for _ in c['names']]
        if v[0] == 1:
            e['vmap'] = {'error': True}
        else:
            e['vmap'] = sorted([lib.dec_str(k), bool(i), n] for k, i, n in v[1])
            e['init'] = sorted(lib.dec_str(it).split('\n'))
        out.append(e)
    return vargs, vm, out


def sx_vmap(v):
    return '(' + ' '.join('(%s %d %d)' % (lib.enc(lib.dec_str(k)), 1 if i else 0, n) for k, i, n in v) + ')'


def canon_internal(g, e):
    if not isinstance(g, dict):
        return g
    g = dict(g)
    if isinstance(g.get('vmap'), dict):
        g['vmap'] = {'error': True}
    for k in ('escape', 'prefilter', 'init'):
        if k in e and k not in g:
            e.pop(k)                      # function not present in this implementation: not compared
    return g


ESC_PIECES = ['\\\\', '\\"', "\\'", '\\n', '\\r', '\\t', '\\a', '\\b', '\\f', '\\v', '\\0', '\\7', '\\12', '\\101', '\\777', '\\08', '\\x41', '\\xe9',
              '\\x4', '\\xg1', '\\q', '\\ ', '\\[', '\\N{DASH}', '\\u0041', '\\U00000041', '\\\n', 'a', 'Z', ' ', '"', "'", '#', 'é', '\t', '\n', '\r', '\x00', '8', 'x']


def build_literals(ctx):
    rng = ctx.rng
    n = 4000 if ctx.tier == 'quick' else 500000
    texts = []
    names = []
    for _ in range(n // 2):
        names.append((gen_name(rng) + (rng.choice(['\\', '"', "'", '\r', '\\\\', '']) if rng.random() < 0.3 else ''), rng.choice('"\'')))
    escd = esc_model(names)
    for (nm, q), e in zip(names, escd):
        texts.append({'kind': 'literal', 'text': q + e + q, 'from_name': nm})
    for _ in range(n - n // 2):
        q = rng.choice('"\'')
        body = ''.join(rng.choice(ESC_PIECES) for _ in range(rng.randint(0, 5)))
        t = q + body + q
        if rng.random() < 0.05:
            t = rng.choice([body, q + body, 'r' + t, t + 'x', q + q + t])
        texts.append({'kind': 'literal', 'text': t})
    return texts


def run(ctx):
    gen = fngen.start(ctx, 'vars')      # translation of the escape / prefilter functions + generated obligations, beside the correspondence run
    failure = None
    try:
        run_correspondence(ctx)
    except lib.CheckFailure as e:
        failure = e
    fngen.finish(ctx, gen, search_more=(lambda langs: extended_search(ctx, langs)) if failure is None else None)
    if failure is not None:
        raise failure


def extended_search(ctx, langs):
    """a generated obligation broke and the tier's run found no failing input: the thorough tier's generators (capped) - the internal
    probes (escape, prefilter, variable maps of rbql-py) and, for rbql-js, list sources through query_table"""
    class T_:
        tier = 'thorough'
        rng = ctx.rng
        seed = ctx.seed
    if 'py' in langs:
        ic = build_internal(T_)[:20000]
        _vargs, _vm, iexp = internal_expect(ic)
        igot = [canon_internal(g, e) for g, e in zip(lib.run_impl_py('c09', ic), iexp)]
        ctx.compare(ic, iexp, igot, THEOREM + ' ; internal variable-map functions (extended search)',
                    describe=lambda c, e, g: 'variable map / escape / init code differ for query %r, names %r, source %d: model %r, implementation %r' % (c['query'], c['names'], c['src'], e, g))
        ctx.stat('extended_search_internal', len(ic))
    if 'js' in langs:
        saved = ctx.tier
        try:
            ctx.tier = 'thorough'
            cases = [c for c in build_cases(ctx) if c['kind'] == 'table' and c.get('names') is not None and c['mod'] is None][:6000]
        finally:
            ctx.tier = saved
        _args, _raw, exp = model_expect(cases)
        keep = [i for i, e in enumerate(exp) if not any(x.get('error') or 'model' in x for x in e)]
        js_cases = [cases[i] for i in keep]
        js_got = [canon_got(c, g, exp[i]) for c, g, i in zip(js_cases, lib.run_impl_js('c09', js_cases, shards=8), keep)]
        ctx.compare([dict(c, impl='js') for c in js_cases], [canon_exp(cases[i], exp[i]) for i in keep], js_got, THEOREM + ' (rbql-js leg, extended search)',
                    describe=lambda c, e, g: 'rbql-js: ' + describe(c, e, g), shrink=None)
        ctx.stat('extended_search_js', len(js_cases))


def run_correspondence(ctx):
    ctx.rule = ('headers of 1-5 distinct names (identifiers and arbitrary strings over printable ASCII, quotes, backslash, brackets, '
                'TAB, LF, non-ASCII; 10% of the names carry replacement / template sequences such as $$ $& \\1 %s {} with the collapsed name as a sibling column), every column position, a.name / a["name"] / a[\'name\'] / bare name, sources list / direct / '
                'CSV iterator / query_csv (+JOIN) / pandas / sqlite (plain, typed and generated columns, views), caller flag x WITH modifier; non-trivial = distinct '
                '(source, header, column, variable style, flag, modifier) whose probed name is not a plain identifier or whose '
                'modifier / flag makes the first line a header')
    # ---- public path
    cases = build_cases(ctx)
    args, raw, exp = model_expect(cases)
    got = lib.run_impl_py('c09', cases)
    got = [canon_got(c, g, e) for c, g, e in zip(cases, got, exp)]
    expc = [canon_exp(c, e) for c, e in zip(cases, exp)]
    ctx.compare(cases, expc, got, THEOREM, describe=describe, shrink=None)
    ctx.cross_check_vm(528, args, raw, n=40 if ctx.tier == 'quick' else 200)
    for c, e in zip(cases, exp):
        ctx.count(len(c['queries']))
        ctx.stat('src_' + c['src'])
        ctx.stat('style_' + c['style'])
        ctx.stat('flag_%s_mod_%s' % (c['flag'], c['mod']))
        ctx.stat('q1_' + ('error' if e[0].get('error') else 'bound'))
        if e[0].get('has_header'):
            ctx.stat('effective_header_on')
        n = c['names_all'][c['col']]
        if any(m in n for m in META):
            ctx.stat('probed_name_has_template_sequence')
        if c.get('schema') is not None:
            ctx.stat('sqlite_generated_columns' if any(x['role'] == 'gen' for x in c['schema']['cols']) else 'sqlite_typed_columns')
            if c['schema']['view']:
                ctx.stat('sqlite_view')
        if not is_ident(n) or e[0].get('has_header'):
            ctx.nontriv((c['src'], tuple(c['names_all']), c['col'], c['style'], c['flag'], c['mod']))
    ctx.sample_safe(lambda: {'case': {k: cases[0][k] for k in ('src', 'queries', 'records', 'flag', 'mod')}, 'model': expc[0], 'implementation': got[0]})
    # ---- JavaScript leg (rbql-js/rbql.js is an anchor too): list sources through rbql-js query_table, same expectations.
    # The common ground: a header is given, the probe is written a["..."] / a['...'] / a.name / bare (the escape of a name is the
    # same text in both ports for the two quote characters), no WITH modifier (parsed by different regexes in the two ports)
    js_idx = [i for i, c in enumerate(cases) if c['kind'] == 'table' and c.get('names') is not None and c['mod'] is None
              and not any(e.get('error') or 'model' in e for e in exp[i])]
    js_cases = [cases[i] for i in js_idx]
    js_got = lib.run_impl_js('c09', js_cases, shards=8)
    js_got = [canon_got(c, g, exp[i]) for c, g, i in zip(js_cases, js_got, js_idx)]
    ctx.compare([dict(c, impl='js') for c in js_cases], [expc[i] for i in js_idx], js_got, THEOREM + ' (rbql-js leg)',
                describe=lambda c, e, g: 'rbql-js: ' + describe(c, e, g), shrink=None)
    ctx.count(sum(len(c['queries']) for c in js_cases))
    ctx.stat('js_leg_cases', len(js_cases))
    # ---- JOIN stream
    jc = build_join_cases(ctx)
    jexp = join_expect(jc)
    jgot = lib.run_impl_py('c09', jc)
    jgot = [canon_got(c, g, e) for c, g, e in zip(jc, jgot, jexp)]
    jexpc = [canon_exp(c, e) for c, e in zip(jc, jexp)]
    ctx.compare(jc, jexpc, jgot, THEOREM + ' ; join table: same functions', describe=describe, shrink=None)
    ctx.count(len(jc))
    for c in jc:
        ctx.stat('src_csvjoin')
        ctx.nontriv(('join', tuple(c['names_all']), c['col'], c['flag'], c['mod']))
    # ---- internal probes
    ic = build_internal(ctx)
    vargs, vm, iexp = internal_expect(ic)
    igot = lib.run_impl_py('c09', ic)
    igot = [canon_internal(g, e) for g, e in zip(igot, iexp)]
    ctx.compare(ic, iexp, igot, THEOREM + ' ; internal variable-map functions',
                describe=lambda c, e, g: 'variable map / escape / init code differ for query %r, names %r, source %d: model %r, implementation %r' % (c['query'], c['names'], c['src'], e, g))
    ctx.cross_check_vm(522, vargs, vm, n=30 if ctx.tier == 'quick' else 150)
    ctx.count(len(ic))
    for e in iexp:
        ctx.stat('internal_vmap_' + ('error' if isinstance(e['vmap'], dict) else 'ok'))
    # ---- Python literal values
    lc = build_literals(ctx)
    largs = [lib.enc(c['text']) for c in lc]
    lm = lib.run_model(521, largs)
    lgot = lib.run_impl_py('c09', lc)
    cs2, e2, g2 = [], [], []
    for c, m, g in zip(lc, lm, lgot):
        if m:
            cs2.append(c); e2.append(lib.dec_str(m[0])); g2.append(g)
            ctx.stat('literal_value_some')
            if 'from_name' in c:
                cs2.append(c); e2.append(c['from_name']); g2.append(g)      # round trip: the value is the column name
        else:
            ctx.stat('literal_value_none_' + ('python_error' if isinstance(g, dict) else 'python_value'))
    ctx.compare(cs2, e2, g2, 'C09_escape_roundtrip (Props/C09.v); py_literal_value = Python evaluation of the literal',
                describe=lambda c, e, g: 'literal %r: model value %r, Python value %r' % (c['text'], e, g))
    ctx.cross_check_vm(521, largs, lm, n=30)
    ctx.count(len(lc))
    ctx.exhaustive = False
    # column-name variables of rbql-js bind the same after earlier (also failing) queries in one process as in a fresh one (seeded change
    # C09-12: a scanner state left behind by an aborted scan mis-bound the variables of the NEXT query)
    import importlib
    importlib.import_module('props.c16js').run(ctx, THEOREM + ' ; rbql-js: bindings after earlier queries = bindings in a fresh interpreter')
    # rbql-js: column-name variables from CSV header LINES (query_csv, input and join file) - coverage gaps, notes/covgap.md
    importlib.import_module('props.cov_jsjoin').run_names(ctx, THEOREM, 80 if ctx.tier == 'quick' else 4000)


def replay(ctx, case):
    if case.get('part') == 'cov_jsjoin':
        import importlib
        return importlib.import_module('props.cov_jsjoin').replay(ctx, case, THEOREM)
    if 'fngen_obligation' in case:
        return fngen.replay(ctx, case)
    if case.get('part') == 'c16js':
        import importlib
        return importlib.import_module('props.c16js').replay(ctx, case, THEOREM)
    kind = case.get('kind')
    if kind == 'internal':
        _a, _v, e = internal_expect([case])
        g = [canon_internal(x, y) for x, y in zip(lib.run_impl_py('c09', [case], shards=1), e)]
        ctx.compare([case], e, g, THEOREM)
    elif kind == 'literal':
        m = lib.run_model(521, [lib.enc(case['text'])])[0]
        g = lib.run_impl_py('c09', [case], shards=1)
        if m:
            ctx.compare([case], [lib.dec_str(m[0])], g, 'py_literal_value')
    elif case.get('src') == 'csvjoin':
        e = join_expect([case])
        g = lib.run_impl_py('c09', [case], shards=1)
        ctx.compare([case], [canon_exp(case, e[0])], [canon_got(case, g[0], e[0])], THEOREM, describe=describe)
    else:
        _a, _r, e = model_expect([case])
        g = (lib.run_impl_js if case.get('impl') == 'js' else lib.run_impl_py)('c09', [case], shards=1)
        ctx.compare([case], [canon_exp(case, e[0])], [canon_got(case, g[0], e[0])], THEOREM, describe=describe)
    ctx.count(1)
