# C02 - ORDER BY, DISTINCT and TOP/LIMIT compose as sort, then dedup, then truncate; bounded streaming queries stop early.
# Model: Writers.v (chain) + Engine.v; theorems: Props/C02.v (chain_correct, stable sort facts, early stop).
import itertools
import importlib
import lib
import qgen
import enginecheck as ec

THEOREM = 'C02_query / C02_chain / C02_early_stop (Props/C02.v): rows = trunc top (dedup distinct (stable-sort-or-identity offers))'


def key_exprs(r, g, ncols, kind):
    n = r.choice([1, 1, 2])
    out = []
    for _ in range(n):
        col = r.randint(0, ncols - 1)
        if kind == 'int':
            out.append(r.choice([('int', ('fld', 'a', col)), ('len', ('fld', 'a', col)), ('NR',), ('NF',)]))
        else:
            out.append(r.choice([('fld', 'a', col), ('add', ('fld', 'a', col), ('lit', 'x'))]))
    return out


def gen_case(ctx, g):
    r = ctx.rng
    kind = r.choice(['int', 'str'])
    ncols = r.randint(1, 3)
    nrows = r.randint(0, 7)
    cells = ['1', '2', '3', '12'] if kind == 'int' else ['a', 'b', 'ab', '']
    if kind == 'int' and r.random() < 0.3:
        cells = ['-1', '-2', '1', '0', '-1']       # distinct values that a lossy fingerprint confuses (CPython: hash(-1) == hash(-2))
    A = g.rect_table(nrows, ncols, cells)
    B = None
    join = None
    cx = {'na': ncols, 'nb': None}
    if r.random() < 0.25:
        B = g.rect_table(r.randint(0, 4), 2, cells[:2])
        join = g.join({'na': ncols, 'nb': 2}, nkeys=1)
        join['lhs'] = [r.randint(0, ncols - 1)]
        join['rhs'] = [0]
        cx['nb'] = 2
    items = []
    for _ in range(r.randint(1, 2)):
        x = r.random()
        if x < 0.5:
            f = ('fld', 'a', r.randint(0, ncols - 1))
            items.append(('expr', ('int', f) if (kind == 'int' and r.random() < 0.4) else f))
        elif x < 0.65:
            items.append(('star',))
        elif x < 0.8 and B is not None:
            items.append(('expr', ('fld', 'b', 1)))
        elif x < 0.9 and not any(i[0] == 'unnest' for i in items):
            items.append(('unnest', ('list', [('fld', 'a', 0), ('lit', 'u'), ('fld', 'a', 0)]), 'UNNEST'))
        else:
            items.append(('expr', ('lit', 'c')))
    order = None
    if r.random() < 0.7:
        order = (key_exprs(r, g, ncols, kind), r.random() < 0.5)
    distinct = r.choice([0, 0, 1, 1, 2])
    top = None
    if r.random() < 0.6:
        top = r.randint(0, nrows + 1)
    where = None
    if r.random() < 0.3:
        where = ('ne', ('fld', 'a', 0), ('lit', cells[0]))
    qa = {'kind': ('select', items), 'where': where, 'join': join, 'order': order, 'distinct': distinct,
          'top': top, 'top_spelling': r.choice(['top', 'limit']), 'asc_explicit': r.random() < 0.3}
    return ec.make_case(r, qa, A, B, also_table=True)


def gen_endless(ctx, g):
    """bounded query without buffering over an endless input: must terminate, pulling no more than the model"""
    r = ctx.rng
    ncols = r.randint(1, 2)
    base = g.rect_table(r.randint(1, 4), ncols, ['a', 'b', 'c'])
    n = r.randint(0, 6)
    items = [('expr', ('fld', 'a', 0))] + ([('expr', ('NR',))] if r.random() < 0.5 else [])
    if r.random() < 0.2:
        items.append(('unnest', ('list', [('lit', 'u'), ('lit', 'v')]), 'UNNEST'))
    where = ('ne', ('fld', 'a', 0), ('lit', 'a')) if r.random() < 0.4 else None
    distinct = 1 if (r.random() < 0.3 and not any(i[1] == ('NR',) for i in items if i[0] == 'expr')) else 0
    qa = {'kind': ('select', items), 'where': where, 'join': None, 'order': None, 'distinct': distinct,
          'top': n, 'top_spelling': r.choice(['top', 'limit'])}
    c = ec.make_case(r, qa, base, None, endless=5000, tags=['pulls_le', 'endless'])
    c['A_model'] = [base[i % len(base)] for i in range(80)]
    return c


def exhaustive_cases(ctx, limit):
    """all tables of <= 3 rows over keys {1,2} x payload {x,y}, every combination of order/distinct/top"""
    rows = [[k, p] for k in '12' for p in 'xy']
    tables = [list(t) for n in range(0, 4) for t in itertools.product(rows, repeat=n)]
    combos = []
    for order in [None, ([('int', ('fld', 'a', 0))], False), ([('int', ('fld', 'a', 0))], True), ([('fld', 'a', 1), ('fld', 'a', 0)], False)]:
        for distinct in (0, 1, 2):
            for top in (None, 0, 1, 2, 4):
                for sel in ([('expr', ('fld', 'a', 1))], [('star',)]):
                    combos.append((order, distinct, top, sel))
    allc = list(itertools.product(range(len(tables)), range(len(combos))))
    if limit is not None and len(allc) > limit:
        allc = ctx.rng.sample(allc, limit)
    out = []
    for ti, ci in allc:
        order, distinct, top, sel = combos[ci]
        qa = {'kind': ('select', sel), 'where': None, 'join': None, 'order': order, 'distinct': distinct, 'top': top}
        out.append(ec.make_case(None, qa, [list(x) for x in tables[ti]], None))
    return out


def rel(c, e, g):
    if 'endless' in c.get('tags', ()):
        if e is None:
            return True
        if e['error'] is not None:
            return isinstance(g, dict) and g.get('error') == e['error']
        if e['pulls'] >= len(c['A_model']):
            return True       # the model did not reach the bound within its finite prefix: nothing to compare
        if not isinstance(g, dict) or g.get('error') is not None:
            return False      # includes NONTERMINATION
        return ec.strip_header(e['events']) == ec.strip_header(g['events']) and g['pulls'] <= e['pulls']
    return ec.engine_rel(c, e, g)


def run(ctx):
    g = qgen.Gen(ctx.rng)
    n = 3000 if ctx.tier == 'quick' else 500000
    cases = [gen_case(ctx, g) for _ in range(n)]
    cases += [gen_endless(ctx, g) for _ in range(300 if ctx.tier == 'quick' else 5000)]
    cases += exhaustive_cases(ctx, 3000 if ctx.tier == 'quick' else None)
    ctx.rule = ('queries over {ORDER BY asc/desc, 1-2 homogeneous int or string keys} x {none, DISTINCT, DISTINCT COUNT} x {none, TOP n, LIMIT n, n in 0..|T|+1} '
                'x {WHERE, JOIN, UNNEST} on tables with many duplicate keys/rows; endless-input streams for the early-stop clause (implementation must terminate with '
                'pulls <= model pulls); bounded enumeration: all tables <= 3 rows over keys {1,2} x payload {x,y} x 120 clause combinations (%s); '
                'non-trivial = distinct case with at least one output row or an error') % ('sampled' if ctx.tier == 'quick' else 'complete')
    exp, got = ec.evaluate(ctx, cases, THEOREM, rel=rel)
    k = 0
    for c, e, g_ in zip(cases, exp, got):
        if 'endless' in c.get('tags', ()) and e and isinstance(g_, dict):
            ctx.stat('endless_terminated' if g_.get('error') is None else 'endless_error')
            if k < 1:
                ctx.sample({'query': c['q'], 'endless_base_table': c['A'], 'model_pulls': e['pulls'], 'implementation_pulls': g_['pulls']})
                k += 1
    for c, e, g_ in list(zip(cases, exp, got))[:2]:
        ctx.sample({'query': c['q'], 'A': c['A'], 'B': c['B'], 'model': e, 'implementation': {k2: g_.get(k2) for k2 in ('events', 'pulls', 'error')} if isinstance(g_, dict) else g_})
    # rbql-js/rbql.js is an anchor of this property too: the JavaScript leg runs language-neutral queries of this shape through rbql-js
    importlib.import_module('props.c19').js_leg(ctx, THEOREM, 'order', 600 if ctx.tier == 'quick' else 60000)
    # how rbql-js sorts: the real stable_compare / compare_aggregation_keys / SortedWriter against JsSort.v and the reference stable sort
    importlib.import_module('props.jssort').run(ctx)
    # recorded finding F4: a null ORDER BY key in rbql-js (KNOWN-FINDING while it reproduces)
    importlib.import_module('props.nullkeys').run(ctx, THEOREM, 'C02')


def replay(ctx, case):
    if case.get('part') == 'nullkeys':
        return importlib.import_module('props.nullkeys').replay(ctx, case, THEOREM, 'C02')
    if case.get('part') == 'jssort':
        return importlib.import_module('props.jssort').replay(ctx, {k: v for k, v in case.items() if k != 'part'})
    if case.get('impl') == 'js':
        return importlib.import_module('props.c19').replay(ctx, case)
    ec.replay(ctx, case, THEOREM, rel=rel)
