# C02 - ORDER BY, DISTINCT and TOP/LIMIT compose as sort, then dedup, then truncate; bounded streaming queries stop early.
# Model: Writers.v (chain) + Engine.v; theorems: Props/C02.v (chain_correct, stable sort facts, early stop).
import itertools
import importlib
import json
import lib
import qgen
import enginecheck as ec

THEOREM = 'C02_query / C02_chain / C02_early_stop (Props/C02.v): rows = trunc top (dedup distinct (stable-sort-or-identity offers))'


def key_exprs(r, g, ncols, kind):
    n = r.choice([1, 1, 2])
    out = []
    for _ in range(n):
        col = r.randint(0, ncols - 1)
        if kind == 'int':
            out.append(r.choice([('int', ('fld', 'a', col)), ('len', ('fld', 'a', col)), ('NR',), ('NF',)]))
        else:
            out.append(r.choice([('fld', 'a', col), ('add', ('fld', 'a', col), ('lit', 'x'))]))
    return out


def gen_case(ctx, g):
    r = ctx.rng
    kind = r.choice(['int', 'str'])
    ncols = r.randint(1, 3)
    nrows = r.randint(0, 7)
    cells = ['1', '2', '3', '12'] if kind == 'int' else ['a', 'b', 'ab', '']
    if kind == 'int' and r.random() < 0.3:
        cells = ['-1', '-2', '1', '0', '-1']       # distinct values that a lossy fingerprint confuses (CPython: hash(-1) == hash(-2))
    A = g.rect_table(nrows, ncols, cells)
    B = None
    join = None
    cx = {'na': ncols, 'nb': None}
    if r.random() < 0.25:
        B = g.rect_table(r.randint(0, 4), 2, cells[:2])
        join = g.join({'na': ncols, 'nb': 2}, nkeys=1)
        join['lhs'] = [r.randint(0, ncols - 1)]
        join['rhs'] = [0]
        cx['nb'] = 2
    items = []
    for _ in range(r.randint(1, 2)):
        x = r.random()
        if x < 0.5:
            f = ('fld', 'a', r.randint(0, ncols - 1))
            items.append(('expr', ('int', f) if (kind == 'int' and r.random() < 0.4) else f))
        elif x < 0.65:
            items.append(('star',))
        elif x < 0.8 and B is not None:
            items.append(('expr', ('fld', 'b', 1)))
        elif x < 0.9 and not any(i[0] == 'unnest' for i in items):
            items.append(('unnest', ('list', [('fld', 'a', 0), ('lit', 'u'), ('fld', 'a', 0)]), 'UNNEST'))
        else:
            items.append(('expr', ('lit', 'c')))
    order = None
    if r.random() < 0.7:
        order = (key_exprs(r, g, ncols, kind), r.random() < 0.5)
    distinct = r.choice([0, 0, 1, 1, 2])
    top = None
    if r.random() < 0.6:
        top = r.randint(0, nrows + 1)
    where = None
    if r.random() < 0.3:
        where = ('ne', ('fld', 'a', 0), ('lit', cells[0]))
    qa = {'kind': ('select', items), 'where': where, 'join': join, 'order': order, 'distinct': distinct,
          'top': top, 'top_spelling': r.choice(['top', 'limit']), 'asc_explicit': r.random() < 0.3}
    return ec.make_case(r, qa, A, B, also_table=True)


# Typed cells (list / dataframe / sqlite sources hold numbers, None and strings side by side, a CSV file never does): values that are
# DIFFERENT output records although str() renders them alike (7 vs '7', None vs 'None', True vs 'True'), and values that are the SAME
# record although they are spelled differently (1 == True, 0 == False - Python equality, Value.atom_eqb in the model).  Seeded
# change C02-13 compared records by the text of their fields.
TYPED_FAMILIES = [[7, '7'], [None, 'None', ''], [0, '0', False], [1, '1', True, 'True'], [-1, '-1', -2], [12, '12', '1', 2]]


def gen_typed(ctx, g, with_bools=True):
    """DISTINCT / DISTINCT COUNT / TOP / ORDER BY over records whose fields differ in TYPE only"""
    r = ctx.rng
    pool = [v for fam in r.sample(TYPED_FAMILIES, r.randint(1, 2)) for v in fam]
    if not with_bools:
        pool = [v for v in pool if not isinstance(v, bool)]      # (sqlite stores True as the integer 1: no bools when the case also runs from sqlite)
    ntyped = r.randint(1, 2)
    pay = ['x', 'y'] if r.random() < 0.7 else ['x']
    A = [[r.choice(pool) for _ in range(ntyped)] + [r.choice(pay)] for _ in range(r.randint(0, 8))]
    ncols = ntyped + 1
    items = []
    for _ in range(r.randint(1, 2)):
        x = r.random()
        if x < 0.55:
            items.append(('expr', ('fld', 'a', r.randint(0, ntyped - 1))))
        elif x < 0.8:
            items.append(('star',))
        elif x < 0.9 and not any(i[0] == 'unnest' for i in items):
            items.append(('unnest', ('list', [('fld', 'a', 0), ('lit', r.choice(pool)), ('fld', 'a', 0)]), 'UNNEST'))
        else:
            items.append(('expr', ('fld', 'a', ncols - 1)))
    order = None
    if r.random() < 0.5:
        # keys of ONE kind (mixed kinds are a TypeError of sorted()): the payload column, its length, the record number
        order = ([r.choice([('fld', 'a', ncols - 1), ('len', ('fld', 'a', ncols - 1)), ('NR',)])], r.random() < 0.5)
    where = ('ne', ('fld', 'a', 0), ('lit', r.choice(pool))) if r.random() < 0.25 else None
    qa = {'kind': ('select', items), 'where': where, 'join': None, 'order': order, 'distinct': r.choice([1, 1, 2, 2, 0]),
          'top': r.randint(0, len(A) + 1) if r.random() < 0.4 else None, 'top_spelling': r.choice(['top', 'limit']), 'asc_explicit': r.random() < 0.3}
    c = ec.make_case(r, qa, A, None, also_table=True, tags=['typed'])
    if not with_bools:
        c['sources'] = ['pandas', 'sqlite']
    return c


def src_rel(c, e, g):
    """the same query over the same typed table held by a dataframe / a sqlite table: every write and the error as the model has them"""
    if e is None:
        return True
    if not isinstance(g, dict):
        return False
    for src in c['sources']:
        o = g.get(src)
        if not isinstance(o, dict) or 'events' not in o:
            return False
        if ec.strip_header(o['events']) != ec.strip_header(e['events']) or o['error'] != e['error']:
            return False
    return True


def src_describe(c, e, g):
    return 'query %r over the typed table %s held by %s: model=%s implementation=%s' % (c['q'], json.dumps(c['A']), ' / '.join(c['sources']), json.dumps(e)[:300], json.dumps(g)[:500])


def typed_sources_leg(ctx, cases, exp):
    sel = [(dict(c, part='typed_sources'), e) for c, e in zip(cases, exp) if c.get('sources')]
    if not sel:
        return
    scases, sexp = [x[0] for x in sel], [x[1] for x in sel]
    got = lib.run_impl_py('c02src', scases, extra_env={'VERIF_SCRATCH': lib.BUILD})
    ctx.compare(scases, sexp, got, THEOREM, rel=src_rel, describe=src_describe,
                corrupt=lambda e: {'events': [['F'], ['F']], 'pulls': -1, 'error': ['CANARY', 0, None]} if e is None else dict(e, error=['CANARY', 0, None]))
    ctx.count(len(scases) * 2)
    ctx.stat('typed_cases_from_dataframe_and_sqlite', len(scases))


def gen_endless(ctx, g):
    """bounded query without buffering over an endless input: must terminate, pulling no more than the model"""
    r = ctx.rng
    ncols = r.randint(1, 2)
    base = g.rect_table(r.randint(1, 4), ncols, ['a', 'b', 'c'])
    n = r.randint(0, 6)
    items = [('expr', ('fld', 'a', 0))] + ([('expr', ('NR',))] if r.random() < 0.5 else [])
    if r.random() < 0.2:
        items.append(('unnest', ('list', [('lit', 'u'), ('lit', 'v')]), 'UNNEST'))
    where = ('ne', ('fld', 'a', 0), ('lit', 'a')) if r.random() < 0.4 else None
    distinct = 1 if (r.random() < 0.3 and not any(i[1] == ('NR',) for i in items if i[0] == 'expr')) else 0
    qa = {'kind': ('select', items), 'where': where, 'join': None, 'order': None, 'distinct': distinct,
          'top': n, 'top_spelling': r.choice(['top', 'limit'])}
    c = ec.make_case(r, qa, base, None, endless=5000, tags=['pulls_le', 'endless'])
    c['A_model'] = [base[i % len(base)] for i in range(80)]
    return c


def exhaustive_cases(ctx, limit):
    """all tables of <= 3 rows over keys {1,2} x payload {x,y}, every combination of order/distinct/top"""
    rows = [[k, p] for k in '12' for p in 'xy']
    tables = [list(t) for n in range(0, 4) for t in itertools.product(rows, repeat=n)]
    combos = []
    for order in [None, ([('int', ('fld', 'a', 0))], False), ([('int', ('fld', 'a', 0))], True), ([('fld', 'a', 1), ('fld', 'a', 0)], False)]:
        for distinct in (0, 1, 2):
            for top in (None, 0, 1, 2, 4):
                for sel in ([('expr', ('fld', 'a', 1))], [('star',)]):
                    combos.append((order, distinct, top, sel))
    allc = list(itertools.product(range(len(tables)), range(len(combos))))
    if limit is not None and len(allc) > limit:
        allc = ctx.rng.sample(allc, limit)
    out = []
    for ti, ci in allc:
        order, distinct, top, sel = combos[ci]
        qa = {'kind': ('select', sel), 'where': None, 'join': None, 'order': order, 'distinct': distinct, 'top': top}
        out.append(ec.make_case(None, qa, [list(x) for x in tables[ti]], None))
    return out


def rel(c, e, g):
    if 'endless' in c.get('tags', ()):
        if e is None:
            return True
        if e['error'] is not None:
            return isinstance(g, dict) and g.get('error') == e['error']
        if e['pulls'] >= len(c['A_model']):
            return True       # the model did not reach the bound within its finite prefix: nothing to compare
        if not isinstance(g, dict) or g.get('error') is not None:
            return False      # includes NONTERMINATION
        return ec.strip_header(e['events']) == ec.strip_header(g['events']) and g['pulls'] <= e['pulls']
    return ec.engine_rel(c, e, g)


def run(ctx):
    g = qgen.Gen(ctx.rng)
    n = 3000 if ctx.tier == 'quick' else 500000
    cases = [gen_case(ctx, g) for _ in range(n)]
    cases += [gen_endless(ctx, g) for _ in range(300 if ctx.tier == 'quick' else 5000)]
    cases += exhaustive_cases(ctx, 3000 if ctx.tier == 'quick' else None)
    nt = 600 if ctx.tier == 'quick' else 60000
    cases += [gen_typed(ctx, g) for _ in range(nt)] + [gen_typed(ctx, g, with_bools=False) for _ in range(nt // 3)]
    ctx.rule = ('queries over {ORDER BY asc/desc, 1-2 homogeneous int or string keys} x {none, DISTINCT, DISTINCT COUNT} x {none, TOP n, LIMIT n, n in 0..|T|+1} '
                'x {WHERE, JOIN, UNNEST} on tables with many duplicate keys/rows; endless-input streams for the early-stop clause (implementation must terminate with '
                'pulls <= model pulls); typed tables (numbers, None, booleans and strings side by side: records that differ in the TYPE of a field only, 1 == True) '
                'through rbql.query / query_table, a third of them also from a dataframe (DataframeIterator) and a sqlite table (SqliteRecordIterator); bounded enumeration: all tables <= 3 rows over keys {1,2} x payload {x,y} x 120 clause combinations (%s); '
                'non-trivial = distinct case with at least one output row or an error') % ('sampled' if ctx.tier == 'quick' else 'complete')
    exp, got = ec.evaluate(ctx, cases, THEOREM, rel=rel)
    typed_sources_leg(ctx, cases, exp)
    for c in cases:
        if 'typed' in c.get('tags', ()):
            ctx.stat('typed_cells_distinct_%d' % c['qa']['distinct'])
    k = 0
    for c, e, g_ in zip(cases, exp, got):
        if 'endless' in c.get('tags', ()) and e and isinstance(g_, dict):
            ctx.stat('endless_terminated' if g_.get('error') is None else 'endless_error')
            if k < 1:
                ctx.sample({'query': c['q'], 'endless_base_table': c['A'], 'model_pulls': e['pulls'], 'implementation_pulls': g_['pulls']})
                k += 1
    for c, e, g_ in list(zip(cases, exp, got))[:2]:
        ctx.sample({'query': c['q'], 'A': c['A'], 'B': c['B'], 'model': e, 'implementation': {k2: g_.get(k2) for k2 in ('events', 'pulls', 'error')} if isinstance(g_, dict) else g_})
    # rbql-js/rbql.js is an anchor of this property too: the JavaScript leg runs language-neutral queries of this shape through rbql-js
    importlib.import_module('props.c19').js_leg(ctx, THEOREM, 'order', 600 if ctx.tier == 'quick' else 60000)
    # how rbql-js sorts: the real stable_compare / compare_aggregation_keys / SortedWriter against JsSort.v and the reference stable sort
    importlib.import_module('props.jssort').run(ctx)
    # recorded finding F4: a null ORDER BY key in rbql-js (KNOWN-FINDING while it reproduces)
    importlib.import_module('props.nullkeys').run(ctx, THEOREM, 'C02')

    # the early-stop clause for rbql-js over a byte stream that never ends (finding D26)
    importlib.import_module('props.c02stream').run(ctx)

def replay(ctx, case):
    if case.get('part') == 'c02stream':
        return importlib.import_module('props.c02stream').replay(ctx, case)
    if case.get('part') == 'typed_sources':
        e = ec.canon_model(lib.run_model(300, [ec.model_arg(case)], shards=1)[0])
        g = lib.run_impl_py('c02src', [case], shards=1, extra_env={'VERIF_SCRATCH': lib.BUILD})[0]
        ctx.count()
        return ctx.compare([case], [e], [g], THEOREM, rel=src_rel, describe=src_describe)
    if case.get('part') == 'nullkeys':
        return importlib.import_module('props.nullkeys').replay(ctx, case, THEOREM, 'C02')
    if case.get('part') == 'jssort':
        return importlib.import_module('props.jssort').replay(ctx, {k: v for k, v in case.items() if k != 'part'})
    if case.get('impl') == 'js':
        return importlib.import_module('props.c19').replay(ctx, case)
    ec.replay(ctx, case, THEOREM, rel=rel)
