# C12 - CSV reading depends only on content, never on how the stream is chunked.
# Model: Reader.v (run_py / rows_py; spec records_of_text); theorems: Props/C12.v.
# Correspondence:
#  (1) text level, exhaustive: for every text over {a " , LF CR # space} up to length n and every configuration the
#      implementation is run on ALL 2^(n-1) partitions x chunk sizes {1, 2, n+1}; every run must give exactly the value
#      of the proved spec records_of_text (C12_records: model run on any partition = spec), so two different outcomes
#      for one text (partition dependence) or one outcome different from the spec are both violations.
#  (2) a sample of concrete (partition, chunk size) pairs: model run_py / rows_py (the stream-level model itself) vs
#      the implementation (get_all_records/get_header/get_warnings and, as an extra probe, _get_all_rows in line mode).
#  (3) byte level: utf-8 / latin-1 samples through a raw io.RawIOBase with short readinto, all partitions.
# Field splitting belongs to another area (Csv.v): for quoted policies the model's split function is a finite table
# (line -> fields, warning) obtained from csv_utils.smart_split for exactly the logical rows the MODEL asks for.
import importlib
import itertools
import os
import sys
import lib
c12tl = importlib.import_module('props.c12tl')

ALPHA = 'a",\n\r# '
THEOREM = 'C12_records / C12_lines / C12_rfc_balance (Props/C12.v): run_py cfg cs pieces = records_of_text cfg (concat pieces)'
POLICIES = [('simple', ','), ('quoted', ','), ('quoted_rfc', ','), ('monocolumn', '')]
ENC_TAG = {None: 0, 'utf-8': 1, 'latin-1': 2}


def cfg_sx(c, enc=None):
    return [c['policy'] == 'quoted_rfc', lib.Opt(c['comment']), bool(c['header']), ENC_TAG[enc], lib.Opt(c.get('modifier'))]


def needs_table(c):
    return c['policy'] in ('quoted', 'quoted_rfc', 'whitespace')


def split_sx(c, table):
    d = c['delim'] if c['policy'] == 'simple' else None
    return [lib.Opt(d), [[l, f, w] for (l, (f, w)) in table]]


def dec_result(m):
    if m == 4040404:
        return ['model-ERR']
    if m[0] == 0:
        recs = [[lib.dec_str(f) for f in r] for r in m[1]]
        header = [lib.dec_str(f) for f in m[2][0]] if m[2] else None
        w = m[3]
        warn = [bool(w[0]), (w[1][0] if w[1] else None), (list(w[2][0]) if w[2] else None)]
        return ['ok', recs, header, warn, m[4], m[5]]
    if m[0] == 1:
        return ['err', 'RbqlIOHandlingError', m[1], m[2]]
    return ['model-other', m]


def dec_rows(m):
    if m == 4040404:
        return ['model-ERR']
    return [[lib.dec_str(r) for r in m[0]], m[1], bool(m[2])]


def configs(tier, rng):
    out = []
    pols = list(POLICIES)
    if tier == 'thorough':
        pols.append(('whitespace', ' '))
    for pol, delim in pols:
        for comment in (None, '#'):
            for header in (False, True):
                out.append({'policy': pol, 'delim': delim, 'comment': comment, 'header': header, 'modifier': None})
    return out


def gen_text_cases(ctx):
    rng = ctx.rng
    cfgs = configs(ctx.tier, rng)
    cases = []
    if ctx.tier == 'quick':
        full, sampled, nsample = 4, 5, 2600
    else:
        full, sampled, nsample = 6, 7, 30000
    texts = [''.join(t) for n in range(full + 1) for t in itertools.product(ALPHA, repeat=n)]
    for t in texts:
        for c in cfgs:
            cases.append(dict(c, kind='all', text=t, chunk_sizes=None))
    # the next length: a sample of texts, all partitions, all configurations
    for _ in range(nsample):
        t = ''.join(rng.choice(ALPHA) for _ in range(sampled))
        for c in cfgs:
            cases.append(dict(c, kind='all', text=t, chunk_sizes=None))
    # WITH (header) / WITH (noheader), multi-character comment prefix, longer structured texts on sampled partitions
    toks = ['a', '"', ',', '\n', '\r', '\r\n', '#', ' ', '""', 'a,a', '"a\n', '#a', '##', '\ufeff']
    for _ in range(1500 if ctx.tier == 'quick' else 30000):
        t = ''.join(rng.choice(toks) for _ in range(rng.randint(0, 9)))
        c = dict(rng.choice(cfgs))
        c['modifier'] = rng.choice([None, True, False])
        c['comment'] = rng.choice([None, '#', '##', '#a', '', 'a'])
        n = len(t)
        masks = None
        if n > 7:
            masks = sorted(set(rng.randrange(1 << (n - 1)) for _ in range(48)) | {0, (1 << (n - 1)) - 1})
        cases.append(dict(c, kind='all', text=t, chunk_sizes=sorted({1, 2, 3, n + 1, 1024}), masks=masks))
    return cases


def expected_for(cases, ctx):
    """spec value (records_of_text) for every (text, cfg); the split table of quoted policies comes from the implementation's smart_split"""
    idx_tab = [i for i, c in enumerate(cases) if needs_table(c)]
    rows_args = [lib.enc([cfg_sx(cases[i], cases[i].get('encoding')), cases[i]['text']]) for i in idx_tab]
    rows = lib.run_model(204, rows_args)
    tables = {}
    want = {}
    for i, r in zip(idx_tab, rows):
        c = cases[i]
        ls = [lib.dec_str(x) for x in r[0]]
        tables[i] = ls
        for l in ls:
            want.setdefault((c['policy'], c['delim']), set()).add(l)
    oracle = {}
    split_cases = []
    for (pol, delim), ls in sorted(want.items()):
        ls = sorted(ls)
        for k in range(0, len(ls), 2000):
            split_cases.append({'kind': 'split', 'policy': pol, 'delim': delim, 'lines': ls[k:k + 2000]})
    res = lib.run_impl_py('c12', split_cases)
    have_oracle = True
    for sc, r in zip(split_cases, res):
        if r is None or isinstance(r, dict):
            have_oracle = False
            break
        for l, fw in zip(sc['lines'], r):
            oracle[(sc['policy'], sc['delim'], l)] = (fw[0], bool(fw[1]))
    args = []
    tabs = []
    for i, c in enumerate(cases):
        tab = []
        if i in tables and have_oracle:
            tab = [(l, oracle[(c['policy'], c['delim'], l)]) for l in sorted(set(tables[i]))]
        tabs.append(tab)
        args.append(lib.enc([cfg_sx(c, c.get('encoding')), split_sx(c, tab), c['text']]))
    model = lib.run_model(202, args)
    return [dec_result(m) for m in model], args, model, have_oracle, tabs


def describe(c, e, g):
    if c.get('kind') in ('one', 'bytes_one'):
        return ('CSVRecordIterator differs from the proved reader spec: policy=%r delim=%r comment=%r header=%r pieces=%r chunk_size=%r: '
                'spec/model=%r implementation=%r' % (c['policy'], c['delim'], c['comment'], c['header'], c.get('pieces'), c.get('cs'), e, g))
    return 'reader outcome depends on the partition or differs from the spec: text=%r cfg=%r: spec=%r implementation outcomes=%r' % (
        c.get('text', c.get('data')), {k: c[k] for k in ('policy', 'delim', 'comment', 'header')}, e, g)


def rel_all(c, e, g):
    """every partition x chunk size gave the same outcome, and it is the spec's"""
    return isinstance(g, list) and len(g) == 1 and g[0][0] == e


def shrink_all(c, e, g):
    if not isinstance(g, list):
        return None
    for o in g:
        if o[0] != e:
            if c['kind'] == 'all':
                c1 = {k: c[k] for k in ('policy', 'delim', 'comment', 'header', 'modifier')}
                c1.update(kind='one', pieces=o[1], cs=o[2], text=c['text'])
            else:
                c1 = {k: c[k] for k in ('policy', 'delim', 'comment', 'header', 'modifier', 'encoding')}
                c1.update(kind='bytes_one', pieces=o[1], data=c['data'], text=c['text'])
            return c1, e, o[0]
    return None


def nruns(c):
    n = len(c['text'])
    k = len(c['masks']) if c.get('masks') is not None else (1 << max(0, n - 1))
    return k * len(c['chunk_sizes'] or [1, 2, n + 1])


BYTE_SAMPLES = [
    'a,\u00e9\nb', '\u00e9', '\ufeffa,b\nc', '\ufeff', 'a\r\n\u00e9,"\u20ac"', '\u20ac\r\n', '"\U0001d11e\n",a', 'x\U0001d11e\r', '\ufeff#a\nb',
    '"a\r\nb",\u00e9\n', '\u00e9\r\n\u20ac', 'a,b\r', '\ufeff"a', '\u00df,#\n#\u00df',
]
INVALID_SAMPLES = [[0x61, 0xC3], [0xC3, 0x28], [0xE2, 0x82], [0xE0, 0x80, 0x80], [0xED, 0xA0, 0x80], [0xF0, 0x9D, 0x84], [0xFF, 0x0A, 0x61],
                   [0x61, 0x0A, 0xC3], [0xF4, 0x90, 0x80, 0x80], [0x80]]


def gen_byte_cases(ctx):
    rng = ctx.rng
    cases = []
    cfgs = configs('quick', rng)
    samples = list(BYTE_SAMPLES)
    if ctx.tier == 'thorough':
        pool = ['a', '\u00e9', '\u20ac', '\U0001d11e', '\n', '\r', '\r\n', '"', ',', '#', '\ufeff']
        for _ in range(60):
            samples.append(''.join(rng.choice(pool) for _ in range(rng.randint(1, 4))))
    # every token sequence with a BOM somewhere (first line, later lines, twice): the BOM is dropped on line 1 only
    toks = ['\ufeff', 'a', '\n', '\r', '"', ',']
    for n in range(1, 4 if ctx.tier == 'quick' else 5):
        for t in itertools.product(toks, repeat=n):
            if '\ufeff' in t:
                samples.append(''.join(t))
    for s in samples:
        for encoding in ('utf-8', 'latin-1'):
            data = s.encode('utf-8')
            if len(data) > (10 if ctx.tier == 'quick' else 11):
                continue
            text = data.decode(encoding)
            sel = cfgs if (ctx.tier == 'thorough' and len(data) <= 9) else [c for c in cfgs if (c['comment'] == '#') == (c['policy'] in ('simple', 'quoted_rfc')) and not c['header']]
            for c in sel:
                cases.append(dict(c, kind='bytes_all', data=list(data), encoding=encoding, text=text, cs=rng.choice([None, 1, 2, 3])))
    inv = []
    for b in INVALID_SAMPLES:
        c = dict(rng.choice(cfgs))
        inv.append(dict(c, kind='bytes_all', data=b, encoding='utf-8', text=None, cs=rng.choice([None, 1, 2])))
    return cases, inv


def run(ctx):
    ctx.exhaustive = True
    if os.environ.get('VERIF_C12_PART') == 'tl':       # debugging aid: only the text-layer part (4)
        ctx.rule = 'text-layer part only (VERIF_C12_PART=tl)'
        return c12tl.run(ctx, sys.modules[__name__])
    lens = ('4', '5') if ctx.tier == 'quick' else ('6', '7')
    ctx.rule = ('every text over {a " , LF CR # space} up to length %s (all of them) and a sample of length %s, each on ALL 2^(n-1) partitions x chunk sizes '
                '{1,2,n+1} x policies {simple, quoted, quoted_rfc, monocolumn%s} x comment prefix {None,#} x header {F,T}; token texts with WITH-modifiers and '
                'other prefixes; byte-level partitions of utf-8/latin-1 samples. non-trivial = distinct (text, cfg) whose text contains a line break or '
                'a quote, or whose outcome has a warning, a header, an error, or a skipped comment line') % (
                    lens[0], lens[1], '' if ctx.tier == 'quick' else ', whitespace')
    cases = gen_text_cases(ctx)
    exp, args, model, have_oracle, tabs = expected_for(cases, ctx)
    if not have_oracle:
        ctx.notes.append('csv_utils.smart_split not available: quoted policies compared for partition-invariance only')
    # cheap cases first, so that shards are balanced: interleave by cost
    order = sorted(range(len(cases)), key=lambda i: -nruns(cases[i]))
    sh = lib.NCPU
    perm = [i for k in range(sh) for i in order[k::sh]]
    got_p = lib.run_impl_py('c12', [cases[i] for i in perm], shards=sh)
    got = [None] * len(cases)
    for i, g in zip(perm, got_p):
        got[i] = g
    if have_oracle:
        ctx.compare(cases, exp, got, THEOREM, rel=rel_all, describe=describe, shrink=shrink_all)
    else:
        plain = [i for i, c in enumerate(cases) if not needs_table(c)]
        ctx.compare([cases[i] for i in plain], [exp[i] for i in plain], [got[i] for i in plain], THEOREM, rel=rel_all, describe=describe, shrink=shrink_all)
        quoted = [i for i, c in enumerate(cases) if needs_table(c)]
        ctx.compare([cases[i] for i in quoted], [None] * len(quoted), [got[i] for i in quoted], THEOREM,
                    rel=lambda c, e, g: isinstance(g, list) and len(g) == 1 and e is None,
                    describe=lambda c, e, g: 'reader outcome depends on the partition: text=%r outcomes=%r' % (c['text'], g))
    ctx.cross_check_vm(202, args, model, n=120)
    for c, e in zip(cases, exp):
        r = nruns(c)
        ctx.count(r)
        ctx.stat('runs_policy_' + c['policy'], r)
        ctx.stat('texts_len_%d' % min(len(c['text']), 8))
        t = c['text']
        kinds = []
        if e[0] == 'err':
            kinds.append('rfc_defect_error')
        else:
            if e[3][0]:
                kinds.append('bom_warning')
            if e[3][1] is not None:
                kinds.append('defective_line_warning')
            if e[3][2] is not None:
                kinds.append('inconsistent_fields_warning')
            if e[2] is not None:
                kinds.append('header')
            if e[4] != e[5]:
                kinds.append('NL_differs_from_NR')
            if any('\n' in f for r_ in e[1] for f in r_):
                kinds.append('multiline_record')
        if '\r\n' in t:
            kinds.append('crlf_in_text')
        for k in kinds:
            ctx.stat('spec_' + k)
        if kinds or '\n' in t or '\r' in t or '"' in t:
            ctx.nontriv((t, c['policy'], c['comment'], c['header'], c['modifier']))
    ctx.sample({'text': cases[-1]['text'], 'cfg': {k: cases[-1][k] for k in ('policy', 'delim', 'comment', 'header', 'modifier')},
                'spec': exp[-1], 'implementation_outcomes_over_all_partitions': got[-1]})

    # (2) the stream-level model itself on concrete partitions
    rng = ctx.rng
    nsamp = 6000 if ctx.tier == 'quick' else 120000
    ones = []
    for _ in range(nsamp):
        i = rng.randrange(len(cases))
        c = cases[i]
        t = c['text']
        pieces = []
        cur = ''
        for ch in t:
            cur += ch
            if rng.random() < 0.45:
                pieces.append(cur)
                cur = ''
        if cur:
            pieces.append(cur)
        cs = rng.choice([1, 2, 3, len(t) + 1])
        c1 = {k: c[k] for k in ('policy', 'delim', 'comment', 'header', 'modifier')}
        c1.update(kind='one', pieces=pieces, cs=cs, text=t, src=i)
        ones.append(c1)
    one_args = []
    for c1 in ones:
        tab = tabs[c1['src']]      # the table of the source case: all logical rows of this text
        one_args.append(lib.enc([cfg_sx(c1), split_sx(c1, tab), c1['cs'], c1['pieces']]))
    m_one = lib.run_model(200, one_args)
    e_one = [dec_result(m) for m in m_one]
    g_one = lib.run_impl_py('c12', ones)
    if have_oracle:
        sel = list(range(len(ones)))
    else:
        sel = [i for i, c in enumerate(ones) if not needs_table(c)]
    ctx.compare([ones[i] for i in sel], [e_one[i] for i in sel], [g_one[i] for i in sel], THEOREM + ' [stream-level model run_py]', describe=describe)
    ctx.cross_check_vm(200, one_args, m_one, n=60)
    ctx.count(len(ones))
    # rows in line mode (internal probe)
    rows_cases = [dict(c1, kind='rows') for c1 in ones[:len(ones) // 2]]
    r_args = [lib.enc([cfg_sx(c1), c1['cs'], c1['pieces']]) for c1 in rows_cases]
    m_rows = lib.run_model(201, r_args)
    e_rows = [dec_rows(m) for m in m_rows]
    g_rows = lib.run_impl_py('c12', rows_cases)
    if all(g is not None for g in g_rows):
        ctx.compare(rows_cases, e_rows, g_rows, 'C12_lines (Props/C12.v): rows_py = logical rows of split_lines (concat pieces)',
                    describe=lambda c, e, g: '_get_all_rows differs: pieces=%r cs=%r policy=%r comment=%r: model=%r implementation=%r' % (
                        c['pieces'], c['cs'], c['policy'], c['comment'], e, g))
        ctx.count(len(rows_cases))
        ctx.stat('line_mode_rows_runs', len(rows_cases))
    else:
        ctx.notes.append('_get_all_rows not available: line-mode probe skipped')
    ctx.cross_check_vm(201, r_args, m_rows, n=40)

    # (3) byte level
    bcases, inv = gen_byte_cases(ctx)
    b_exp, b_args, b_model, b_have, _ = expected_for(bcases, ctx)
    b_got = lib.run_impl_py('c12', bcases)
    ctx.compare(bcases, b_exp, b_got, THEOREM + ' [bytes: decoded by io.TextIOWrapper, runtime]', rel=rel_all, describe=describe, shrink=shrink_all)
    for c in bcases:
        r = 1 << max(0, len(c['data']) - 1)
        ctx.count(r)
        ctx.stat('byte_level_runs_' + c['encoding'], r)
    i_got = lib.run_impl_py('c12', inv)
    ctx.compare(inv, [None] * len(inv), i_got, 'C20_utf8_invalid_rejected analogue for Python: invalid UTF-8 is rejected on every partition',
                rel=lambda c, e, g: e is None and isinstance(g, list) and all(o[0][0] == 'err' and o[0][1] == 'RbqlIOHandlingError' for o in g),
                describe=lambda c, e, g: 'invalid UTF-8 bytes %r not rejected uniformly: %r' % (c['data'], g))
    ctx.stat('invalid_utf8_samples', len(inv))
    ctx.sample_safe(lambda: {'bytes': bcases[0]['data'], 'encoding': bcases[0]['encoding'], 'spec': b_exp[0], 'implementation_outcomes_over_all_partitions': b_got[0]})
    # the rbql-js stream reader under the same statement (mixed line endings, all chunkings)
    __import__('importlib').import_module('props.c12js').run(ctx, THEOREM)

    # (4) the text-layer model (TextLayer.v) against CPython's decoder objects, io.TextIOWrapper and the reader over bytes
    c12tl.run(ctx, sys.modules[__name__])


def single_table(c, text):
    """split table for one case, asking the implementation's smart_split"""
    if not needs_table(c):
        return []
    r = lib.run_model(204, [lib.enc([cfg_sx(c, c.get('encoding')), text])])[0]
    ls = sorted(set(lib.dec_str(x) for x in r[0]))
    res = lib.run_impl_py('c12', [{'kind': 'split', 'policy': c['policy'], 'delim': c['delim'], 'lines': ls}])[0]
    if res is None or isinstance(res, dict):
        return []
    return [(l, (fw[0], bool(fw[1]))) for l, fw in zip(ls, res)]


def replay(ctx, case):
    if case.get('part') == 'c12js' or case.get('mode') in ('from', 'push') or 'modes' in case:
        return __import__('importlib').import_module('props.c12js').replay(ctx, case)
    if case.get('part') == 'tl':
        return c12tl.replay(ctx, case, sys.modules[__name__])
    kind = case.get('kind')
    if kind in ('all', 'bytes_all'):
        exp, args, model, have, _ = expected_for([case], ctx)
        got = lib.run_impl_py('c12', [case])
        ctx.count(nruns(case) if kind == 'all' else 1 << max(0, len(case['data']) - 1))
        ctx.compare([case], exp, got, THEOREM, rel=rel_all, describe=describe, shrink=shrink_all)
        return
    if kind == 'one':
        text = ''.join(case['pieces'])
        tab = single_table(case, text)
        a = lib.enc([cfg_sx(case), split_sx(case, tab), case['cs'], case['pieces']])
        e = [dec_result(lib.run_model(200, [a])[0])]
        s = [dec_result(lib.run_model(202, [lib.enc([cfg_sx(case), split_sx(case, tab), text])])[0])]
        got = lib.run_impl_py('c12', [case])
        ctx.count(2)
        ctx.compare([case], e, got, THEOREM + ' [stream-level model run_py]', describe=describe)
        ctx.compare([case], s, got, THEOREM, describe=describe)
        return
    if kind == 'bytes_one':
        text = case['text']
        tab = single_table(case, text)
        s = [dec_result(lib.run_model(202, [lib.enc([cfg_sx(case, case['encoding']), split_sx(case, tab), text])])[0])]
        got = lib.run_impl_py('c12', [case])
        ctx.count(1)
        ctx.compare([case], s, got, THEOREM, describe=describe)
        return
    if kind == 'rows':
        a = lib.enc([cfg_sx(case), case['cs'], case['pieces']])
        e = [dec_rows(lib.run_model(201, [a])[0])]
        got = lib.run_impl_py('c12', [case])
        ctx.count(1)
        ctx.compare([case], e, got, 'C12_lines', describe=describe)
        return
    raise lib.CheckFailure('unknown replay case kind %r' % kind)
