# C08 helper: non-ASCII text OUTSIDE string literals - identifiers of user-defined functions (init code) and names of JOIN tables - in
# front of clause keywords, under every spelling; above all characters whose case mappings CHANGE THE LENGTH of the text
# (upper: sharp s -> SS, the ff / fi / fl / ffi / ffl / st ligatures, n-apostrophe, j-caron, Greek letters with dialytika / ypogegrammeni, Armenian
# ech-yiwn ...; lower: I-with-dot), next to ordinary accented letters and CJK.
#
# Why this module exists (mutation rehearsal, notes/s3.md, seed C08-13): every query the C08 generators render is ASCII outside its
# literals; the token soup replaces one character of a token by one of seven odd characters (long s, dotted / dotless i, Kelvin, e-acute,
# a CJK character), none of which changes length under upper(), and only 4% of the time.  A keyword search that runs over an UPPER-CASED
# COPY of the text and cuts the ORIGINAL at the offsets found there is exact on all of that - and cuts clauses at the wrong place as soon
# as two sharp s stand in front of a keyword.  The property text quantifies over "all generated queries x all compositions of the
# spelling transformations": which NAMES the expressions call is part of the query, and nothing restricts them to ASCII.
#
# Two legs, both with the relations of props/c08.py (nothing new is compared, only new inputs are generated):
#  (i)  metamorphic on the PUBLIC path (theorem C08_token_spelling: every spelling parses to the same query): queries of c08.gen_query whose
#       variables are wrapped in calls of identity functions with such names (defined through the public user_init_code argument) and
#       whose JOIN table carries such a name (a table registry that knows it, through rbql.query) - every spelling (clause order, keyword
#       case, spacing, TOP / LIMIT, join spellings, = / ==, FROM a, UPDATE a SET) must give the result of the canonical spelling, never a
#       SyntaxError, literals verbatim;
#  (ii) model tie: the same texts, and a token soup in which such names stand between the keywords, through the text layer's internal
#       functions against Parser.v (entry 503): clean / format / literals / clause texts / join parse / select translation.
# The character set is computed from the Unicode tables of the running Python (letters below U+3100 and U+FB00..U+FB17 whose upper(),
# lower() or casefold() is not one character), not listed by hand.
import importlib
import lib

p8 = importlib.import_module('props.c08')
SUFFIX = ' ; non-ASCII identifiers and table names outside literals (case mappings that change length) in front of the clause keywords'


def length_changing_letters():
    out = []
    for cp in list(range(0x80, 0x3100)) + list(range(0xfb00, 0xfb18)):
        ch = chr(cp)
        if ch.isalpha() and (len(ch.upper()) != 1 or len(ch.lower()) != 1 or len(ch.casefold()) != 1):
            out.append(ch)
    return out


GROW = length_changing_letters()
COMMON = [ch for ch in 'ßﬁﬂﬃİŉǰΐև' if ch in GROW]      # the ones met in ordinary text (German, ligatures from typeset sources, Turkish, ...): drawn more often
PLAIN = ['é', 'ö', 'ñ', 'Ω', 'ж', '中', 'ı', 'ſ', 'K']           # non-ASCII letters whose case mappings keep the length (controls)
STEMS = ['f', 'gr', 'ma', 'stra', 'x', 'Fn', 'w_', 'q1']


def gen_name(r):
    """an identifier: an ASCII stem and 1..3 letters, most of them from GROW; valid in Python 3 (NFKC) and in JavaScript"""
    for _ in range(50):
        s = r.choice(STEMS)
        for _ in range(r.choice([1, 2, 2, 3])):
            x = r.random()
            s += r.choice(COMMON) if x < 0.35 else r.choice(GROW) if x < 0.8 else r.choice(PLAIN)
            if r.random() < 0.4:
                s += r.choice(['e', 'n', '_', '2'])
        if s.isidentifier():
            return s
    return 'maßstraße'


def decorate(r, q, names):
    """wrap variables of the select items / WHERE / ORDER BY / right-hand sides in calls of the named identity functions"""
    def wrap(parts, p):
        out = []
        for part in parts:
            if part[0] == 'v' and r.random() < p:
                out += [p8.R(r.choice(names) + '('), part, p8.R(')')]
            else:
                out.append(part)
        return out
    q = dict(q)
    if q['group'] is None:
        q['items'] = [(wrap(parts, 0.7), alias) for parts, alias in q['items']]
    if q['where'] is not None:
        q['where'] = wrap(q['where'], 0.7)
    if q['order'] is not None:
        q['order'] = (wrap(q['order'][0], 0.7), q['order'][1])
    if q['assign'] is not None:
        q['assign'] = [(v, wrap(e, 0.7)) for v, e in q['assign']]
    return q


def init_code(names):
    py = ''.join('def %s(x):\n    return x\n' % n for n in names)
    js = ''.join('function %s(x) { return x; }\n' % n for n in names)
    return py, js


def gen_soup(r):
    """the token soup of c08 with names between the tokens (so that one, two, three of them stand in front of a keyword)"""
    n = r.randint(2, 9)
    out = []
    for i in range(n):
        if i == 0 and r.random() < 0.8:
            t = r.choice(['select', 'SELECT', 'Select', 'update', 'UPDATE', 'select top 2', 'select distinct', 'update set', 'UPDATE a SET'])
        elif r.random() < 0.45:
            t = gen_name(r) + r.choice(['', '', '(a1)', '(a2),', '.csv', ' ' + gen_name(r)])
        else:
            t = r.choice(p8.SOUP)
        out.append(t)
        out.append(r.choice([' ', ' ', ' ', '  ', '\t', '\n']))
    out.pop()
    return ''.join(out)


def sizes(ctx):
    return {'queries': 70, 'spellings': 6, 'soup': 1200} if ctx.tier == 'quick' else {'queries': 3000, 'spellings': 24, 'soup': 60000}


def run_public(lang, cs):
    return lib.run_impl_py('c08uni', cs) if lang == 'py' else lib.run_impl_js('c08uni', cs, shards=12)


def eval_internal(lang, code, cs):
    """model (entry 503) and implementation probe on internal cases -> (args, raw, exp, got)"""
    args = [lib.enc([code, c['q']]) for c in cs]
    raw = lib.run_model(503, args)
    dec = [p8.decode_model(m) for m in raw]
    for c, m in zip(cs, dec):
        c['format2'] = m['format2']
    got = [p8.canon_impl_internal(g, lang) for g in run_public(lang, cs)]
    exp = [p8.expected_internal(m, g, lang, c) for m, g, c in zip(dec, got, cs)]
    return args, raw, exp, got


def run(ctx):
    r = ctx.rng
    sz = sizes(ctx)
    for lang, code in p8.LANGS:
        public, internal = [], []
        for _ in range(sz['queries']):
            q, lits = p8.gen_query(r, lang)
            names = [gen_name(r) for _ in range(r.choice([1, 2, 2]))]
            q = decorate(r, q, names)
            table, join = p8.gen_tables(r, lits)
            join_id = None
            if q['join'] is not None and r.random() < 0.7:
                join_id = gen_name(r) + r.choice(['', '.csv', '.tsv'])
                q['join'] = dict(q['join'], table=join_id)
            canon, canon_lits = p8.render(q, p8.Spelling(None, lang))
            ipy, ijs = init_code(names)
            base = {'kind': 'query', 'part': 'c08uni', 'lang': lang, 'table': table, 'join': join if q['join'] is not None else None, 'join_id': join_id,
                    'init': ipy if lang == 'py' else ijs, 'canon_q': canon, 'lit_cols': p8.lit_columns(q)}
            public.append(dict(base, q=canon, is_canon=True))
            internal.append({'kind': 'internal', 'part': 'c08uni', 'lang': lang, 'q': canon, 'spec_literals': canon_lits})
            seen = set([canon])
            for _ in range(sz['spellings']):
                text, tl = p8.render(q, p8.Spelling(r, lang))
                if text in seen:
                    continue
                seen.add(text)
                public.append(dict(base, q=text, is_canon=False))
                internal.append({'kind': 'internal', 'part': 'c08uni', 'lang': lang, 'q': text, 'spec_literals': tl})
                ctx.nontriv(('c08uni', lang, text))
            ctx.stat('uni_queries_%s' % lang)
            if join_id is not None:
                ctx.stat('uni_join_table_names')
        for _ in range(sz['soup']):
            t = gen_soup(r)
            internal.append({'kind': 'internal', 'part': 'c08uni', 'lang': lang, 'q': t, 'stream': 'soup'})
            ctx.nontriv(('c08uni', lang, t))
        # (i) metamorphic, public path
        got = run_public(lang, public)
        exp, canon_res = [], None
        for c, g in zip(public, got):
            if c['is_canon']:
                canon_res = g
                ctx.stat('uni_%s_public_%s' % (lang, 'error_' + g['error'] if isinstance(g, dict) and 'error' in g else 'ok'))
            exp.append({'canon': canon_res, 'lit_cols': c['lit_cols']})
        ctx.compare(public, exp, got, p8.THEOREM + ' ; metamorphic: every spelling = canonical spelling, literals verbatim' + SUFFIX,
                    rel=p8.rel_query, describe=p8.describe_query, corrupt=lambda e: {'canon': ['CANARY'], 'lit_cols': {}})
        ctx.count(len(public))
        # (ii) model tie
        args, raw, iexp, igot = eval_internal(lang, code, internal)
        ctx.compare(internal, iexp, igot, p8.THEOREM + SUFFIX, describe=p8.describe_internal, shrink=shrink)
        ctx.cross_check_vm(503, args, raw, n=15)
        ctx.count(len(internal))
        ctx.stat('uni_internal_%s' % lang, len(internal))
    ctx.rule += ('; non-ASCII outside literals: per port %d queries whose variables are wrapped in calls of identity functions named with letters whose upper() / lower() / casefold() changes length '
                 '(%d such letters, from the Unicode tables) and whose JOIN table carries such a name, each under %d spellings through the public path (user_init_code; rbql.query with a registry knowing the name) '
                 'and through the text-layer probe against Parser.v; %d token-soup texts with such names between the keywords' % (sz['queries'], len(GROW), sz['spellings'], sz['soup']))


def shrink(c, e, g):
    """drop whole words while model and implementation still disagree"""
    lang = c['lang']
    code = 0 if lang == 'py' else 1
    words = c['q'].split(' ')
    best = (c, e, g)
    budget = 40
    i = 0
    while i < len(words) and budget > 0 and len(words) > 1:
        cand = words[:i] + words[i + 1:]
        budget -= 1
        c1 = {'kind': 'internal', 'part': 'c08uni', 'lang': lang, 'q': ' '.join(cand)}
        _a, _r, e1, g1 = eval_internal(lang, code, [c1])
        if e1[0] != g1[0]:
            words, best = cand, (c1, e1[0], g1[0])
        else:
            i += 1
    return best


def replay(ctx, case):
    lang = case.get('lang', 'py')
    code = 0 if lang == 'py' else 1
    ctx.count()
    if case.get('kind') == 'internal':
        c = dict(case)
        _a, _r, exp, got = eval_internal(lang, code, [c])
        return ctx.compare([c], exp, got, p8.THEOREM + SUFFIX, describe=p8.describe_internal)
    got = run_public(lang, [dict(case, q=case['canon_q']), case])
    ctx.compare([case], [{'canon': got[0], 'lit_cols': case['lit_cols']}], [got[1]], p8.THEOREM + SUFFIX, rel=p8.rel_query, describe=p8.describe_query,
                corrupt=lambda e: {'canon': ['CANARY'], 'lit_cols': {}})
