# C13 helper: the rbql-js command line (node rbql-js/cli_rbql.js) and library (rbql_csv.query_csv) next to the rbql-py command
# line, on the SAME query text over the SAME CSV text - successful queries AND failures raised at every layer:
#   ok        the query succeeds                                     -> model table (engine entry 300, header entry 550)
#   parse     two UNNEST items (the engine's parsing error)          -> class from the engine model
#   runtime   STRICT LEFT JOIN with unmatched / doubly matched keys  -> class from the engine model
#   nojoin    the JOIN names a file that does not exist              -> IO handling   } failures of the CSV / file layer: outside the
#   badutf8   the input bytes are not UTF-8                          -> IO handling   } engine model. Harness-side statement of the class
#   dqdelim   double quote as delimiter with the quoted policy       -> IO handling   } (as in C14's CSV-level part: undecodable input is an
#   latin1    non-ASCII query text with --encoding latin-1           -> IO handling   } IO-handling error); both ports must agree with it
# What a command line does with a result is the MODEL's outcome function Frontends.cli_outcome (entry 610; C13_cli_success,
# C13_cli_failure): success = exit 0, stdout = the table only, stderr = `Warning: ` lines only; failure = non-zero exit, stdout = the
# table lines emitted before the failure, stderr starts with the line `Error [<label of the class>]: `. The library leg reports the
# class through the exported exception_to_error_info, which must give the same label (seeded change C13-14: errors raised by
# rbql_csv.js / cli_rbql.js were classified `unexpected`).
import base64
import importlib
import json
import lib

c13 = importlib.import_module('props.c13')
ENTRY = ['node_file', 'node_stdio', 'node_tsv', 'py_stdio', 'js_lib']
CLASS_CODE = {'P': 0, 'R': 1, 'IO': 2, 'O': 3}
SCENARIOS = ['ok'] * 8 + ['parse', 'runtime', 'runtime', 'nojoin', 'nojoin', 'badutf8', 'badutf8', 'dqdelim', 'latin1']
BAD_BYTES = [b'\xff\xfe', b'\x80', b'\xc3', b'\xe4\xb8', b'\xed\xa0\x80', b'\xc0\xaf']      # never valid UTF-8, wherever they stand


def gen_case(ctx):
    r = ctx.rng
    sc = r.choice(SCENARIOS)
    na = r.randint(2, 3)
    hdr = r.sample(['id', 'name', 'val', 'grp', 'x1'], na)
    A = [[r.choice(c13.CELLS) for _ in range(na)] for _ in range(r.choice([0, 1, 2, 3, 4, 5]) if sc == 'ok' else r.randint(1, 5))]
    dup = sc == 'ok' and r.random() < 0.3
    if dup:
        # DISTINCT over records that really repeat, with cells the CSV writer has to quote: the record a writer receives and the record it
        # leaves behind are not the same text (seeded change C13-9: DISTINCT remembered the record after the CSV writer had quoted it in place)
        pool = [[r.choice(['a,b', 'q"r', ',', '"', 'k']) for _ in range(na)] for _ in range(2)]
        A = [list(r.choice(pool)) for _ in range(r.randint(3, 6))]

    def fld():
        i = r.randint(0, na - 1)
        sp = r.random()
        txt = 'a%d' % (i + 1) if sp < 0.4 else ('a.%s' % hdr[i] if sp < 0.7 else 'a["%s"]' % hdr[i])
        return ('fld', 'a', i), txt, ('(0 0 %d)' % i) if sp < 0.4 else ('(1 0 %s)' % lib.enc(hdr[i]) if sp < 0.7 else '(2 0 %s)' % lib.enc(hdr[i]))
    join = sc in ('runtime', 'nojoin') or (sc == 'ok' and r.random() < 0.3)
    hdrB = B = jq = None
    jtxt = ''
    if join:
        hdrB = ['k', 'w']
        k = r.randint(0, na - 1)
        if sc == 'runtime':
            # keys of A, some left out, some twice: STRICT LEFT JOIN fails at the first record without exactly one match
            keys = sorted(set(row[k] for row in A))
            B = [[x, 'w%d' % i] for i, x in enumerate(keys) if r.random() < 0.8]
            if B and r.random() < 0.3:
                B.append([B[0][0], 'dup'])
            jq = {'kind': 'strict', 'spelling': 'strict left join', 'lhs': [k], 'rhs': [0]}
        else:
            B = [[r.choice(c13.CELLS[:4] + ['a,b']), 'w%d' % i] for i in range(r.randint(0, 3))]
            jq = {'kind': 'inner', 'spelling': 'join', 'lhs': [k], 'rhs': [0]}
        jtxt = ' %s JOINTABLE_7f3a on a%d == b1' % (jq['spelling'], k + 1)
    items, texts, hitems = [], [], []
    for _ in range(r.randint(1, 3)):
        x = r.random()
        if x < 0.55:
            e, t, h = fld()
        elif x < 0.7:
            e1, t1, _ = fld()
            e, t, h = ('add', e1, ('lit', '-')), '%s + "-"' % t1, '(7)'
        elif x < 0.8 and not join:
            items.append(('star',)); texts.append('*'); hitems.append('(4)')
            continue
        elif x < 0.9 and join:
            e, t, h = ('fld', 'b', 1), 'b2', '(0 1 1)'
        elif x < 0.95:
            e, t, h = ('NR',), 'NR', '(3 %s)' % lib.enc('NR')
        else:
            e, t, h = ('lit', 'c'), '"c"', '(7)'
        items.append(('expr', e)); texts.append(t); hitems.append(h)
    if sc == 'parse':
        for _ in range(2):
            e1, t1, _ = fld()
            pos = r.randint(0, len(items))
            items.insert(pos, ('unnest', ('list', [e1, ('lit', 'u')]), 'UNNEST')); texts.insert(pos, 'UNNEST([%s, "u"])' % t1); hitems.insert(pos, '(7)')
    if sc == 'latin1':
        items.append(('expr', ('lit', 'é'))); texts.append('"é"'); hitems.append('(7)')
    where, wtxt = None, ''
    if r.random() < 0.35 and sc != 'parse':
        e1, t1, _ = fld()
        v = r.choice(c13.CELLS[:8])
        op = r.choice(['ne', 'eq'])
        where = (op, e1, ('lit', v))
        wtxt = ' where %s %s "%s"' % (t1, {'ne': '!=', 'eq': '=='}[op], v)
    order, otxt = None, ''
    if r.random() < 0.3 and sc != 'badutf8':
        e1, t1, _ = fld()
        rev = r.random() < 0.5
        order = ([e1], rev)
        otxt = ' order by %s%s' % (t1, ' desc' if rev else '')
    distinct = 1 if r.random() < 0.15 or dup else 0
    top = r.choice([None, None, None, 1, 2]) if not dup else None
    q = 'select %s%s%s%s%s%s' % ('top %d ' % top if top is not None else '', 'distinct ' if distinct else '', ', '.join(texts), jtxt, wtxt, otxt)
    qa = {'kind': ('select', items), 'where': where, 'join': jq, 'order': order, 'distinct': distinct, 'top': top}
    c = {'part': 'c13js', 'scenario': sc, 'tsv': ctx.tier != 'quick', 'q': q, 'qa': qa, 'hdr': hdr, 'A': A, 'hdrB': hdrB, 'B': B, 'hq': '(0 (%s) 0)' % ' '.join(hitems)}
    if sc == 'badutf8':
        c['bad_row'], c['bad_col'], c['bad_bytes'] = r.randrange(len(A)), r.randrange(na), base64.b64encode(r.choice(BAD_BYTES)).decode('ascii')
    if sc == 'dqdelim':
        c['delim'] = '"'
    if sc == 'latin1':
        c['encoding'] = 'latin-1'
    return c


def prepare(cases):
    """model expectations and the CSV texts handed to the entry points"""
    ins = c13.csv_render([[c['hdr']] + c['A'] for c in cases])
    joins = c13.csv_render([([c['hdrB']] + c['B']) if c['B'] is not None else [] for c in cases])
    # badutf8: the model runs over the records BEFORE the damaged one (what a streaming front-end may have emitted by then)
    mcases = [dict(c, A=c['A'][:c['bad_row']]) if c['scenario'] == 'badutf8' else c for c in cases]
    args, mres, exp0 = c13.model(mcases)
    exp = []
    oargs = []
    for c, a, b, e in zip(cases, ins, joins, exp0):
        data = a.encode('utf-8')
        if c['scenario'] == 'badutf8':
            lines = a.split('\n')
            # (the rendered line of record bad_row is line bad_row + 1; a cell of that line is replaced by bytes that are not UTF-8)
            marker = 'DAMAGED_CELL_7f3a'
            damaged = c13.csv_render([[[marker if j == c['bad_col'] else x for j, x in enumerate(c['A'][c['bad_row']])]]])[0].rstrip('\n')
            lines[c['bad_row'] + 1] = damaged
            data = '\n'.join(lines).encode('utf-8').replace(marker.encode('ascii'), base64.b64decode(c['bad_bytes']))
        c['in_b64'] = base64.b64encode(data).decode('ascii')
        c['csv_join'] = b if c['B'] is not None and c['scenario'] != 'nojoin' else None
        if e is None:
            exp.append(None)
            oargs.append(None)
            continue
        table = ([e['header']] if e['header'] is not None else []) + e['rows']
        if c['scenario'] in ('nojoin', 'dqdelim', 'latin1'):
            cls, emitted = 'IO', []                         # fails before the first record is read
        elif c['scenario'] == 'badutf8':
            cls, emitted = 'IO', table                      # at most the table of the records before the damaged one
        elif e['error'] is not None:
            cls, emitted = e['error'][0], table
        else:
            cls, emitted = None, table
        exp.append({'cls': cls, 'table': table})
        lines = [json.dumps(row) for row in emitted]         # (opaque line texts: the outcome function only passes them on)
        oargs.append('(0 %s ())' % lib.enc(lines) if cls is None else '(1 %d () %s)' % (CLASS_CODE[cls], lib.enc(lines)))
    idx = [i for i, a in enumerate(oargs) if a is not None]
    ores = lib.run_model(610, [oargs[i] for i in idx] + ['(0 () (()))'])
    warn_pfx = lib.dec_str(ores[-1][2][0])
    for i, o in zip(idx, ores):
        exp[i]['exit'] = o[0]
        exp[i]['stdout'] = [json.loads(lib.dec_str(l)) for l in o[1]]
        exp[i]['stderr'] = [lib.dec_str(l) for l in o[2]]
        exp[i]['warn_pfx'] = warn_pfx
    return args, mres, exp


def parse_outputs(got):
    todo = []
    for g in got:
        if not isinstance(g, dict):
            continue
        for n in ENTRY:
            x = g.get(n)
            if not isinstance(x, dict):
                continue
            for key in ('stdout', 'out_text'):
                if isinstance(x.get(key), str):
                    todo.append((x, key, '\t' if n == 'node_tsv' and key == 'stdout' else ','))
    tables = c13.csv_parse([(x[key], d) for x, key, d in todo])
    for (x, key, _d), t in zip(todo, tables):
        x[key + '_table'] = t


def is_prefix(t, full):
    return len(t) <= len(full) and t == full[:len(t)]


def check_entry(name, e, g):
    if not isinstance(g, dict):
        return False
    if name == 'js_lib':
        if e['exit'] == 0:
            return g.get('error_type') is None and g.get('out_text_table') == e['stdout']
        label = e['stderr'][0][len('Error ['):].split(']')[0]
        return g.get('error_type') == label
    to_file = name == 'node_file'
    shown = g.get('out_text_table') if to_file else g.get('stdout_table')
    if e['exit'] == 0:
        return (g['rc'] == 0 and shown == e['stdout'] and (not to_file or g['stdout'] == '')
                and all(l.startswith(e['warn_pfx']) for l in g['stderr_lines']))
    # failure: non-zero exit status, the `Error [type]: ` line first on stderr, and nothing but (a prefix of) the table on stdout
    if g['rc'] == 0 or not g['stderr_lines'] or not g['stderr_lines'][0].startswith(e['stderr'][0]):
        return False
    if to_file:
        return g['stdout'] == ''
    return is_prefix(g.get('stdout_table') or [], e['stdout'])


def entries(c):
    return [n for n in ENTRY if n != 'node_tsv' or c.get('tsv')]          # (--out-format tsv: thorough tier only)


def rel(c, e, g):
    if e is None:
        return True
    return isinstance(g, dict) and all(check_entry(n, e, g.get(n)) for n in entries(c))


def describe(c, e, g):
    bad = [n for n in entries(c) if not (isinstance(g, dict) and check_entry(n, e, g.get(n)))] if e else []
    return ('command lines of both ports + rbql-js library, scenario %s: query %r over header %s rows %s%s: expected outcome (cli_outcome of the model result) %s; entry points that differ: %s'
            % (c['scenario'], c['q'], c['hdr'], json.dumps(c['A']), '' if c['B'] is None else ' join table %s' % json.dumps(c['B']),
               json.dumps({k: e[k] for k in ('exit', 'stdout', 'stderr')} if e else None)[:400],
               json.dumps({n: ({k: v for k, v in g[n].items() if not k.endswith('_table')} if isinstance(g, dict) and isinstance(g.get(n), dict) else None) for n in bad})[:700]))


def evaluate(cases):
    args, mres, exp = prepare(cases)
    got = lib.run_impl_js('c13js', cases, extra_env={'VERIF_SCRATCH': lib.BUILD, 'VERIF_PY': lib.VENV_PY}, timeout=3000)
    parse_outputs(got)
    return args, mres, exp, got


def run(ctx, theorem):
    n = 64 if ctx.tier == 'quick' else 3000
    cases = [gen_case(ctx) for _ in range(n)]
    args, mres, exp, got = evaluate(cases)
    ctx.compare(cases, exp, got, theorem + ' (command lines of rbql-js and rbql-py on one query text, rbql-js library; failures of every layer)', rel=rel, describe=describe,
                corrupt=lambda e: None if e is None else dict(e, exit=1 - min(e['exit'], 1), stdout=[['CANARY']], stderr=['Error [CANARY]: '] if e['exit'] == 0 else []))
    for c, e in zip(cases, exp):
        ctx.count(len(entries(c)))
        if e is None:
            ctx.stat('cli_js_dropped_unmodelled')
            continue
        ctx.stat('cli_js_scenario_' + c['scenario'])
        ctx.stat('cli_js_outcome_' + (e['cls'] or 'ok'))
        ctx.nontriv(('c13js', c['q'], json.dumps(c['A']), json.dumps(c['B']), c['scenario']))


def replay(ctx, case, theorem):
    case = {k: v for k, v in case.items() if k not in ('in_b64', 'csv_join')}
    _a, _m, exp, got = evaluate([case])
    ctx.count(len(ENTRY))
    ctx.compare([case], exp, got, theorem, rel=rel, describe=describe)
