# C11 - Field splitting implements the documented quoting dialect exactly.
# Model: Csv.v (smart_split / split_quoted_str / extract_next_field / split_whitespace_separated_str);
# spec: CsvSpec.v (Split, WsSplit); theorems: Props/C11.v.
# Correspondence: every line over the class alphabet {quote, delimiter character(s), space, other} up to a
# length bound, for single- and multi-character delimiters, through
#   - the PUBLIC path rbql_csv.CSVRecordIterator over a one-line io.StringIO (fields + the defective-line /
#     inconsistent-quoting observable; quoted_rfc raises instead of warning),
#   - csv_utils.smart_split directly when present (adds the quote-and-whitespace preserving mode),
#   - rbql-js csv_utils.smart_split (node),
# plus structured random long Unicode lines with a random relabelling of the characters outside the three
# special classes. Relation: equality of (fields, warning) with the model.
# Second tie (props/csvgen.py): rbql-py/rbql/csv_utils.py is TRANSLATED into Gallina on every run (harness/translate_csv.py) and the
# generated obligations gen_csv_<name>_eq (translation = index model CsvIx.v, which Props/C11.v proves equal to Csv.v) are compiled
# beside the correspondence run; a refused translation / failing obligation without a failing input -> no-failing-input-found.
import lib
from props import csvgen

POL = {'simple': 0, 'quoted': 1, 'quoted_rfc': 2, 'whitespace': 3, 'monocolumn': 4}
THEOREM = ('C11_split_is_dialect / C11_warning_iff / C11_fast_path / C11_other_policies / C11_preserving_rejoin '
           '(Props/C11.v): smart_split = the dialect relation Split / WsSplit / split')
CASE_LINES = 1200


def enum_lines(alphabet, length, start, count):
    k = len(alphabet)
    out = []
    for idx in range(start, start + count):
        chars = []
        v = idx
        for _ in range(length):
            chars.append(alphabet[v % k])
            v //= k
        out.append(''.join(chars))
    return out


def alphabet_for(dlm):
    a = ['"']
    for ch in dlm:
        if ch not in a:
            a.append(ch)
    if ' ' not in a:
        a.append(' ')
    a.append('x')
    if len(a) < 4:
        a.append('\t')
    return ''.join(a)


QUOTED_MODES = [['it', 'quoted', False], ['it', 'quoted_rfc', False], ['direct', 'quoted', False], ['direct', 'quoted', True]]
OTHER_MODES = [['it', 'simple', False], ['direct', 'simple', False], ['direct', 'whitespace', False],
               ['direct', 'whitespace', True], ['it', 'monocolumn', False], ['direct', 'monocolumn', False]]
DIRECT_ONLY = [['direct', 'quoted', False], ['direct', 'quoted', True], ['direct', 'quoted_rfc', False], ['direct', 'simple', False],
               ['direct', 'whitespace', False], ['direct', 'whitespace', True], ['direct', 'monocolumn', False]]


def plan(tier):
    """(dlm, max length for the quoted modes, max length for the other policies)"""
    if tier == 'quick':
        return [(',', 7, 6), (';', 6, 4), ('\t', 6, 4), (' ', 7, 6), ('::', 7, 5), ('ab', 5, 4), ('aa', 6, 5),
                (' ;', 5, 0), ('  ', 5, 0), ('a ', 5, 0)]
    return [(',', 9, 7), (';', 9, 6), ('\t', 9, 6), (' ', 9, 7), ('::', 9, 7), ('ab', 7, 6), ('aa', 9, 7),
            (' ;', 7, 0), ('  ', 7, 0), ('a ', 7, 0)]


def enum_cases(tier):
    cases = []
    for dlm, nq, no in plan(tier):
        alpha = alphabet_for(dlm)
        k = len(alpha)
        for modes, nmax in ((QUOTED_MODES, nq), (OTHER_MODES + ([['it', 'whitespace', False]] if dlm == ' ' else []), no)):
            for n in range(0, nmax + 1):
                total = k ** n
                for start in range(0, total, CASE_LINES):
                    cases.append({'dlm': dlm, 'modes': modes, 'enum': [alpha, n, start, min(CASE_LINES, total - start)], 'kind': 'enum'})
    return cases


# ---------------------------------------------------------------- random long Unicode lines

POOL_BMP = ['a', 'b', 'x', ':', ';', ',', '\t', '|', 'é', '世', '﻿', ' ', '\x00', '\xa0', '#', "'", '\\']
POOL_ASTRAL = ['\U0001F600', '\U00010348']
DLMS_RANDOM = [',', ';', '\t', ' ', '|', '::', 'ab', 'aa', '€', 'é;', ' ;', '  ', '; ']


def random_line(rng, dlm, astral, newlines):
    others = POOL_BMP + (POOL_ASTRAL if astral else []) + (['\n', '\r'] if newlines else [])

    def rnd_text(n):
        out = []
        for _ in range(n):
            r = rng.random()
            if r < 0.2:
                out.append('"')
            elif r < 0.3:
                out.append('""')
            elif r < 0.45:
                out.append(' ')
            elif r < 0.55:
                out.append(dlm if rng.random() < 0.6 else dlm[0])
            else:
                out.append(rng.choice(others))
        return ''.join(out)
    mode = rng.random()
    if mode < 0.25:
        return rnd_text(rng.randint(0, 40))
    parts = []
    for _ in range(rng.randint(1, 8)):
        r = rng.random()
        body = rnd_text(rng.randint(0, 6))
        if r < 0.45:
            f = '"' + body.replace('"', '""') + '"'             # well-formed quoted field
            if rng.random() < 0.4:
                f = ' ' * rng.randint(0, 2) + f + ' ' * rng.randint(0, 2)
        elif r < 0.6:
            f = '"' + body + '"'                                 # maybe ill-formed
        elif r < 0.7:
            f = ' ' * rng.randint(0, 3)
        else:
            f = body
        parts.append(f)
    return dlm.join(parts)


def relabel_map(rng, dlm, line):
    special = set('" ') | set(dlm)
    others = sorted(set(line) - special)
    pool = [c for c in POOL_BMP + ['q', 'z', 'Ж', '世', '~'] if c not in special]
    rng.shuffle(pool)
    # injective: distinct others go to distinct pool characters (pool is larger than any line's alphabet here)
    targets = pool[:len(others)]
    if len(targets) < len(others):
        return None
    return dict(zip(others, targets))


def random_cases(ctx):
    rng = ctx.rng
    n = 6000 if ctx.tier == 'quick' else 200000
    per = 300
    cases = []
    for i in range(0, n, per):
        dlm = rng.choice(DLMS_RANDOM)
        newlines = rng.random() < 0.3
        astral = rng.random() < 0.3
        lines, pairs = [], []
        while len(lines) < per:
            l = random_line(rng, dlm, astral, newlines)
            lines.append(l)
            if rng.random() < 0.3:
                m = relabel_map(rng, dlm, l)
                if m is not None:
                    pairs.append([len(lines) - 1, len(lines), sorted(m.items())])
                    lines.append(''.join(m.get(c, c) for c in l))
        modes = DIRECT_ONLY if newlines else QUOTED_MODES + OTHER_MODES
        cases.append({'dlm': dlm, 'modes': modes, 'lines': lines, 'kind': 'random', 'relabel': pairs, 'astral': astral or any(ord(c) > 0xffff for c in dlm)})
    return cases


# ---------------------------------------------------------------- model side

def case_lines(c):
    return c['lines'] if 'lines' in c else enum_lines(*c['enum'])


def model_args(c, lines):
    keys = []
    for m in c['modes']:
        k = (m[1], bool(m[2]))
        if k not in keys:
            keys.append(k)
    return keys, [lib.enc([POL[p], c['dlm'] if p != 'monocolumn' else '', pr, lines]) for p, pr in keys]


def expected_for(c, lines, keys, results):
    """results[k] = model output for key k: per line [fields, warn, tags] -> per line, per mode canonical observable"""
    by = {}
    for k, r in zip(keys, results):
        by[k] = [[[lib.dec_str(f) for f in x[0]], bool(x[1])] for x in r]
    out = []
    for i, line in enumerate(lines):
        row = []
        for path, pol, pr in c['modes']:
            fields, warn = by[(pol, bool(pr))][i]
            if path == 'it':
                if line == '':
                    row.append(['RECORDS', [], False])            # an empty stream has no record at all
                elif pol == 'quoted_rfc' and warn:
                    row.append(['ERR', 'RbqlIOHandlingError'])    # the rfc reader refuses instead of warning
                else:
                    row.append([fields, warn])
            else:
                row.append([fields, warn])
        out.append(row)
    return out


def rel(c, e, g):
    if not isinstance(g, list) or len(g) != len(e):
        return False
    for er, gr in zip(e, g):
        if not isinstance(gr, list) or len(gr) != len(er):
            return False
        for em, gm in zip(er, gr):
            if gm == 'absent':          # internal helper not present in this tree: the public-path modes still tie the line
                continue
            if em != gm:
                return False
    return True


def first_diff(c, e, g):
    lines = case_lines(c)
    if not isinstance(g, list) or len(g) != len(e):
        return 'driver result %r' % (g,)
    for line, er, gr in zip(lines, e, g):
        if not isinstance(gr, list) or len(gr) != len(er):
            return 'line %r: driver result %r' % (line, gr)
        for m, em, gm in zip(c['modes'], er, gr):
            if gm != 'absent' and em != gm:
                return 'dlm=%r line=%r mode=%s: model/spec (fields, warning)=%r implementation=%r' % (c['dlm'], line, '/'.join(map(str, m)), em, gm)
    return '?'


def evaluate(cases, impl):
    """returns (expected, got, model_args_flat, model_results_flat)"""
    all_args, spans = [], []
    for c in cases:
        lines = case_lines(c)
        keys, args = model_args(c, lines)
        spans.append((lines, keys, len(all_args), len(args)))
        all_args.extend(args)
    res = lib.run_model(100, all_args)
    exp = []
    for c, (lines, keys, st, n) in zip(cases, spans):
        exp.append(expected_for(c, lines, keys, res[st:st + n]))
    if impl == 'py':
        got = lib.run_impl_py('c11', cases)
    else:
        got = lib.run_impl_js('c11', cases)
    return exp, got, all_args, res, spans


def shrink(c, e, g):
    """single failing line and mode, then delete characters while the disagreement persists"""
    lines = case_lines(c)
    impl = c.get('impl', 'py')
    found = None
    for line, er, gr in zip(lines, e, g if isinstance(g, list) and len(g) == len(e) else [None] * len(e)):
        if not isinstance(gr, list) or len(gr) != len(er):
            found = (line, c['modes'])
            break
        bad = [m for m, em, gm in zip(c['modes'], er, gr) if gm != 'absent' and em != gm]
        if bad:
            found = (line, bad[:1])
            break
    if not found:
        return None
    line, modes = found

    def fails(l):
        c1 = {'dlm': c['dlm'], 'modes': modes, 'lines': [l], 'kind': 'shrunk', 'impl': impl}
        e1, g1, _a, _r, _s = evaluate([c1], impl)
        return (c1, e1[0], g1[0]) if not rel(c1, e1[0], g1[0]) else None
    best = fails(line)
    if best is None:
        return None
    progress = True
    while progress and len(line) > 1:
        progress = False
        for i in range(len(line)):
            cand = line[:i] + line[i + 1:]
            r = fails(cand)
            if r is not None:
                line, best, progress = cand, r, True
                break
    return best


def stats(ctx, cases, spans, res, impl):
    for c, (lines, keys, st, n) in zip(cases, spans):
        nm = len(c['modes']) if impl == 'py' else sum(1 for m in c['modes'] if m[0] == 'direct')
        ctx.count(len(lines) * nm)
        ctx.stat('%s_lines_%s' % (impl, c['kind']), len(lines))
        if impl != 'py':
            continue
        for k, r in zip(keys, res[st:st + n]):
            if k != ('quoted', False):
                continue
            for line, x in zip(lines, r):
                fields, warn, tags = x
                if '"' in line:
                    ctx.nontriv((c['dlm'], line))
                    ctx.stat('general_loop')
                    if any(tags):
                        ctx.stat('some_field_taken_quoted')
                    if warn:
                        ctx.stat('warning')
                    if len(fields) > 1 and fields[-1] == [] and not tags[-1]:
                        ctx.stat('trailing_empty_field')
                else:
                    ctx.stat('fast_path')
                ctx.stat('len_%02d' % min(len(line), 10))
                ctx.stat('dlm_len_%d' % len(c['dlm']))


def check_relabel(ctx, cases, exp):
    """split_relabel on the model side: relabelling the non-special characters commutes with splitting"""
    for c, e in zip(cases, exp):
        for i, j, m in c.get('relabel', []):
            mp = dict(m)

            def rl(em):
                if em[0] in ('RECORDS', 'ERR'):
                    return em
                return [[''.join(mp.get(ch, ch) for ch in f) for f in em[0]], em[1]]
            want = [rl(em) for em in e[i]]
            ctx.stat('relabel_pairs')
            if want != e[j]:
                ctx.violation({'dlm': c['dlm'], 'modes': c['modes'], 'lines': [case_lines(c)[i], case_lines(c)[j]], 'kind': 'relabel'},
                              want, e[j], 'split_relabel', 'relabelling non-special characters does not commute with the model split: %r vs %r' % (case_lines(c)[i], case_lines(c)[j]))


def run(ctx):
    gen = csvgen.start(ctx)          # translation of csv_utils.py + generated obligations, beside the correspondence run
    failure = None
    try:
        run_correspondence(ctx)
    except lib.CheckFailure as e:
        failure = e                  # e.g. a driver that cannot import the changed module: still report the obligations
    csvgen.finish(ctx, gen, search_more=(lambda langs: extended_search(ctx, langs)) if failure is None else None)
    if failure is not None:
        raise failure


def extended_search(ctx, langs):
    """a generated obligation broke and the tier's run found no failing input: search further before saying so
    (the legs whose translation broke)"""
    class T:                          # the thorough tier's random generator, capped
        tier = 'thorough'
        rng = ctx.rng
    base = random_cases(T)[:120]
    for impl in langs:
        cs = []
        for c in base:
            ms = c['modes'] if impl == 'py' else [m for m in c['modes'] if m[0] == 'direct']
            if ms:
                cs.append(dict(c, modes=ms, impl=impl))
        exp, got, _args, _res, _spans = evaluate(cs, impl)
        ctx.compare(cs, exp, got, THEOREM, rel=rel, shrink=shrink,
                    describe=lambda c, e, g: 'split differs from the dialect (%s, extended search): %s' % (c.get('impl'), first_diff(c, e, g)))
        ctx.stat('extended_search_lines_' + impl, sum(len(case_lines(c)) for c in cs))


def run_correspondence(ctx):
    ctx.rule = ('every line over the class alphabet {quote, delimiter character(s), space, other} up to the length bound per delimiter '
                '(plan(): quoted modes / other policies), through CSVRecordIterator (quoted, quoted_rfc, simple, monocolumn, whitespace for a space), '
                'csv_utils.smart_split (py, js; incl. preserve mode) + structured random Unicode lines with relabelled twins; '
                'non-trivial = distinct (delimiter, line) containing a double quote (general loop, not the split() shortcut)')
    ctx.exhaustive = True
    cases = enum_cases(ctx.tier) + random_cases(ctx)
    ctx.notes.append('plan (dlm, max len quoted modes, max len other policies): %r' % (plan(ctx.tier),))
    for impl in ('py', 'js'):
        if impl == 'py':
            cs = cases
        else:
            cs = []
            for c in cases:
                ms = [m for m in c['modes'] if m[0] == 'direct']
                if ms:
                    cs.append(dict(c, modes=ms))
        cs = [dict(c, impl=impl) for c in cs]
        exp, got, args, res, spans = evaluate(cs, impl)
        if impl == 'js' and any(gm == 'absent' for g in got[:3] if isinstance(g, list) for gr in g[:3] if isinstance(gr, list) for gm in gr):
            raise lib.CheckFailure('rbql-js csv_utils.smart_split is not exported: no tie to the JS splitter')
        ctx.compare(cs, exp, got, THEOREM, rel=rel, shrink=shrink,
                    describe=lambda c, e, g: 'split differs from the dialect (%s): %s' % (c.get('impl'), first_diff(c, e, g)))
        stats(ctx, cs, spans, res, impl)
        if impl == 'py':
            check_relabel(ctx, cs, exp)
            small = [i for i, a in enumerate(args) if len(a) < 60000]
            ctx.cross_check_vm(100, [args[i] for i in small], [res[i] for i in small], n=24)
            k = next(i for i, c in enumerate(cs) if c['kind'] == 'enum' and c['enum'][1] == 4 and c['modes'] is QUOTED_MODES)
            ln = case_lines(cs[k])
            for j in (37, 101, 180):
                ctx.sample_safe(lambda: {'dlm': cs[k]['dlm'], 'line': ln[j], 'modes': cs[k]['modes'], 'model': exp[k][j], 'implementation': got[k][j]})


def replay(ctx, case):
    if 'csvgen_obligation' in case:
        return csvgen.replay(ctx, case)
    impl = case.get('impl', 'py')
    exp, got, _a, _r, _s = evaluate([case], impl)
    ctx.count(len(case_lines(case)) * len(case['modes']))
    ctx.compare([case], exp, got, THEOREM, rel=rel,
                describe=lambda c, e, g: 'split differs from the dialect (%s): %s' % (impl, first_diff(c, e, g)))
