# jssort.py - correspondence of JsSort.v (how rbql-js sorts) with the real comparators of rbql-js/rbql.js, run by node.  Called from c02.run.
# impl/jssort.js cuts  function stable_compare,  function compare_aggregation_keys  and  class SortedWriter  out of the source text of
# rbql-js/rbql.js (they are not exported) and evaluates them.  Entries (EntryJsSort.v):
#   565 stable_compare             <-> the real function on pairs of entries  key ++ [arrival index, record]
#   566 compare_aggregation_keys   <-> the real function on pairs of JSON key texts / null
#   301 chain_spec (ORDER BY only: Writers.stable_sort / ordered, the REFERENCE sort)
#                                  <-> lists of <= 8 entries through the real SortedWriter (Array.prototype.sort(stable_compare), reverse())
#   566 again: the key texts sorted by node with the real compare_aggregation_keys are a permutation that the model calls ascending
# A key component travels as ['i', integer] / ['s', [code units]] / ['p', [code points]] (see impl/jssort.js).
import json
import lib

THEOREM = ('C02_js_compare_total / C02_js_sort_is_stable_sort / C02_js_sort_mixed_refuted (Props/C02.v), C03_js_group_order (Props/C03.v): '
           'JsSort.v = stable_compare / compare_aggregation_keys / SortedWriter of rbql-js')

# code units for the strings of homogeneous keys: anything goes (no ToNumber is involved)
UNITS = [0x61, 0x62, 0x7a, 0x41, 0x30, 0x31, 0x39, 0x2d, 0x20, 0x2e, 0x65, 0x78, 0, 0xe9, 0x4e2d, 0xd7ff, 0xe000, 0xff01, 0xffff,
         0xd800, 0xd83d, 0xdbff, 0xdc00, 0xde00, 0xdfff]
PAIRS = [[0xd83d, 0xde00], [0xd800, 0xdc00], [0xdbff, 0xdfff]]
INTS = [0, 1, -1, 2, 7, 9, 10, -10, 12, 100, -100, 2 ** 31 - 1, -2 ** 31, 2 ** 32, 2 ** 53 - 1, -(2 ** 53 - 1), 10 ** 15]
# strings that meet a number in a mixed position: inside the modelled part of ToNumber (JsSort.v): "", [-]digits, or surely NaN
# (a letter that no numeric literal contains - not one of a-f, e, x, o, b, n, i, t, y, I -, a CJK character, an astral character)
NUMERIC = ['', '0', '9', '10', '007', '12', '100', '-1', '-10', '-0', '9007199254740991', '1000000000000000']
NAN_UNITS = [0x67, 0x68, 0x6b, 0x7a, 0x5a, 0x4e2d, 0xe9]
# code points for the sort cases: the two classes of C19_utf16_order_agree / _bmp
LOW_ASTRAL = [0x61, 0x62, 0x7a, 0x30, 0x31, 0xe9, 0x4e2d, 0xd7ff, 0x10000, 0x1f600, 0x10ffff]
BMP = [0x61, 0x62, 0x7a, 0x30, 0x31, 0xe9, 0x4e2d, 0xd7ff, 0xe000, 0xff01, 0xffff]


def gen_int(r):
    return ['i', r.choice(INTS) if r.random() < 0.8 else r.randint(-2 ** 53 + 1, 2 ** 53 - 1)]


def gen_str(r):
    s = []
    for _ in range(r.choice([0, 1, 1, 2, 2, 3])):
        if r.random() < 0.2:
            s += r.choice(PAIRS)
        else:
            s.append(r.choice(UNITS))
    return ['s', s]


def gen_mixed_str(r):
    if r.random() < 0.65:
        return ['s', [ord(ch) for ch in r.choice(NUMERIC)]]
    s = [r.choice([0x30, 0x31, 0x39, 0x61, 0x2d]) for _ in range(r.choice([0, 1, 2]))]
    s.insert(r.randint(0, len(s)), r.choice(NAN_UNITS))
    if r.random() < 0.2:
        s += r.choice(PAIRS)
    return ['s', s]


def near(r, x):
    """a component close to x: itself, a neighbour, a prefix / extension"""
    if x[0] == 'i':
        return ['i', x[1] + r.choice([0, 0, 1, -1])] if abs(x[1]) < 2 ** 53 - 1 else list(x)
    y = r.random()
    if y < 0.4:
        return ['s', list(x[1])]
    if y < 0.6:
        return ['s', x[1][:r.randint(0, len(x[1]))]]
    return ['s', x[1] + [r.choice(UNITS)]]


def gen_key_pair(r, mixed):
    """two keys of equal length; homogeneous: the same kind at every position; mixed: at least one position where a number meets a string"""
    n = r.choice([0, 1, 1, 2, 2, 3])
    if mixed and n == 0:
        n = 1
    mixpos = r.randrange(n) if mixed else -1
    ka, kb = [], []
    for p in range(n):
        if p == mixpos or (mixed and r.random() < 0.3):
            x, y = gen_int(r), gen_mixed_str(r)
            if r.random() < 0.5:
                # the number the string stands for, or next to it
                try:
                    x = ['i', int(''.join(chr(u) for u in y[1]) or '0') + r.choice([0, 0, 1, -1])]
                except ValueError:
                    pass
            if r.random() < 0.5:
                x, y = y, x
        elif mixed:
            x = gen_int(r) if r.random() < 0.5 else gen_mixed_str(r)
            y = near(r, x) if x[0] == 'i' or r.random() < 0.5 else gen_mixed_str(r)
        else:
            x = gen_int(r) if r.random() < 0.5 else gen_str(r)
            y = near(r, x) if r.random() < 0.6 else (gen_int(r) if x[0] == 'i' else gen_str(r))
        ka.append(x)
        kb.append(y)
    return ka, kb


def gen_cmp_case(r):
    mixed = r.random() < 0.3
    ka, kb = gen_key_pair(r, mixed)
    if not mixed and r.random() < 0.35:
        kb = [list(x) for x in ka]           # equal keys: the arrival index decides
    ia, ib = r.randint(0, 9), r.randint(0, 9)
    if r.random() < 0.1:
        ia, ib = r.choice([(1000, 999), (10, 9), (9, 10), (99, 100)])      # numbers, not their decimal texts
    c = {'probe': 'jssort', 'mode': 'cmp', 'a': {'k': ka, 'i': ia}, 'b': {'k': kb, 'i': ib}, 'mixed': mixed}
    if ka == kb and ia == ib:
        c['same'] = True                     # same key and same arrival index: the entry compared with itself
    return c


def gen_agg_case(r):
    if r.random() < 0.06:
        a = r.choice([None, [gen_int(r)]])
        # (a number against a string goes through ToNumber: the string is drawn from the modelled part of ToNumber - a blank string is 0 in
        #  JavaScript, NaN in the restricted model: seed-1 false alarm after the generators around it changed, DESIGN 11.2)
        return {'probe': 'jssort', 'mode': 'agg', 'a': a, 'b': None if r.random() < 0.7 else [gen_str(r) if a is None else gen_mixed_str(r)], 'mixed': a is not None}
    mixed = r.random() < 0.25
    ka, kb = gen_key_pair(r, mixed)
    if not mixed and r.random() < 0.2:
        kb = [list(x) for x in ka]
    if r.random() < 0.15:                    # different lengths: the loop runs over the FIRST argument
        if r.random() < 0.5:
            ka = ka[:r.randint(0, len(ka))]
        else:
            kb = kb[:r.randint(0, len(kb))]
    return {'probe': 'jssort', 'mode': 'agg', 'a': ka, 'b': kb, 'mixed': mixed}


def gen_shape(r):
    return [r.choice('is') for _ in range(r.choice([1, 1, 2, 2, 3]))]


def gen_p_key(r, shape, alphabet, small):
    k = []
    for kind in shape:
        if kind == 'i':
            k.append(['i', r.choice(small) if r.random() < 0.85 else r.choice(INTS)])
        else:
            k.append(['p', [r.choice(alphabet) for _ in range(r.choice([0, 1, 1, 2]))]])
    return k


def gen_sort_case(r):
    shape = gen_shape(r)
    cls = r.choice(['low_astral', 'bmp'])
    alphabet = r.sample(LOW_ASTRAL if cls == 'low_astral' else BMP, 3)
    small = r.sample([-1, 0, 1, 2, 10, 9], 3)
    n = r.randint(0, 8)
    pool = [gen_p_key(r, shape, alphabet, small) for _ in range(r.choice([1, 2, 3, 4]))]       # many ties
    entries = []
    for j in range(n):
        k = r.choice(pool) if r.random() < 0.75 else gen_p_key(r, shape, alphabet, small)
        entries.append({'k': [list(x) for x in k], 'id': j, 'nr': r.choice([1, 1, 2, 3])})     # NR is overwritten by the arrival index
    return {'probe': 'jssort', 'mode': 'sort', 'entries': entries, 'reverse': r.random() < 0.5, 'class': cls}


def gen_aggsort_case(r):
    shape = gen_shape(r)
    keys = []
    for _ in range(r.randint(0, 8)):
        k = []
        for kind in shape:
            k.append(gen_int(r) if kind == 'i' else gen_str(r))
        keys.append(k)
    return {'probe': 'jssort', 'mode': 'aggsort', 'keys': keys}


# ------------------------------------------------------------------ encodings
def enc_kc(x):
    if x[0] == 'i':
        return '(2 %s)' % lib.enc(lib.Z(x[1]))
    return '(3 (%s))' % ' '.join(str(u) for u in x[1])


def enc_kcs(k):
    return '(%s)' % ' '.join(enc_kc(x) for x in k)


def enc_entry(e):
    return '(%s %d)' % (enc_kcs(e['k']), e['i'])


def enc_opt_key(k):
    return '()' if k is None else '(%s)' % enc_kcs(k)


def enc_atom(x):
    """a reference key component: AInt / AStr over code points"""
    if x[0] == 'i':
        return '(2 %s)' % lib.enc(lib.Z(x[1]))
    return '(3 (%s))' % ' '.join(str(u) for u in x[1])


def kind_of(k):
    return ''.join(x[0] for x in k)


def show(x):
    return json.dumps(x)


WORDS = {0: '-1', 1: 'undefined / 0', 2: '1'}


def check_cmp(ctx, cases, theorem):
    if not cases:
        return
    args = ['(%s %s)' % (enc_entry(c['a']), enc_entry(c['a'] if c.get('same') else c['b'])) for c in cases]
    raw = lib.run_model(565, args)
    exp = [{'r': m} for m in raw]
    got = lib.run_impl_js('jssort', cases, shards=8)
    ctx.compare(cases, exp, got, theorem,
                describe=lambda c, e, g: 'stable_compare(%s, %s): model %s, rbql-js %s' % (
                    show(c['a']), 'the same entry' if c.get('same') else show(c['b']), WORDS.get(e['r'], e['r']), WORDS.get(g.get('r'), g) if isinstance(g, dict) else g),
                corrupt=lambda e: {'r': (e['r'] + 1) % 3})
    ctx.cross_check_vm(565, args, raw, n=25)
    for c, m in zip(cases, raw):
        ctx.count()
        b = c['a'] if c.get('same') else c['b']
        homog = kind_of(c['a']['k']) == kind_of(b['k'])
        ctx.stat('jssort_cmp_%s_%s' % ('homogeneous' if homog else 'mixed', {0: 'less', 1: 'undefined', 2: 'greater'}[m]))
        if homog and c['a']['k'] == b['k']:
            ctx.stat('jssort_cmp_equal_keys_index_decides')
        ctx.nontriv(('jssort-cmp', show(c['a']), show(b)))
        if homog:
            # C02_js_compare_total at work: the lexicographic order on (key, index), computed here independently
            ka = [(0, x[1]) if x[0] == 'i' else (1, tuple(x[1])) for x in c['a']['k']] + [(0, c['a']['i'])]
            kb = [(0, x[1]) if x[0] == 'i' else (1, tuple(x[1])) for x in b['k']] + [(0, b['i'])]
            want = 0 if ka < kb else (2 if kb < ka else 1)
            if want != m:
                ctx.violation(c, want, m, theorem, 'the model stable_compare is not the lexicographic order on (key, index) on a homogeneous pair (contradicts C02_js_compare_total)')


def check_agg(ctx, cases, theorem):
    if not cases:
        return
    args = ['(%s %s)' % (enc_opt_key(c['a']), enc_opt_key(c['b'])) for c in cases]
    raw = lib.run_model(566, args)
    exp = [{'r': m} for m in raw]
    got = lib.run_impl_js('jssort', cases, shards=8)
    ctx.compare(cases, exp, got, theorem,
                describe=lambda c, e, g: 'compare_aggregation_keys(JSON text of %s, JSON text of %s): model %s, rbql-js %s' % (
                    show(c['a']), show(c['b']), WORDS.get(e['r'], e['r']), WORDS.get(g.get('r'), g) if isinstance(g, dict) else g),
                corrupt=lambda e: {'r': (e['r'] + 1) % 3})
    ctx.cross_check_vm(566, args, raw, n=25)
    for c, m in zip(cases, raw):
        ctx.count()
        if c['a'] is None or c['b'] is None:
            ctx.stat('jssort_agg_null')
        else:
            ctx.stat('jssort_agg_%s_%s' % ('homogeneous' if kind_of(c['a']) == kind_of(c['b']) else ('lengths_differ' if len(c['a']) != len(c['b']) else 'mixed'),
                                           {0: 'less', 1: 'zero', 2: 'greater'}[m]))
        ctx.nontriv(('jssort-agg', show(c['a']), show(c['b'])))


def check_sort(ctx, cases, theorem):
    """the real SortedWriter against the REFERENCE stable sort (Writers.ordered through entry 301, ORDER BY only)"""
    if not cases:
        return
    args = []
    for c in cases:
        es = ' '.join('((%s) (%s))' % (' '.join(enc_atom(x) for x in e['k']), enc_atom(['i', e['id']])) for e in c['entries'])
        args.append('(() 0 (%d) (%s))' % (1 if c['reverse'] else 0, es))
    raw = lib.run_model(301, args)
    exp = []
    for m in raw:
        # a row is a list of values (0 atom); the atom of the id is (2 (sign magnitude))
        exp.append({'rows': [row[0][1][1][1] for row in m]})
    got = lib.run_impl_js('jssort', cases, shards=8)
    ctx.compare(cases, exp, got, theorem,
                describe=lambda c, e, g: 'SortedWriter (reverse=%s) over %s: reference stable sort %s, rbql-js %s' % (
                    c['reverse'], show([[e2['k'], e2['id']] for e2 in c['entries']]), json.dumps(e), json.dumps(g)),
                corrupt=lambda e: {'rows': e['rows'] + [99]})
    ctx.cross_check_vm(301, args, raw, n=10)
    for c, e in zip(cases, exp):
        ctx.count()
        keys = [show(x['k']) for x in c['entries']]
        ctx.stat('jssort_sort_%s%s' % ('desc' if c['reverse'] else 'asc', '_with_ties' if len(set(keys)) < len(keys) else ''))
        ctx.stat('jssort_sort_class_' + c['class'])
        if e['rows'] != sorted(e['rows']) and e['rows'] != sorted(e['rows'], reverse=True):
            ctx.stat('jssort_sort_rearranged')
        if c['entries']:
            ctx.nontriv(('jssort-sort', show(c['entries']), c['reverse']))


def check_aggsort(ctx, cases, theorem):
    """the key texts sorted by node with the real comparator: a permutation of the distinct keys that the MODEL comparator calls strictly ascending"""
    if not cases:
        return
    got = lib.run_impl_js('jssort', cases, shards=8)
    args, owner = [], []
    for n, (c, g) in enumerate(zip(cases, got)):
        ctx.count()
        distinct = []
        for k in c['keys']:
            if k not in distinct:
                distinct.append(k)
        if not isinstance(g, dict) or 'keys' not in g or sorted(map(show, g['keys'])) != sorted(map(show, distinct)):
            ctx.violation(c, {'keys': distinct}, g, theorem, 'Array.from(set of key texts).sort(compare_aggregation_keys) is not a permutation of the distinct keys: %s' % json.dumps(g)[:300])
            continue
        ctx.stat('jssort_aggsort')
        if len(distinct) > 1:
            ctx.nontriv(('jssort-aggsort', show(c['keys'])))
        for x, y in zip(g['keys'], g['keys'][1:]):
            args.append('(%s %s)' % (enc_opt_key(x), enc_opt_key(y)))
            owner.append((n, x, y))
    raw = lib.run_model(566, args)
    for (n, x, y), m in zip(owner, raw):
        ctx.stat('jssort_aggsort_adjacent_pairs')
        if m != 0:
            ctx.violation(cases[n], 0, m, theorem, 'node sorted the key texts with compare_aggregation_keys but the model comparator does not call %s < %s (contradicts C03_js_group_order)' % (show(x), show(y)))
    ctx.cross_check_vm(566, args, raw, n=10)


FIXED = [
    # the witness of C02_js_sort_mixed_refuted: "10" < "9" < 10 but not "10" < 10, and 10 against "10" both ways 1
    {'a': {'k': [['s', [49, 48]]], 'i': 0}, 'b': {'k': [['s', [57]]], 'i': 1}, 'mixed': False},
    {'a': {'k': [['s', [57]]], 'i': 1}, 'b': {'k': [['i', 10]], 'i': 2}, 'mixed': True},
    {'a': {'k': [['s', [49, 48]]], 'i': 0}, 'b': {'k': [['i', 10]], 'i': 2}, 'mixed': True},
    {'a': {'k': [['i', 10]], 'i': 2}, 'b': {'k': [['s', [49, 48]]], 'i': 0}, 'mixed': True},
    # code units, not code points: U+FF01 against U+1F600
    {'a': {'k': [['s', [0xff01]]], 'i': 0}, 'b': {'k': [['s', [0xd83d, 0xde00]]], 'i': 1}, 'mixed': False},
    {'a': {'k': [['i', 5], ['s', [97]]], 'i': 3}, 'b': {'k': [['i', 5], ['s', [97]]], 'i': 3}, 'same': True, 'mixed': False},
]


def run(ctx, theorem=THEOREM):
    r = ctx.rng
    n = 1500 if ctx.tier == 'quick' else 150000
    fixed = [dict(c, probe='jssort', mode='cmp') for c in FIXED]
    check_cmp(ctx, [dict(c, part='jssort') for c in fixed + [gen_cmp_case(r) for _ in range(n)]], theorem)
    check_agg(ctx, [dict(gen_agg_case(r), part='jssort') for _ in range(n)], theorem)
    check_sort(ctx, [dict(gen_sort_case(r), part='jssort') for _ in range(n)], theorem)
    check_aggsort(ctx, [dict(gen_aggsort_case(r), part='jssort') for _ in range(n // 3)], theorem)
    ctx.rule += ('; JS sort (JsSort.v), on the functions cut out of the source text of rbql-js/rbql.js and run by node: %d pairs of entries through the real stable_compare '
                 '(keys of 0-3 components: integers up to +-2^53, strings over ASCII, digits, BMP, U+E000.., lone and paired surrogates; homogeneous pairs, equal keys with '
                 'different arrival indices, an entry against itself, and mixed pairs where a number meets a numeric string or a surely-NaN string) against entry 565; '
                 '%d pairs of key texts / null through the real compare_aggregation_keys (also of different lengths) against entry 566; '
                 '%d lists of <= 8 entries with many ties through the real SortedWriter (Array.prototype.sort(stable_compare), reverse()) against the REFERENCE stable sort '
                 '(Writers.ordered, entry 301; homogeneous keys, strings within one class of C19_utf16_order_agree); '
                 '%d sets of key tuples sorted by node with the real compare_aggregation_keys: a permutation, every adjacent pair ascending for the model' % (n + len(FIXED), n, n, n // 3))


def replay(ctx, case, theorem=THEOREM):
    c = {k: v for k, v in case.items() if k not in ('impl', 'other')}
    if c['mode'] == 'cmp':
        return check_cmp(ctx, [c], theorem)
    if c['mode'] == 'agg':
        return check_agg(ctx, [c], theorem)
    if c['mode'] == 'sort':
        return check_sort(ctx, [c], theorem)
    return check_aggsort(ctx, [c], theorem)
