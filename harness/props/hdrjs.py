# hdrjs.py - correspondence of HeaderJs.v (the character-level model of the JavaScript header derivation) with rbql-js.
# Called from c07.run.  Entries (EntryHeaderJs.v):
#   551 infos_js            star marking + str_strip + adhoc parse      <-> replace_star_vars_for_header_parsing / adhoc_parse_select_expression_to_column_infos
#   555 infos_js_translated the same behind replace_star_count          <-> translate_select_expression(...)[1] / adhoc_parse...
#   552 adhoc_infos         the adhoc parse alone on token soup         <-> adhoc_parse_select_expression_to_column_infos
#   553 select_output_header_js over infos with integer indices        <-> rbql-js select_output_header
#   554 build_header_pyz    the Python loop over the same infos        <-> rbql_engine.select_output_header
# Both sides get the SAME literal table: the JS driver runs separate_string_literals and returns (format expression, literals), the
# model is then run on exactly these.
import json
import lib

THEOREM = 'C18_header_agree (Props/C18.v): HeaderJs.v = rbql-js header derivation'

SOUP = ['a', 'b', 'c', 'a1', 'b12', 'a0', 'a00', 'b007', '.', '.', '[', ']', '[', ']', '(', ')', '{', '}', ',', ',', ' ', ' ', '  ', 'as', 'AS', 'As', ' as ', ' AS ',
        'x', '_y', 'Zz9', 'x_1', '*', 'a.*', 'b.*', ' * ', '__RBQL_INTERNAL_STAR', 'a.__RBQL_INTERNAL_STAR', '___RBQL_STRING_LITERAL', '___RBQL_STRING_LITERAL0___',
        '___RBQL_STRING_LITERAL1___', '___RBQL_STRING_LITERAL01___', '___RBQL_STRING_LITERAL2___', '___RBQL_STRING_LITERAL99___', '___', '0', '7', '12', '\n', '\t', '\r',
        ' ', ' ', '﻿', 'é', '+', '-', '$', 'COUNT(*)', 'count( * )']
LITS = ['"x"', "'y'", '`z`', '""', "''", '"', "'", '', 'q', '"a\\"b"', "'a\\'b'", '"a\\\\b"', "'\\\\'", '"\\\\\\""', '"tab\\tx"', "'mixed\"", '"it\'s"', "'\\\\\\\\'", '"\\"', "'ab\\'"]
SRC_LITS = ['"x"', "'y'", '`z`', '""', '"a\\"b"', "'a\\'b'", '"a\\\\b"', "'\\\\'", '"tab\\tx"', '"it\'s"', '"k, [1"']


def gen_span_case(r):
    n = r.choice([1, 1, 2, 2, 3, 4, 6, 9])
    text = ''.join(r.choice(SOUP) for _ in range(n))
    if r.random() < 0.35:
        # shaped spans: near misses of the five patterns
        text = r.choice(['%s%s', '%s.%s', '%s[%s]', '%s[___RBQL_STRING_LITERAL%s___]', '%s as %s', '%s  AS   %s ', ' %s %s', '%s[%s', '%s .%s', '%s[ %s]']) % (
            r.choice(['a', 'b', 'c', 'a1', 'A', 'x + 1', '(a1, a2)', '']), r.choice(['0', '1', '12', '007', 'x', '_x', 'x1', '1x', 'Zz_9', '__RBQL_INTERNAL_STAR', '', '3 ', 'as']))
        if r.random() < 0.3:
            text = text + r.choice([',', ', ', ' , ']) + ''.join(r.choice(SOUP) for _ in range(r.choice([1, 2, 3])))
    lits = [r.choice(LITS) for _ in range(r.choice([0, 1, 2, 3, 13]))]
    return {'probe': 'hdrjs', 'mode': 'span', 'text': text, 'lits': lits}


def gen_sel_soup(r):
    parts = []
    for _ in range(r.choice([1, 2, 3, 4])):
        parts.append(r.choice(['*', 'a.*', 'b.*', ' * ', 'a1', 'a[2]', 'a.name', 'NR', 'a1 + 1', 'f(a1, *, 2)', 'f(*)', 'a1 * 2', '[a1, a.*]', 'a[%s]' % r.choice(SRC_LITS),
                               r.choice(SRC_LITS), 'a1 as x', '* as y', 'COUNT(*)', 'count( * ) as n', '(a1', 'a2)', '{a1: [a2, a3]}', 'a .*', '*a', 'a.* b', '']))
    return r.choice(['', ' ', '  ']).join([r.choice([',', ', ', ' ,', ' , ']).join(parts)]) if r.random() < 0.8 else ' ' + ', '.join(parts) + '  '


def gen_hdr_case(r):
    names = ['id', 'name', 'x1', 'Val']
    ih = r.choice([None, [], names[:1], names[:3]])
    jh = None if ih is None else r.choice([None, [], ['k', 'w']])
    infos = []
    for _ in range(r.randint(0, 4)):
        x = r.random()
        if x < 0.15:
            infos.append(None)
        elif x < 0.3:
            infos.append([r.choice([None, 'a', 'b']), None, None, True, None])
        elif x < 0.6:
            infos.append([r.choice(['a', 'b']), r.choice([-1, -1, 0, 1, 2, 3, 7]), None, False, None])
        elif x < 0.8:
            infos.append([None, None, r.choice(['nm', 'NR', '']), False, None])
        else:
            infos.append([None, None, None, False, r.choice(['al', 'x'])])
    return {'probe': 'hdrjs', 'mode': 'hdr', 'ih': ih, 'jh': jh, 'infos': infos}


def dec_jinfo(q):
    """model sx -> the five fields of the JS object"""
    if q == []:
        return None
    q = q[0]
    t = lambda n: 'a' if n == 0 else 'b'
    if q[0] == 0:
        return [None if q[1] == [] else t(q[1][0]), None, None, True, None]
    if q[0] == 1:
        return [t(q[1]), lib.dec_Z(q[2]), None, False, None]
    if q[0] == 2:
        return [None, None, lib.dec_str(q[1]), False, None]
    return [None, None, None, False, lib.dec_str(q[1])]


def enc_jinfo(q):
    if q is None:
        return '()'
    tn = lambda s: 0 if s == 'a' else 1
    if q[3]:
        return '((0 %s))' % ('()' if q[0] is None else '(%d)' % tn(q[0]))
    if q[2] is not None:
        return '((2 %s))' % lib.enc(q[2])
    if q[4] is not None:
        return '((3 %s))' % lib.enc(q[4])
    return '((1 %d %s))' % (tn(q[0]), lib.enc(lib.Z(q[1])))


def dec_infos(m):
    return {'error': 'P'} if m == [] else {'infos': [dec_jinfo(q) for q in m[0]]}


def rel_infos(c, e, g):
    if not isinstance(g, dict) or 'driver_exception' in g:
        return False
    if 'error' in e:
        return g.get('error') == e['error']
    return g.get('infos') == e['infos']


def check_infos(ctx, cases, got):
    """cases with mode sel/tsel/span: run the model on the (format expression, literals) the JS side saw"""
    by_code = {'sel': 551, 'tsel': 555, 'span': 552}
    for mode, code in by_code.items():
        idx = [i for i, c in enumerate(cases) if c['mode'] == mode]
        if not idx:
            continue
        sub, subgot, args = [], [], []
        for i in idx:
            c, g = cases[i], got[i]
            if mode == 'span':
                fmt, lits = c['text'], c['lits']
            else:
                # the model does the star marking itself: it starts from the format expression and literal table that
                # separate_string_literals (subject of C01/C20; here it only fixes the common literal table) gave the JS side
                fmt, lits = c['fmt_in'], c['lits_in']
            sub.append(c)
            subgot.append(g)
            args.append('(%s %s)' % (lib.enc(fmt), lib.enc(lits)))
        raw = lib.run_model(code, args)
        exp = [dec_infos(m) for m in raw]
        ctx.compare(sub, exp, subgot, THEOREM, rel=rel_infos,
                    describe=lambda c, e, g: 'rbql-js %s on %r (literals %s): model %s, implementation %s' % (
                        c['mode'], c['text'], json.dumps(c.get('lits', c.get('lits_in'))), json.dumps(e), json.dumps(g)),
                    corrupt=lambda e: {'infos': ['CANARY']})
        for c, e in zip(sub, exp):
            ctx.count()
            if 'error' in e:
                ctx.stat('hdrjs_%s_perr' % mode)
            else:
                for q in e['infos']:
                    ctx.stat('hdrjs_%s_%s' % (mode, 'null' if q is None else 'star' if q[3] else 'idx' if q[1] is not None else 'name' if q[2] is not None else 'alias'))
                if any(q is not None for q in e['infos']):
                    ctx.nontriv(('hdrjs', mode, c['text'], json.dumps(c.get('lits'))))
        ctx.cross_check_vm(code, args, raw, n=25)


def with_format(cases):
    """first JS pass: the format expression and literal table of every 'sel'/'tsel' text (mode 'fmtonly' of the same driver)"""
    todo = [c for c in cases if c['mode'] in ('sel', 'tsel')]
    res = lib.run_impl_js('hdrjs', [{'mode': 'fmtonly', 'text': c['text']} for c in todo], shards=4)
    for c, g in zip(todo, res):
        c['fmt_in'], c['lits_in'] = g['fmt'], g['lits']


def check_hdr(ctx, cases):
    if not cases:
        return
    opt = lambda h: '()' if h is None else '(%s)' % lib.enc(h)
    args = ['(%s %s (%s))' % (opt(c['ih']), opt(c['jh']), ' '.join(enc_jinfo(q) for q in c['infos'])) for c in cases]
    raw = lib.run_model(553, args)

    def dec(m):
        if m[0] == 0:
            return {'header': None}
        if m[0] == 2:
            return {'error': 'P'}
        return {'header': [({'undef': 1} if x == [] else lib.dec_str(x[0])) for x in m[1]]}
    exp = [dec(m) for m in raw]
    got = lib.run_impl_js('hdrjs', cases, shards=4)
    ctx.compare(cases, exp, got, THEOREM, describe=lambda c, e, g: 'rbql-js select_output_header(%s, %s, %s): model %s, implementation %s' % (
        json.dumps(c['ih']), json.dumps(c['jh']), json.dumps(c['infos']), json.dumps(e), json.dumps(g)), corrupt=lambda e: {'header': ['CANARY']})
    ctx.cross_check_vm(553, args, raw, n=25)
    # the Python loop on present headers
    pc = [c for c in cases if c['ih'] is not None]
    pargs = ['(%s %s (%s))' % (lib.enc(c['ih']), lib.enc(c['jh'] or []), ' '.join(enc_jinfo(q) for q in c['infos'])) for c in pc]
    praw = lib.run_model(554, pargs)
    pexp = [({'error': 'IndexError'} if m == [] else {'header': [lib.dec_str(x) for x in m[0]]}) for m in praw]
    pgot = lib.run_impl_py('hdrjs', pc, shards=4)
    ctx.compare(pc, pexp, pgot, THEOREM, describe=lambda c, e, g: 'rbql-py select_output_header(%s, %s, %s): model %s, implementation %s' % (
        json.dumps(c['ih']), json.dumps(c['jh']), json.dumps(c['infos']), json.dumps(e), json.dumps(g)), corrupt=lambda e: {'header': ['CANARY']})
    for c, e, pe in zip(cases, exp, exp):
        ctx.count()
        ctx.stat('hdrjs_hdr_' + ('undef' if any(isinstance(x, dict) for x in (e.get('header') or [])) else 'perr' if 'error' in e else 'ok'))
    for e in pexp:
        ctx.count()
        ctx.stat('hdrjs_pyhdr_' + ('indexerror' if 'error' in e else 'ok'))


def select_text(q):
    """the select list of a C07 query text (between SELECT [DISTINCT [COUNT] | TOP n] and JOIN / GROUP BY), as written"""
    import re
    m = re.match(r'^select (?:distinct count |DISTINCT COUNT |distinct |top \d+ )?(.*?)(?: join b on .*| group by .*)?$', q)
    return m.group(1) if m else None


def run(ctx, c07_cases):
    r = ctx.rng
    nsoup = 400 if ctx.tier == 'quick' else 40000
    cases = []
    for c in c07_cases:
        if c['kind'] in ('select', 'agg'):
            s = select_text(c['qjs'])
            if s is not None and ' except ' not in s:
                cases.append({'probe': 'hdrjs', 'mode': 'sel', 'text': s})
                cases.append({'probe': 'hdrjs', 'mode': 'tsel', 'text': s})
    for _ in range(nsoup):
        cases.append({'probe': 'hdrjs', 'mode': r.choice(['sel', 'tsel']), 'text': gen_sel_soup(r)})
    for _ in range(nsoup * 2):
        cases.append(gen_span_case(r))
    with_format(cases)
    got = lib.run_impl_js('hdrjs', cases, shards=8)
    check_infos(ctx, cases, got)
    check_hdr(ctx, [gen_hdr_case(r) for _ in range(nsoup)])


def replay(ctx, case):
    if case['mode'] == 'hdr':
        return check_hdr(ctx, [case])
    if case['mode'] in ('sel', 'tsel'):
        with_format([case])
    check_infos(ctx, [case], lib.run_impl_js('hdrjs', [case]))
