# C10 - CSV written by RBQL reads back as the identical table, in every dialect.
# Model: CsvWriter.v (write_table: normalize_fields, per-policy line, lossy flags, errors), Csv.v (quote_field, join, smart_split),
# CsvSpec.v (representable / table_ok); theorems: Props/C10.v.
# Correspondence: CSVWriter -> io.StringIO / io.BytesIO -> CSVRecordIterator.get_all_records() (rbql-py), the same with a collecting
# Writable / Readable for rbql-js, and rbql.query_csv("select *") file to file under build/.
#   for EVERY table: output text, the two lossy flags and the first error must equal the model's;
#   for tables the model declares representable: the table read back must equal the original (CR / CRLF inside quoted_rfc fields
#   normalised to LF) with no reader warning other than the field-count one when record lengths differ.
import itertools
import lib

POL = {'simple': 0, 'quoted': 1, 'quoted_rfc': 2, 'whitespace': 3, 'monocolumn': 4}
POLS = ['simple', 'quoted', 'quoted_rfc', 'whitespace', 'monocolumn']
ENC_CODE = {None: 0, 'utf-8': 1, 'latin-1': 2, 'binary': 2}
SEPS = ['\n', '\r\n', '\r']
THEOREM = ('C10_line_roundtrip / C10_lossy_never_silent (Props/C10.v): smart_split (join_line fs) = (fs, false) for representable fields; '
           'None => none_in_output; delimiter inside a simple/whitespace field => delim_in_simple_output')
BATCH = 400


def enc_cell(c):
    if c is None:
        return [1]
    if isinstance(c, bool):
        raise TypeError('bool cells are not modelled')
    if isinstance(c, int):
        return [2, lib.Z(c)]
    if isinstance(c, str):
        return [0, c]
    return [3, [enc_cell(x) for x in c]]


def model_arg(c):
    lang = 0 if c['impl'] == 'py' else 1
    header = lib.Opt(None if c['header'] is None else [enc_cell(x) for x in c['header']])
    return lib.enc([lang, POL[c['pol']], c['dlm'], ENC_CODE[c['enc']], header, [[enc_cell(x) for x in r] for r in c['rows']]])


def expected(c, m):
    lines, err, nonef, delimf, rb, exact = m
    e = {'text': ''.join(lib.dec_str(l) + c['sep'] for l in lines),
         'err': None if not err else [err[0][0], err[0][1]],
         'none': bool(nonef), 'delim': bool(delimf), 'readback': None, 'exact': bool(exact),
         'lines_lf': ''.join(lib.dec_str(l) + '\n' for l in lines)}
    if rb:
        recs = [[lib.dec_str(f) for f in r] for r in rb[0]]
        kinds = ['num_fields'] if len(set(len(r) for r in recs)) > 1 else []
        e['readback'] = [recs, kinds]
    return e


def rel(c, e, g):
    if not isinstance(g, dict) or 'text' not in g:
        return False
    if g['text'] != e['text'] or g['err'] != e['err'] or g['none'] != e['none'] or g['delim'] != e['delim'] or g['other_warnings']:
        return False
    if e['readback'] is not None and g['readback'] != e['readback']:
        return False
    if c.get('qcsv') and e['exact'] and e['readback'] is not None and g.get('qcsv') is not None:
        if g['qcsv'] != qcsv_expected(e):
            return False
    return True


def qcsv_expected(e):
    # select * re-writes the same normalised records with the same policy: the writer's separator flag of the model
    # applies again (an empty record under whitespace sets it), the reader contributes the field-count warning
    return [e['lines_lf'], sorted(e['readback'][1] + (['separator'] if e['delim'] else []))]


def corrupt(e):
    bad = dict(e)
    bad['text'] = e['text'] + 'CANARY'
    return bad


def describe(c, e, g):
    cfg = 'impl=%s policy=%s dlm=%r sep=%r enc=%r header=%r rows=%r' % (c['impl'], c['pol'], c['dlm'], c['sep'], c['enc'], c['header'], c['rows'])
    if not isinstance(g, dict) or 'text' not in g:
        return '%s: driver result %r' % (cfg, g)
    for k in ('text', 'err', 'none', 'delim'):
        if g[k] != e[k]:
            return '%s: writer %s: model %r implementation %r' % (cfg, k, e[k], g[k])
    if g['other_warnings']:
        return '%s: unexpected writer warnings %r' % (cfg, g['other_warnings'])
    if e['readback'] is not None and g['readback'] != e['readback']:
        return '%s: representable table does not read back: expected (records, warnings) %r got %r' % (cfg, e['readback'], g['readback'])
    return '%s: query_csv select * file to file: expected %r got %r' % (cfg, qcsv_expected(e) if e['readback'] else None, g.get('qcsv'))


# ---------------------------------------------------------------- generators

def class_alphabet(dlm):
    a = ['"']
    for ch in dlm:
        if ch not in a:
            a.append(ch)
    for ch in (' ', '\n', 'x'):
        if ch not in a:
            a.append(ch)
    return a


def dlms_for(pol, enc):
    if pol == 'monocolumn':
        return ['', ',']
    if pol == 'whitespace':
        return [' ', ' ', ',']
    na = 'é' if enc in ('latin-1', 'binary') else '€'
    return [',', ';', '\t', '|', ' ', '::', 'ab', 'aa', na, ' ;', '  ']


def cfgs(impl):
    encs = [None, 'utf-8', 'latin-1'] if impl == 'py' else ['utf-8', 'binary']
    out = []
    for pol in POLS:
        for enc in encs:
            for dlm in dlms_for(pol, enc):
                out.append((pol, dlm, enc))
    return out


def exhaustive_tables(ctx, impl):
    """single-record tables: every row of <= 2 fields of length <= L over the class alphabet; two-record tables of short rows"""
    thorough = ctx.tier == 'thorough'
    tables = []
    k = 0
    seen = set()
    for pol, dlm, enc in cfgs(impl):
        key = (pol, dlm)
        if key in seen and not (thorough and enc != 'utf-8'):
            continue                                   # one encoding per (policy, delimiter) here; encodings rotate below
        seen.add(key)
        alpha = class_alphabet(dlm)
        L = 2
        if thorough and len(alpha) <= 5 and pol != 'monocolumn':
            L = 3
        if len(alpha) > 5 and not thorough:
            L = 1 if len(alpha) > 6 else 2
        fields = [''.join(t) for n in range(L + 1) for t in itertools.product(alpha, repeat=n)]
        short = [f for f in fields if len(f) <= (2 if thorough else 1)]
        rows = [[f] for f in fields]
        if pol != 'monocolumn':
            rows += [[f, g] for f in (fields if len(fields) <= 160 else short) for g in (fields if len(fields) <= 40 or thorough else short)]
            rows += [[f, g, h] for f in short[:7] for g in short[:7] for h in short[:7]]
        for r in rows:
            k += 1
            e = enc if thorough else ([None, 'utf-8', 'latin-1'] if impl == 'py' else ['utf-8', 'binary'])[k % (3 if impl == 'py' else 2)]
            if e in ('latin-1', 'binary') and any(ord(ch) > 255 for ch in dlm):
                e = 'utf-8'
            tables.append({'impl': impl, 'pol': pol, 'dlm': dlm, 'sep': SEPS[k % 3], 'enc': e, 'header': None, 'rows': [r], 'kind': 'exh1'})
        two = [[f] for f in short[:6]] + ([[f, g] for f in short[:4] for g in short[:4]] if pol != 'monocolumn' else [])
        for r1 in two:
            for r2 in two:
                k += 1
                tables.append({'impl': impl, 'pol': pol, 'dlm': dlm, 'sep': SEPS[k % 3], 'enc': enc, 'header': None, 'rows': [r1, r2], 'kind': 'exh2'})
    return tables


def latin1_tables(impl):
    """every latin-1 code point in one field (latin-1 preserves every byte value), split over two fields as well"""
    out = []
    enc = 'latin-1' if impl == 'py' else 'binary'
    allc = ''.join(chr(i) for i in range(256))
    for pol in POLS:
        dlm = {'monocolumn': '', 'whitespace': ' '}.get(pol, ',')
        for sep in SEPS:
            for drop in ('', '\r\n', '\r\n",', '\r\n ,'):
                text = ''.join(ch for ch in allc if ch not in drop)
                rows = [[text]] if pol == 'monocolumn' else [[text, text[128:] + text[:128]], [text[::-1]]]
                out.append({'impl': impl, 'pol': pol, 'dlm': dlm, 'sep': sep, 'enc': enc, 'header': None, 'rows': rows, 'kind': 'latin1_all'})
    return out


def big_tables(ctx, impl):
    """LONG tables of short records (more records than any buffer, queue or counter of the readers and writers holds at once; a
    whole file of short records reaches the rbql-js reader as ONE chunk): the round trip is the identity at every length"""
    rng = ctx.rng
    out = []
    for n in ([1030, 2100] if ctx.tier == 'quick' else [1023, 1024, 1025, 1026, 2049, 4100, 9000, 20000]):
        for pol, dlm in (('simple', ','), ('quoted', ','), ('quoted_rfc', ';')):
            if ctx.tier == 'quick' and rng.random() < 0.4:
                continue
            rows = [[str(i), rng.choice(['v', 'w', '', 'a b'])] for i in range(n)]
            out.append({'impl': impl, 'pol': pol, 'dlm': dlm, 'sep': rng.choice(SEPS), 'enc': 'utf-8', 'header': None, 'rows': rows, 'kind': 'big'})
    return out


def random_tables(ctx, impl):
    rng = ctx.rng
    n = (7000 if impl == 'py' else 4000) if ctx.tier == 'quick' else (300000 if impl == 'py' else 120000)
    cf = cfgs(impl)
    out = []
    for _ in range(n):
        pol, dlm, enc = rng.choice(cf)
        narrow = enc in ('latin-1', 'binary')
        pool = ['"', ' ', '\t', 'a', 'b', 'x', 'é', '\xff', '\xef', '\xbb', '\xbf', '\x00', ':', ';', ',', '|']
        pool += list(dlm) * 2
        if not narrow:
            pool += ['世', '﻿', '€']
            if impl == 'py':
                pool += ['\U0001F600']
        nl = rng.random() < (0.5 if pol == 'quoted_rfc' else 0.12)

        def text():
            m = rng.random()
            ln = 0 if m < 0.12 else rng.randint(1, 5)
            out = []
            for _ in range(ln):
                r = rng.random()
                if r < 0.12:
                    out.append('"')
                elif r < 0.22:
                    out.append(dlm if dlm and rng.random() < 0.5 else (dlm[:1] or 'a'))
                elif r < 0.30:
                    out.append(' ')
                elif nl and r < 0.42:
                    out.append(rng.choice(['\n', '\r', '\r\n']))
                elif r < 0.5 and narrow:
                    out.append(chr(rng.randrange(256)))
                else:
                    out.append(rng.choice(pool))
            s = ''.join(out)
            if not nl:
                s = s.replace('\n', 'n').replace('\r', 'r')
            return s

        def cell(depth=0):
            r = rng.random()
            if r < 0.80 or (depth > 1):
                return text()
            if r < 0.87:
                return None
            if r < 0.93:
                return rng.choice([0, 1, 7, 42, -3, 1000, 123456789012, -99])
            return [cell(depth + 1) for _ in range(rng.randint(0, 3))]
        special = rng.random()
        if pol == 'monocolumn' and special > 0.15:
            width = lambda: 1
        elif special < 0.75:
            w0 = rng.randint(1, 4)
            width = lambda: w0
        else:
            width = lambda: rng.randint(0, 4)
        rows = [[cell() for _ in range(width())] for _ in range(rng.randint(0, 4))]
        header = None
        if rng.random() < 0.2:
            header = [cell() for _ in range(width())]
        if rng.random() < 0.03 and rows and rows[0] and isinstance(rows[0][0], str) and header is None:
            rows[0][0] = ('﻿' if not narrow else '\xef\xbb\xbf') + rows[0][0]
        out.append({'impl': impl, 'pol': pol, 'dlm': dlm, 'sep': rng.choice(SEPS), 'enc': enc, 'header': header, 'rows': rows, 'kind': 'random'})
    return out


# ---------------------------------------------------------------- evaluation

def batches(cases):
    groups = {}
    for i, c in enumerate(cases):
        groups.setdefault((c['pol'], c['dlm'], c['sep'], c['enc']), []).append(i)
    bs, index = [], []
    for (pol, dlm, sep, enc), idxs in groups.items():
        for k in range(0, len(idxs), BATCH):
            part = idxs[k:k + BATCH]
            bs.append({'pol': pol, 'dlm': dlm, 'sep': sep, 'enc': enc,
                       'tables': [{'header': cases[i]['header'], 'rows': cases[i]['rows'], 'qcsv': bool(cases[i].get('qcsv'))} for i in part]})
            index.append(part)
    return bs, index


def run_impl(impl, cases):
    bs, index = batches(cases)
    order = sorted(range(len(bs)), key=lambda i: (i * 7919) % max(1, len(bs)))      # spread expensive batches over the shards
    res = (lib.run_impl_py if impl == 'py' else lib.run_impl_js)('c10', [bs[i] for i in order])
    got = [None] * len(cases)
    for i, r in zip(order, res):
        part = index[i]
        if not isinstance(r, list) or len(r) != len(part):
            for j in part:
                got[j] = r
        else:
            for j, x in zip(part, r):
                got[j] = x
    return got


def evaluate(ctx, impl, cases, decide_qcsv):
    args = [model_arg(c) for c in cases]
    model = lib.run_model(120, args)
    exp = [expected(c, m) for c, m in zip(cases, model)]
    if decide_qcsv:
        frac = 0.06 if ctx.tier == 'quick' else 0.05
        for c, e in zip(cases, exp):
            ascii_dlm = all(ord(ch) < 128 for ch in c['dlm'])
            c['qcsv'] = bool(impl == 'py' and e['exact'] and e['err'] is None and c['enc'] is not None
                             and (ascii_dlm or c['enc'] == 'utf-8') and ctx.rng.random() < frac)
    got = run_impl(impl, cases)
    return args, model, exp, got


def shrink(ctx):
    def go(c, e, g):
        def fails(c1):
            _a, _m, e1, g1 = evaluate(ctx, c1['impl'], [c1], False)
            return (c1, e1[0], g1[0]) if not rel(c1, e1[0], g1[0]) else None
        best = None
        cur = dict(c)
        progress = True
        steps = 0
        while progress and steps < 60:
            progress = False
            cands = []
            if cur['header'] is not None:
                cands.append(dict(cur, header=None))
            for i in range(len(cur['rows'])):
                cands.append(dict(cur, rows=cur['rows'][:i] + cur['rows'][i + 1:]))
            for i, r in enumerate(cur['rows']):
                for j in range(len(r)):
                    cands.append(dict(cur, rows=cur['rows'][:i] + [r[:j] + r[j + 1:]] + cur['rows'][i + 1:]))
                    if isinstance(r[j], str):
                        for k in range(len(r[j])):
                            cands.append(dict(cur, rows=cur['rows'][:i] + [r[:j] + [r[j][:k] + r[j][k + 1:]] + r[j + 1:]] + cur['rows'][i + 1:]))
            for cand in cands:
                steps += 1
                r = fails(cand)
                if r is not None:
                    cur, best, progress = cand, r, True
                    break
                if steps > 200:
                    break
        return best
    return go


def norm_rows(c):
    sub = ';' if c['dlm'] == '|' else '|'

    def n(x):
        if x is None:
            return ''
        if isinstance(x, list):
            return sub.join(n(y) for y in x)
        return str(x)
    return [[n(x) for x in r] for r in ([c['header']] if c['header'] is not None else []) + c['rows']]


def stats(ctx, cases, exp, got):
    for c, e, g in zip(cases, exp, got):
        ctx.count(1)
        if (e['readback'] is None and e['err'] is None and isinstance(g, dict) and isinstance(g.get('readback'), list) and len(g['readback']) == 2
                and g['readback'][1] in ([], ['num_fields']) and g['readback'][0] == norm_rows(c)):
            ctx.stat('not_representable_yet_identical_%s' % ('ill_formed_dlm' if (c['dlm'][:1] == ' ' and c['dlm'] != ' ') or (c['pol'] == 'whitespace' and c['dlm'] != ' ') else 'OTHER'))
        p = '%s_%s' % (c['impl'], c['pol'])
        ctx.stat(p)
        ctx.stat('kind_' + c['kind'])
        if e['readback'] is not None:
            ctx.stat(p + '_representable')
            if c['kind'] == 'latin1_all':
                ctx.stat('latin1_all_256_code_points_read_back')
            if not e['exact']:
                ctx.stat('rfc_cr_normalised')
        if e['err'] is not None:
            ctx.stat('error_kind_%d' % e['err'][1])
        if e['none']:
            ctx.stat('none_flag')
        if e['delim']:
            ctx.stat('delim_flag')
        if c.get('qcsv'):
            ctx.stat('query_csv_file_to_file')
        if len(c['dlm']) > 1:
            ctx.stat('multichar_dlm')
        ctx.stat('enc_%s' % c['enc'])
        if '"' in e['text'] or e['none'] or e['delim'] or e['err'] is not None or len(c['rows']) > 1:
            ctx.nontriv((c['impl'], c['pol'], c['dlm'], c['header'], c['rows']))


def run(ctx):
    ctx.rule = ('tables over {quote, delimiter characters, space, TAB, CR, LF, ordinary, non-ASCII, latin-1 code points, BOM} x 5 policies x '
                'delimiters {, ; TAB | space :: ab aa non-ASCII, and the ill-formed " ;" "  "} x {LF, CRLF, CR} x {None, utf-8, latin-1}: '
                'every single-record table of <= 2 fields over the class alphabet up to the field-length bound, two-record tables of short rows, '
                'random tables with None / int / nested list cells, headers, ragged rows; long tables of short records (1030 / 2100 records; thorough: up to 20000); non-trivial = distinct table whose output contains a quote, '
                'sets a flag, fails, or has more than one record')
    ctx.exhaustive = True
    for impl in ('py', 'js'):
        cases = exhaustive_tables(ctx, impl) + latin1_tables(impl) + random_tables(ctx, impl) + big_tables(ctx, impl)
        args, model, exp, got = evaluate(ctx, impl, cases, True)
        ctx.compare(cases, exp, got, THEOREM, rel=rel, corrupt=corrupt, describe=describe, shrink=shrink(ctx))
        stats(ctx, cases, exp, got)
        ctx.cross_check_vm(120, args, model, n=40)
        for i in (3, len(cases) // 2, len(cases) - 5):
            ctx.sample({'case': {k: cases[i][k] for k in ('impl', 'pol', 'dlm', 'sep', 'enc', 'header', 'rows')},
                        'model': {k: exp[i][k] for k in ('text', 'err', 'none', 'delim', 'readback')},
                        'implementation': got[i]})


def replay(ctx, case):
    _a, _m, exp, got = evaluate(ctx, case['impl'], [case], False)
    ctx.count(1)
    ctx.compare([case], exp, got, THEOREM, rel=rel, corrupt=corrupt, describe=describe)
