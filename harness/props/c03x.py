# C03 helper (not a property of its own): two corners of the aggregates outside the Coq value domain, checked against a small
# harness-side specification (plain Python, the mathematical definition):
#  (1) ARRAY_AGG of a list-valued argument: one element PER RECORD (a list argument is one element, not spliced), so its length
#      equals COUNT(*) of the group - both ports;
#  (2) lower-case min / max with a single argument that is neither str nor int nor float (here: fractions.Fraction, by way of user
#      init code): still the AGGREGATE of the right kind (minimum for min, maximum for max) - Python port.
import json
from fractions import Fraction
import lib

THEOREM_NOTE = ' ; supplementary specification (harness): list-valued ARRAY_AGG arguments, non-primitive numeric types under lower-case min / max'


def spec_groups(A, keyf):
    keys = sorted(set(keyf(r) for r in A))
    return [(k, [r for r in A if keyf(r) == k]) for k in keys]


def gen_array_cases(ctx):
    r = ctx.rng
    out = []
    for _ in range(150 if ctx.tier == 'quick' else 20000):
        A = [[r.choice(['k', 'm', 'z']), r.choice(['x', 'y', 'p;q', '']), r.choice(['1', '2', 'u;v;w'])] for _ in range(r.randint(1, 6))]
        form = r.choice(['pair', 'split', 'pair_nogroup'])
        if form == 'pair':
            q = 'select a1, ARRAY_AGG([a2, a3]), COUNT(*) group by a1'
            exp = [[k, [[x[1], x[2]] for x in g], len(g)] for k, g in spec_groups(A, lambda x: x[0])]
        elif form == 'split':
            q = 'select a1, ARRAY_AGG(a3.split(";")), COUNT(*) group by a1'
            exp = [[k, [x[2].split(';') for x in g], len(g)] for k, g in spec_groups(A, lambda x: x[0])]
        else:
            q = 'select ARRAY_AGG([a1, a3]), COUNT(*)'
            exp = [[[[x[0], x[2]] for x in A], len(A)]]
        out.append({'q': q, 'qjs': q, 'A': A, 'B': None, 'exp': exp, 'part': 'c03x_array'})
    return out


def gen_fraction_cases(ctx):
    r = ctx.rng
    out = []
    for _ in range(100 if ctx.tier == 'quick' else 10000):
        A = [[r.choice(['k', 'm']), '%d/%d' % (r.randint(-5, 9), r.randint(1, 4))] for _ in range(r.randint(1, 6))]
        fn = r.choice(['min', 'max'])
        grp = r.random() < 0.6
        q = 'select %s%s(F(a2))%s' % ('a1, ' if grp else '', fn, ' group by a1' if grp else '')
        pick = min if fn == 'min' else max
        if grp:
            exp = [[k, str(pick(Fraction(x[1]) for x in g))] for k, g in spec_groups(A, lambda x: x[0])]
        else:
            exp = [[str(pick(Fraction(x[1]) for x in A))]]
        out.append({'q': q, 'A': A, 'exp': exp, 'init': 'from fractions import Fraction as F', 'part': 'c03x_fraction'})
    return out


def rows_py(g):
    if not isinstance(g, dict) or g.get('error') is not None or 'rows' not in g:
        return g
    return g['rows']


def run(ctx, theorem):
    ac = gen_array_cases(ctx)
    gp = lib.run_impl_py('c03x', ac, shards=4)
    gj = lib.run_impl_js('engine', ac, shards=4)
    exp = [c['exp'] for c in ac]
    desc = lambda c, e, g: '%s: query %r over %s: specification %s, implementation %s' % (c.get('impl'), c['q'], json.dumps(c['A']), json.dumps(e), json.dumps(g)[:400])
    ctx.compare([dict(c, impl='py') for c in ac], exp, [rows_py(g) for g in gp], theorem + THEOREM_NOTE, describe=desc)
    ctx.compare([dict(c, impl='js') for c in ac], exp, [rows_py(g) for g in gj], theorem + THEOREM_NOTE, describe=desc)
    fc = gen_fraction_cases(ctx)
    gf = lib.run_impl_py('c03x', fc, shards=4)
    ctx.compare([dict(c, impl='py') for c in fc], [c['exp'] for c in fc], [rows_py(g) for g in gf], theorem + THEOREM_NOTE, describe=desc)
    ctx.count(2 * len(ac) + len(fc))
    ctx.stat('array_agg_list_argument_cases', len(ac))
    ctx.stat('non_primitive_minmax_cases', len(fc))
    for c in ac + fc:
        if len(c['A']) > 1:
            ctx.nontriv((c['part'], c['q'], json.dumps(c['A'])))


def replay(ctx, case, theorem):
    impl = case.get('impl', 'py')
    c = {k: v for k, v in case.items() if k != 'impl'}
    g = lib.run_impl_js('engine', [c], shards=1) if impl == 'js' else lib.run_impl_py('c03x', [c], shards=1)
    ctx.count()
    ctx.compare([case], [c['exp']], [rows_py(g[0])], theorem + THEOREM_NOTE)
