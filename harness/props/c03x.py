# C03 helper (not a property of its own): two corners of the aggregates outside the Coq value domain, checked against a small
# harness-side specification (plain Python, the mathematical definition):
#  (1) ARRAY_AGG of a list-valued argument: one element PER RECORD (a list argument is one element, not spliced), so its length
#      equals COUNT(*) of the group - both ports;
#  (3) numeric strings in exponent / leading-point / explicit-sign notation under AVG - both ports;
#  (2) lower-case min / max with a single argument that is neither str nor int nor float (here: fractions.Fraction, by way of user
#      init code): still the AGGREGATE of the right kind (minimum for min, maximum for max) - Python port.
import json
from fractions import Fraction
import lib

THEOREM_NOTE = ' ; supplementary specification (harness): list-valued ARRAY_AGG arguments, non-primitive numeric types under lower-case min / max'


def spec_groups(A, keyf):
    keys = sorted(set(keyf(r) for r in A))
    return [(k, [r for r in A if keyf(r) == k]) for k in keys]


def gen_array_cases(ctx):
    r = ctx.rng
    out = []
    for _ in range(150 if ctx.tier == 'quick' else 20000):
        A = [[r.choice(['k', 'm', 'z']), r.choice(['x', 'y', 'p;q', '']), r.choice(['1', '2', 'u;v;w'])] for _ in range(r.randint(1, 6))]
        form = r.choice(['pair', 'split', 'pair_nogroup'])
        if form == 'pair':
            q = 'select a1, ARRAY_AGG([a2, a3]), COUNT(*) group by a1'
            exp = [[k, [[x[1], x[2]] for x in g], len(g)] for k, g in spec_groups(A, lambda x: x[0])]
        elif form == 'split':
            q = 'select a1, ARRAY_AGG(a3.split(";")), COUNT(*) group by a1'
            exp = [[k, [x[2].split(';') for x in g], len(g)] for k, g in spec_groups(A, lambda x: x[0])]
        else:
            q = 'select ARRAY_AGG([a1, a3]), COUNT(*)'
            exp = [[[[x[0], x[2]] for x in A], len(A)]]
        out.append({'q': q, 'qjs': q, 'A': A, 'B': None, 'exp': exp, 'part': 'c03x_array'})
    return out


def gen_fraction_cases(ctx):
    r = ctx.rng
    out = []
    for _ in range(100 if ctx.tier == 'quick' else 10000):
        A = [[r.choice(['k', 'm']), '%d/%d' % (r.randint(-5, 9), r.randint(1, 4))] for _ in range(r.randint(1, 6))]
        fn = r.choice(['min', 'max'])
        grp = r.random() < 0.6
        q = 'select %s%s(F(a2))%s' % ('a1, ' if grp else '', fn, ' group by a1' if grp else '')
        pick = min if fn == 'min' else max
        if grp:
            exp = [[k, str(pick(Fraction(x[1]) for x in g))] for k, g in spec_groups(A, lambda x: x[0])]
        else:
            exp = [[str(pick(Fraction(x[1]) for x in A))]]
        out.append({'q': q, 'A': A, 'exp': exp, 'init': 'from fractions import Fraction as F', 'part': 'c03x_fraction'})
    return out


def gen_notation_cases(ctx):
    """numeric strings in the notations both languages' conversions accept beyond plain decimals: exponent, leading point, explicit sign"""
    r = ctx.rng
    out = []
    for _ in range(100 if ctx.tier == 'quick' else 10000):
        A = [[r.choice(['k', 'm']), r.choice(['1e3', '.5', '+3', '2.5E-1', '-.25', '7', '0.5', '1E+2', ' 4 '])] for _ in range(r.randint(1, 6))]
        grp = r.random() < 0.6
        q = 'select %sAVG(a2)%s' % ('a1, ' if grp else '', ' group by a1' if grp else '')
        avg = lambda g: sum(float(x[1]) for x in g) / len(g)
        exp = [[k, avg(g)] for k, g in spec_groups(A, lambda x: x[0])] if grp else [[avg(A)]]
        out.append({'q': q, 'qjs': q, 'A': A, 'B': None, 'exp': exp, 'part': 'c03x_notation'})
    return out


def close_rows(c, e, g):
    if not isinstance(g, list) or len(g) != len(e):
        return False
    for re_, rg in zip(e, g):
        if len(re_) != len(rg):
            return False
        for x, y in zip(re_, rg):
            if isinstance(x, float):
                if isinstance(y, dict) and 'f' in y:
                    y = float.fromhex(y['f']) if isinstance(y['f'], str) else float(y['f'])
                if not isinstance(y, (int, float)) or abs(x - y) > 1e-12 * max(1.0, abs(x)):
                    return False
            elif x != y:
                return False
    return True


def rows_py(g):
    if not isinstance(g, dict) or g.get('error') is not None or 'rows' not in g:
        return g
    return g['rows']


def run(ctx, theorem):
    ac = gen_array_cases(ctx)
    gp = lib.run_impl_py('c03x', ac, shards=4)
    gj = lib.run_impl_js('engine', ac, shards=4)
    exp = [c['exp'] for c in ac]
    desc = lambda c, e, g: '%s: query %r over %s: specification %s, implementation %s' % (c.get('impl'), c['q'], json.dumps(c['A']), json.dumps(e), json.dumps(g)[:400])
    ctx.compare([dict(c, impl='py') for c in ac], exp, [rows_py(g) for g in gp], theorem + THEOREM_NOTE, describe=desc)
    ctx.compare([dict(c, impl='js') for c in ac], exp, [rows_py(g) for g in gj], theorem + THEOREM_NOTE, describe=desc)
    fc = gen_fraction_cases(ctx)
    gf = lib.run_impl_py('c03x', fc, shards=4)
    ctx.compare([dict(c, impl='py') for c in fc], [c['exp'] for c in fc], [rows_py(g) for g in gf], theorem + THEOREM_NOTE, describe=desc)
    nc = gen_notation_cases(ctx)
    gnp = lib.run_impl_py('c03x', nc, shards=4)
    gnj = lib.run_impl_js('engine', nc, shards=4)
    ctx.compare([dict(c, impl='py') for c in nc], [c['exp'] for c in nc], [rows_py(g) for g in gnp], theorem + THEOREM_NOTE, rel=close_rows, describe=desc,
                corrupt=lambda e: e + [['CANARY']])
    ctx.compare([dict(c, impl='js') for c in nc], [c['exp'] for c in nc], [rows_py(g) for g in gnj], theorem + THEOREM_NOTE, rel=close_rows, describe=desc,
                corrupt=lambda e: e + [['CANARY']])
    ctx.count(2 * len(nc))
    ctx.stat('numeric_notation_cases', len(nc))
    ctx.count(2 * len(ac) + len(fc))
    ctx.stat('array_agg_list_argument_cases', len(ac))
    ctx.stat('non_primitive_minmax_cases', len(fc))
    for c in ac + fc:
        if len(c['A']) > 1:
            ctx.nontriv((c['part'], c['q'], json.dumps(c['A'])))


def replay(ctx, case, theorem):
    impl = case.get('impl', 'py')
    c = {k: v for k, v in case.items() if k != 'impl'}
    g = lib.run_impl_js('engine', [c], shards=1) if impl == 'js' else lib.run_impl_py('c03x', [c], shards=1)
    ctx.count()
    ctx.compare([case], [c['exp']], [rows_py(g[0])], theorem + THEOREM_NOTE, rel=close_rows if c.get('part') == 'c03x_notation' else None)
