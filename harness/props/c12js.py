# c12js.py - the JavaScript leg of C12: the same statement ("records, header and warnings depend only on the content, not on how the
# stream is cut") for the rbql-js stream reader, on texts with MIXED line endings a little longer than C20's exhaustive bound: every
# partition of the bytes into chunks x two delivery modes + the bulk path against the proved reader specification (C20_bulk_is_spec =
# the specification shared with the Python reader, C18_readers_agree).  Machinery of props/c20.py; called from c12.run.
import importlib
import lib

ALPHA = ['a', 'b', '"', ',', '\n', '\r', '\r', '\n', '\r\n', '#', ' ']


def run(ctx, theorem):
    c20 = importlib.import_module('props.c20')
    rng = ctx.rng
    cfgs = c20.configs()
    cases = []
    for _ in range(160 if ctx.tier == 'quick' else 6000):
        text = ''.join(rng.choice(ALPHA) for _ in range(rng.randint(3, 7)))[:8]
        c = rng.choice(cfgs)
        cases.append(dict(c, kind='all', data=[ord(x) for x in text], encoding='utf-8', header=rng.random() < 0.3, modes=['from', 'push'], part='c12js'))
    tabs, have = c20.tables_for(cases)
    if not have:
        raise lib.CheckFailure('rbql-js csv_utils.smart_split not available: no oracle for the quoted policies')
    exp, args, model = c20.bulk_expected(cases, tabs)
    got = lib.run_impl_js('c20', cases)
    ctx.compare(cases, exp, got, theorem + ' ; rbql-js stream reader: C20_stream_is_bulk / C18_readers_agree', rel=c20.rel_all, describe=c20.describe, shrink=c20.shrink_all)
    for c in cases:
        runs = (1 << max(0, len(c['data']) - 1)) * 2 + 1
        ctx.count(runs)
        ctx.stat('js_leg_partition_runs', runs)
        ctx.nontriv(('c12js', bytes(c['data']), c['policy'], c['comment'], c['header']))
    ctx.rule += ('; JavaScript leg: %d texts of 3-8 characters over {a b " , LF CR CRLF # space} (mixed line endings) on ALL byte partitions x 2 delivery modes + bulk path through the '
                 'rbql-js reader against the reader specification') % len(cases)


def replay(ctx, case):
    c20 = importlib.import_module('props.c20')
    c20.replay(ctx, case)
