# c12js.py - the JavaScript leg of C12: the same statement ("records, header and warnings depend only on the content, not on how the
# stream is cut") for the rbql-js stream reader, on texts with MIXED line endings a little longer than C20's exhaustive bound: every
# partition of the bytes into chunks x two delivery modes + the bulk path against the proved reader specification (C20_bulk_is_spec =
# the specification shared with the Python reader, C18_readers_agree).  Machinery of props/c20.py; called from c12.run.
import importlib
import lib

ALPHA = ['a', 'b', '"', ',', '\n', '\r', '\r', '\n', '\r\n', '#', ' ']
UALPHA = ['a', '"', ',', '\n', '\r', '\r\n', '#', '\u00e9', '\u20ac', '\ufeff', 'b,c', '\n']


def run(ctx, theorem):
    c20 = importlib.import_module('props.c20')
    rng = ctx.rng
    cfgs = c20.configs()
    cases = []
    for _ in range(160 if ctx.tier == 'quick' else 6000):
        text = ''.join(rng.choice(ALPHA) for _ in range(rng.randint(3, 7)))[:8]
        c = rng.choice(cfgs)
        cases.append(dict(c, kind='all', data=[ord(x) for x in text], encoding='utf-8', header=rng.random() < 0.3, modes=['from', 'push'], part='c12js'))
    # "a leading UTF-8 BOM is dropped with a warning" and "any partition of the BYTES of its UTF-8 / latin-1 encoding": inputs that start
    # with a BOM (or with a proper prefix of one, or carry one later) followed by mixed line endings and multi-byte characters, under both
    # encodings, on ALL byte partitions - in particular the ones that cut inside the BOM, so that the first chunk is not the first line
    limit = 9 if ctx.tier == 'quick' else 11
    for _ in range(90 if ctx.tier == 'quick' else 3000):
        enc = rng.choice(['utf-8', 'binary'])
        body = [rng.choice(UALPHA) for _ in range(rng.randint(0, 5))]
        if enc == 'utf-8':
            lead = rng.choice([[0xEF, 0xBB, 0xBF]] * 4 + [[], [0xEF, 0xBB, 0xBF, 0xEF, 0xBB, 0xBF]])
        else:
            lead = rng.choice([[0xEF, 0xBB, 0xBF]] * 4 + [[0xEF], [0xEF, 0xBB], [0xBB, 0xBF], [0xEF, 0xBB, 0xBF, 0xEF, 0xBB, 0xBF]])
        while len(lead) + len(''.join(body).encode('utf-8')) > limit:
            body.pop()
        data = lead + list(''.join(body).encode('utf-8'))
        c = rng.choice(cfgs)
        cases.append(dict(c, kind='all', data=data, encoding=enc, header=rng.random() < 0.4, modifier=rng.choice([None, None, None, True, False]),
                          modes=['from', 'push'], part='c12js'))
        ctx.stat('js_leg_bom_inputs_' + enc)
    tabs, have = c20.tables_for(cases)
    if not have:
        raise lib.CheckFailure('rbql-js csv_utils.smart_split not available: no oracle for the quoted policies')
    exp, args, model = c20.bulk_expected(cases, tabs)
    got = lib.run_impl_js('c20', cases)
    ctx.compare(cases, exp, got, theorem + ' ; rbql-js stream reader: C20_stream_is_bulk / C18_readers_agree', rel=c20.rel_all, describe=c20.describe, shrink=c20.shrink_all)
    for c in cases:
        runs = (1 << max(0, len(c['data']) - 1)) * 2 + 1
        ctx.count(runs)
        ctx.stat('js_leg_partition_runs', runs)
        ctx.nontriv(('c12js', bytes(c['data']), c['policy'], c['comment'], c['header'], c['encoding'], c.get('modifier')))
    ctx.rule += ('; inputs starting with a UTF-8 BOM (or a proper prefix of one, or two) + multi-byte characters under encodings utf-8 and binary, header / query modifier on and off, '
                 'on ALL byte partitions (incl. the cuts inside the BOM)')
    ctx.rule += ('; JavaScript leg: %d texts of 3-8 characters over {a b " , LF CR CRLF # space} (mixed line endings) on ALL byte partitions x 2 delivery modes + bulk path through the '
                 'rbql-js reader against the reader specification') % len(cases)


def replay(ctx, case):
    c20 = importlib.import_module('props.c20')
    c20.replay(ctx, case)
