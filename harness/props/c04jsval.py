# C04 helper, rbql-js: JOIN on ONE key column whose cells are JavaScript VALUES, not strings - what query_table receives from a program
# (numbers with missing values, results of a division, flags): null, undefined, NaN, +Infinity, -Infinity, 0, -0, integers, fractions,
# booleans, and strings that LOOK like them ("null", "1", "NaN", "true", "").
#
# Why this module exists (mutation rehearsal, notes/s3.md, seed C04-14): the JavaScript legs of C04 (props/c19.py js_leg) carry strings
# and null cells only (the cases travel as JSON), and the typed-value probe of C19 (props/jskey.py) joins on TWO columns, where rbql-js
# keys by JSON text. The single-column path - the raw value as the key of a Map - never saw two DIFFERENT non-string values: a change
# that keys single columns by JSON text too (null, undefined, NaN and the infinities all print as "null") paired records whose keys are
# not equal and passed.
#
# Expected value: the property says "paired with every B record whose key fields all EQUAL its own". The pairing itself - B order,
# INNER drops / LEFT keeps once with nulls / STRICT LEFT fails at the first A record without exactly one partner, NR / bNR, the rows the
# rest of the query sees - is the Coq engine model's (entry 300, Join.v, C04_matches / C04_paired / C04_downstream).  The model's atoms are
# None / booleans / integers / strings, so NaN, undefined and the infinities are OUTSIDE its value domain; the tie is an injective
# relabelling: the harness states WHICH cells are equal (below: `key_class`, the only harness-side specification of this leg), gives every
# class of equal values one label string, and the model computes everything else over the relabelled tables. Pairing depends on the keys
# only through their equality pattern (C04_matches: filter by key equality), so this is the model's prediction for the original tables.
#   key_class = JavaScript strict equality `===` on primitives: same type and same value; 0 and -0 are equal; null, undefined, NaN,
#   Infinity, -Infinity are five different things; 1, "1" and true are three different things.
#   NaN === NaN is false while a Map finds a NaN key (SameValueZero); the two readings of "equal" differ there, so a case holds NaN on
#   ONE side of the join at most and every reading agrees on the expected result.
# Outputs are record numbers and string payloads only, so no non-JSON value has to travel back.
import json
import lib
import qmodel

SUFFIX = ' (rbql-js, single-column JOIN over JavaScript values: null / undefined / NaN / infinities / -0 / numbers / booleans / look-alike strings)'
S = lambda t: ['s', [ord(ch) for ch in t]]
# tagged values as in impl/jskey.js, plus ['f', num, den] for a fraction num / den
POOL_ODD = [['n'], ['undef'], ['inf', 1], ['inf', -1], ['nan']]
POOL_NUM = [['i', 0], ['nz'], ['i', 1], ['i', -1], ['i', 8], ['f', 7, 2], ['f', -1, 4], ['i', 2 ** 53]]
POOL_OTHER = [['b', True], ['b', False], S('null'), S('undefined'), S('NaN'), S('Infinity'), S('1'), S('0'), S('true'), S(''), S('[null]'), S('k')]


def key_class(x):
    """harness-side specification of `===` on these values (see the header): the canonical representative of the class of equal values"""
    if x[0] == 'nz':
        return json.dumps(['i', 0])
    if x[0] == 'f' and x[1] % x[2] == 0:
        return json.dumps(['i', x[1] // x[2]])
    return json.dumps(x)


def gen_case(ctx):
    r = ctx.rng
    pool = r.sample(POOL_ODD, r.randint(2, 5)) + r.sample(POOL_NUM, r.randint(1, 3)) + r.sample(POOL_OTHER, r.randint(0, 3))
    na, nb = r.randint(1, 2), r.randint(1, 2)
    ka, kb = r.randrange(na), r.randrange(nb)
    nan_side = r.choice('ab')                      # NaN on one side only (header)
    pa = [x for x in pool if x[0] != 'nan' or nan_side == 'a']
    pb = [x for x in pool if x[0] != 'nan' or nan_side == 'b']
    A = [[r.choice(pa) if j == ka else S('r%d' % i) for j in range(na)] + [S('p%d' % i)] for i in range(r.randint(0, 6))]
    B = [[r.choice(pb) if j == kb else S('s%d' % i) for j in range(nb)] + [S('w%d' % i)] for i in range(r.randint(0, 5))]
    kind, spelling = r.choice([('inner', 'join'), ('inner', 'inner join'), ('left', 'left join'), ('left', 'left outer join'), ('strict', 'strict left join')])
    join = {'kind': kind, 'spelling': spelling, 'lhs': [ka], 'rhs': [kb]}
    x = r.random()
    if x < 0.5:
        items = [('expr', ('NR',)), ('expr', ('bNR',))]
    elif x < 0.8:
        items = [('expr', ('fld', 'a', na)), ('expr', ('fld', 'b', nb)), ('expr', ('bNR',))]
    else:
        items = None
    if items is not None:
        qa = {'kind': ('select', items), 'where': None, 'join': join}
    else:
        qa = {'kind': ('select', [('expr', ('fld', 'a', na)), ('agg', 'COUNT', 'COUNT', ('lit', 1), 'star')]), 'where': None, 'join': join, 'group': [('fld', 'a', na)]}
    return {'part': 'c04jsval', 'impl': 'js', 'qa': qa, 'qjs': qmodel.Renderer('js', r).query(qa), 'A': A, 'B': B, 'ka': ka, 'kb': kb}


def relabel(c):
    """the two tables over the model's atoms: key cells -> the label of their class, string cells as they are"""
    labels = {}

    def cell(x, is_key):
        if not is_key:
            return ''.join(chr(u) for u in x[1])
        k = key_class(x)
        return labels.setdefault(k, 'key%d' % len(labels))
    A = [[cell(x, j == c['ka']) for j, x in enumerate(row)] for row in c['A']]
    B = [[cell(x, j == c['kb']) for j, x in enumerate(row)] for row in c['B']]
    return A, B


def evaluate(cases):
    args = []
    for c in cases:
        A, B = relabel(c)
        args.append(qmodel.enc_run(1, c['qa'], None, A, B, None))
    model = lib.run_model(300, args)
    exp = [qmodel.dec_outcome(m) for m in model]
    got = lib.run_impl_js('c04jsval', cases, shards=8)
    return args, model, exp, got


def rel(c, e, g):
    if e is None:
        return True
    if not isinstance(g, dict) or 'rows' not in g:
        return False
    if e['error'] is not None:
        return g['error'] is not None and g['error'][0] == e['error'][0] and (e['error'][1] == 0 or g['error'][1] == e['error'][1])
    if g['error'] is not None:
        return False
    return g['rows'] == [x[1] for x in e['events'] if x[0] == 'W' and x[2]]


def describe(c, e, g):
    return 'rbql-js query_table %r over A=%s B=%s (tagged JavaScript values; key columns a%d, b%d): pairing by equal keys (engine model over the relabelled keys) %s, rbql-js %s' % (
        c['qjs'], json.dumps(c['A']), json.dumps(c['B']), c['ka'] + 1, c['kb'] + 1, json.dumps(e)[:400], json.dumps(g)[:400])


def run(ctx, theorem):
    n = 400 if ctx.tier == 'quick' else 40000
    cases = [gen_case(ctx) for _ in range(n)]
    args, model, exp, got = evaluate(cases)
    ctx.compare(cases, exp, got, theorem + SUFFIX, rel=rel, describe=describe, corrupt=lambda e: {'events': [['W', ['CANARY'], True]], 'pulls': 0, 'error': None})
    ctx.cross_check_vm(300, args, model, n=15)
    ctx.count(len(cases))
    for c, e in zip(cases, exp):
        ctx.stat('jsval_join_' + c['qa']['join']['kind'])
        classes = set(key_class(row[c['ka']]) for row in c['A']) | set(key_class(row[c['kb']]) for row in c['B'])
        if sum(1 for x in POOL_ODD if json.dumps(x) in classes) >= 2:
            ctx.stat('jsval_join_two_or_more_of_null_undefined_nan_infinities')
        if e is not None and (e['error'] or any(x[0] == 'W' for x in e['events'])):
            ctx.nontriv(('c04jsval', c['qjs'], json.dumps(c['A']), json.dumps(c['B'])))
    ctx.rule += ('; rbql-js typed keys: %d single-column joins through query_table over tables whose key cells are null / undefined / NaN (one side) / +-Infinity / 0 / -0 / integers / fractions / '
                 'booleans / look-alike strings, 5 join spellings, record-number, payload and GROUP BY outputs: the engine model over an injective relabelling of the classes of `===`-equal keys' % len(cases))


def replay(ctx, case, theorem):
    args, model, exp, got = evaluate([case])
    ctx.count()
    ctx.compare([case], exp, got, theorem + SUFFIX, rel=rel, describe=describe)
