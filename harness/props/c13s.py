# C13 helper: the sqlite entry points on data that needs the RFC dialect. Cells contain line breaks (and commas, quotes), so the
# CSV text these entry points produce must be quoted_rfc (the command line's default --out-format csv is (',', 'quoted_rfc')) and
# must read back - through the reader specification over the splitter model (entry 250) - as the model's table.
import json
import lib
import qmodel

p12 = __import__('importlib').import_module('props.c12')
CELLS = ['a', 'b c', 'x,y', 'l1\nl2', 'q"r', 'tail\n', '\nhead', '', 'é\nß', '7']


def gen_cases(ctx):
    r = ctx.rng
    out = []
    for _ in range(40 if ctx.tier == 'quick' else 3000):
        hdr = r.sample(['id', 'name', 'val', 'grp'], r.randint(2, 3))
        A = [[r.choice(CELLS) for _ in hdr] for _ in range(r.randint(1, 4))]
        cols = [r.randint(0, len(hdr) - 1) for _ in range(r.randint(1, 3))]
        star = r.random() < 0.3
        q = 'select *' if star else 'select ' + ', '.join('a%d' % (k + 1) for k in cols)
        items = [('star',)] if star else [('expr', ('fld', 'a', k)) for k in cols]
        qa = {'kind': ('select', items), 'where': None, 'join': None}
        header = list(hdr) if star else [hdr[k] for k in cols]
        out.append({'q': q, 'qa': qa, 'hdr': hdr, 'A': A, 'exp_header': header, 'part': 'c13s'})
    return out


def expected(cases):
    res = lib.run_model(300, [qmodel.enc_run(0, c['qa'], None, c['A'], None, None) for c in cases])
    exp = []
    for c, m in zip(cases, res):
        o = qmodel.dec_outcome(m)
        exp.append([c['exp_header']] + [['' if v is None else str(v) for v in e[1]] for e in o['events'] if e[0] == 'W'])
    return exp


def read_back(texts):
    """quoted_rfc CSV text -> records, by the reader specification over the splitter model (entry 250)"""
    cfg = p12.cfg_sx({'policy': 'quoted_rfc', 'comment': None, 'header': False}, 'utf-8')
    res = lib.run_model(250, [lib.enc([cfg, 2, ',', t]) for t in texts])
    out = []
    for m in res:
        d = p12.dec_result(m)
        out.append(d[1] if d[0] == 'ok' and not d[3][0] and d[3][1] is None else {'unreadable': d})
    return out


def run(ctx, theorem):
    cases = gen_cases(ctx)
    exp = expected(cases)
    got = lib.run_impl_py('c13s', cases, shards=8, extra_env={'VERIF_SCRATCH': lib.BUILD}, timeout=3000)
    for name in ('sqlite_lib', 'cli_sqlite'):
        texts, ok = [], []
        for g in got:
            x = g.get(name) if isinstance(g, dict) else None
            good = isinstance(x, dict) and x.get('text') is not None and (name != 'cli_sqlite' or x.get('rc') == 0)
            ok.append(good)
            texts.append(x['text'] if good else '')
        tables = read_back(texts)
        obs = [t if good else (g.get(name) if isinstance(g, dict) else g) for t, good, g in zip(tables, ok, got)]
        ctx.compare([dict(c, entry=name) for c in cases], exp, obs, theorem + ' (sqlite entry points, RFC dialect)',
                    describe=lambda c, e, g: '%s: query %r over sqlite table %s %s: model table %s, entry point output reads back as %s' % (
                        c['entry'], c['q'], c['hdr'], json.dumps(c['A']), json.dumps(e), json.dumps(g)[:400]))
    ctx.count(2 * len(cases))
    ctx.stat('sqlite_rfc_cases', len(cases))
    run_mono(ctx, theorem)
    for c in cases:
        if any('\n' in x for row in c['A'] for x in row):
            ctx.nontriv(('c13s', c['q'], json.dumps(c['A'])))


def run_mono(ctx, theorem):
    """the monocolumn dialect through the library and the command line: one field per line, no delimiter at all"""
    r = ctx.rng
    cases = []
    for _ in range(25 if ctx.tier == 'quick' else 2000):
        lines = [r.choice(['a', 'b c', 'x,y', 'q"r', 'tab\there', '7', 'é']) for _ in range(r.randint(1, 4))]
        form = r.choice(['id', 'cat', 'where'])
        if form == 'id':
            q, qa = 'select a1', {'kind': ('select', [('expr', ('fld', 'a', 0))]), 'where': None, 'join': None}
        elif form == 'cat':
            q, qa = 'select a1 + "!"', {'kind': ('select', [('expr', ('add', ('fld', 'a', 0), ('lit', '!')))]), 'where': None, 'join': None}
        else:
            q, qa = 'select a1 where a1 != "a"', {'kind': ('select', [('expr', ('fld', 'a', 0))]), 'where': ('ne', ('fld', 'a', 0), ('lit', 'a')), 'join': None}
        cases.append({'q': q, 'qa': qa, 'lines': lines, 'part': 'c13mono'})
    res = lib.run_model(300, [qmodel.enc_run(0, c['qa'], None, [[l] for l in c['lines']], None, None) for c in cases])
    exp = []
    for m in res:
        o = qmodel.dec_outcome(m)
        exp.append(''.join(str(e[1][0]) + '\n' for e in o['events'] if e[0] == 'W'))
    got = lib.run_impl_py('c13s', cases, shards=8, extra_env={'VERIF_SCRATCH': lib.BUILD}, timeout=3000)

    def rel(c, e, g):
        if not isinstance(g, dict):
            return False
        return (g.get('lib', {}).get('text') == e and all(g.get(n, {}).get('rc') == 0 and g[n].get('text') == e for n in ('cli_file', 'cli_stdin')))
    ctx.compare(cases, exp, got, theorem + ' (monocolumn: library and command line)', rel=rel,
                describe=lambda c, e, g: 'monocolumn: query %r over lines %s: model output %r, entry points %s' % (c['q'], json.dumps(c['lines']), e, json.dumps(g)[:500]),
                corrupt=lambda e: e + 'CANARY\n')
    ctx.count(3 * len(cases))
    ctx.stat('monocolumn_cli_cases', len(cases))


def replay(ctx, case, theorem):
    if case.get('part') == 'c13mono':
        m = lib.run_model(300, [qmodel.enc_run(0, case['qa'], None, [[l] for l in case['lines']], None, None)])[0]
        o = qmodel.dec_outcome(m)
        e = ''.join(str(x[1][0]) + '\n' for x in o['events'] if x[0] == 'W')
        g = lib.run_impl_py('c13s', [case], shards=1, extra_env={'VERIF_SCRATCH': lib.BUILD})[0]
        ok = isinstance(g, dict) and g.get('lib', {}).get('text') == e and all(g.get(n, {}).get('rc') == 0 and g[n].get('text') == e for n in ('cli_file', 'cli_stdin'))
        ctx.count()
        ctx.compare([case], [e], [g], theorem, rel=lambda c, e_, g_: ok)
        return
    name = case.get('entry', 'cli_sqlite')
    c = {k: v for k, v in case.items() if k != 'entry'}
    g = lib.run_impl_py('c13s', [c], shards=1, extra_env={'VERIF_SCRATCH': lib.BUILD})[0]
    x = g.get(name) if isinstance(g, dict) else None
    obs = read_back([x['text']])[0] if isinstance(x, dict) and x.get('text') is not None else x
    ctx.count()
    ctx.compare([case], expected([c]), [obs], theorem)
