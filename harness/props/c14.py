# C14 - Errors name the first offending record; warnings appear iff the anomaly occurred.
# Model: Engine.v (per-record handler, classify, static checks, join build) + Warn.v; theorems: Props/C14.v.
# (CSV reader/writer warnings - None written, delimiter in simple output, BOM, malformed quoting - are checked with
#  the CSV models in C10 / C12; this module covers the engine, TableIterator and static checks.)
import itertools
import json
import re
import lib
import qgen
import enginecheck as ec
import importlib
c14w = importlib.import_module('props.c14w')

THEOREM = 'C14_first_offender_select / _update / C14_static_before_output / C14_field_count_warning_* (Props/C14.v)'


def poison_cases(ctx, nmax, exhaustive):
    """one poisoned record at every position k x every clause that can evaluate it"""
    r = ctx.rng
    out = []
    clauses = ['select', 'where', 'order', 'group', 'aggarg', 'aggconv', 'update_rhs', 'update_target', 'joinkey', 'none_plus', 'unnest_join']
    for n in range(1, nmax + 1):
        for k in range(1, n + 1):
            for cl in clauses:
                for variant in range(2):
                    A = [[r.choice(['k', 'm']), str(r.randint(1, 9)), r.choice(['p', 'q'])] for _ in range(n)]
                    B = None
                    poison = 'x'
                    qa = {'where': None, 'join': None}
                    bad_field = None
                    if cl == 'select':
                        qa['kind'] = ('select', [('expr', ('fld', 'a', 0)), ('expr', ('int', ('fld', 'a', 1)))])
                    elif cl == 'where':
                        qa['kind'] = ('select', [('star',)])
                        qa['where'] = ('lt', ('int', ('fld', 'a', 1)), ('lit', 5 + 5 * variant))
                    elif cl == 'order':
                        qa['kind'] = ('select', [('expr', ('fld', 'a', 0))])
                        qa['order'] = ([('int', ('fld', 'a', 1))], bool(variant))
                    elif cl == 'group':
                        qa['kind'] = ('select', [('agg', 'COUNT', 'COUNT', ('lit', 1), 'star')])
                        qa['group'] = [('int', ('fld', 'a', 1))]
                    elif cl == 'aggarg':
                        qa['kind'] = ('select', [('agg', 'MAX', 'MAX', ('int', ('fld', 'a', 1)))])
                        if variant:
                            qa['group'] = [('fld', 'a', 0)]
                    elif cl == 'aggconv':
                        # every aggregate that converts its argument to a number must fail AT the offending record (inside the loop)
                        ak = r.choice(['SUM', 'AVG', 'MIN', 'MAX', 'VARIANCE', 'MEDIAN'][variant::2])
                        qa['kind'] = ('select', [('agg', ak, ak, ('fld', 'a', 1))])
                        if r.random() < 0.4:
                            qa['group'] = [('fld', 'a', 0)]
                    elif cl == 'update_rhs':
                        qa['kind'] = ('update', [(0, ('int', ('fld', 'a', 1)))])
                    elif cl == 'update_target':
                        qa['kind'] = ('update', [(2, ('lit', 'z'))])
                        poison = None
                        bad_field = 2
                    elif cl == 'joinkey':
                        B = [['p', '1'], ['q', '2']]
                        qa['kind'] = ('select', [('expr', ('fld', 'a', 0)), ('expr', ('fld', 'b', 1))])
                        qa['join'] = {'kind': ['inner', 'left'][variant], 'spelling': ['join', 'left join'][variant], 'lhs': [2], 'rhs': [0]}
                        poison = None
                        bad_field = 2
                    elif cl == 'none_plus':
                        qa['kind'] = ('select', [('expr', ('add', ('fld', 'a', 2), ('lit', '!')))])
                        poison = None
                    elif cl == 'unnest_join':
                        # a VALID query with per-match state (UNNEST under a JOIN with two matches per record): the records before the
                        # poisoned one are written, the failure is that record's - never a parsing error in mid-run (seeded change C14-11)
                        B = [['p', '1'], ['q', '2'], ['p', '3'], ['q', '4']]
                        qa['kind'] = ('select', [('expr', ('fld', 'a', 0)), ('unnest', ('list', [('fld', 'b', 1), ('int', ('fld', 'a', 1))]), 'UNNEST')])
                        qa['join'] = {'kind': ['inner', 'left'][variant], 'spelling': ['join', 'left join'][variant], 'lhs': [2], 'rhs': [0]}
                    if poison is not None:
                        A[k - 1][1] = poison
                    else:
                        A[k - 1] = A[k - 1][:2]        # short record: a3 missing (None / bad field)
                    c = ec.make_case(r, qa, A, B, also_table=True, tags=['poison'])
                    c['poison_k'] = k
                    c['bad_field'] = bad_field
                    c['clause'] = cl
                    out.append(c)
    if not exhaustive and len(out) > 2500:
        out = r.sample(out, 2500)
    return out


def static_cases(ctx):
    r = ctx.rng
    out = []
    A = [['k', '1'], ['m', '2']]
    for _ in range(40):
        kind = r.choice(['order_update', 'group_order', 'group_update', 'except_join'])
        if kind == 'order_update':
            qa = {'kind': ('update', [(0, ('lit', 'z'))]), 'order': ([('fld', 'a', 0)], False)}
        elif kind == 'group_order':
            qa = {'kind': ('select', [('agg', 'COUNT', 'COUNT', ('lit', 1), 'star')]), 'group': [('fld', 'a', 0)], 'order': ([('fld', 'a', 0)], False)}
        elif kind == 'group_update':
            qa = {'kind': ('update', [(0, ('lit', 'z'))]), 'group': [('fld', 'a', 0)]}
        else:
            qa = {'kind': ('except', [0]), 'join': {'kind': 'inner', 'spelling': 'join', 'lhs': [0], 'rhs': [0]}}
        qa.setdefault('where', None)
        qa.setdefault('join', None)
        B = [['k', 'x']] if qa['join'] else None
        c = ec.make_case(r, qa, [list(x) for x in A], B, tags=['static'])
        out.append(c)
    return out


def warning_cases(ctx, n):
    r = ctx.rng
    g = qgen.Gen(r)
    out = []
    for _ in range(n):
        A = g.table(max_rows=7, max_cols=3, ragged_p=0.6, none_p=0.0, min_cols=1)
        A = [x if x else ['z'] for x in A]
        top = r.choice([None, None, 1, 2, 3])
        items = [('expr', ('NR',))] if r.random() < 0.5 else [('expr', ('fld', 'a', 0))]
        qa = {'kind': ('select', items), 'where': None, 'join': None, 'top': top}
        if r.random() < 0.2:
            qa['order'] = ([('NR',)], False)
        c = ec.make_case(r, qa, A, None, also_table=True, tags=['warn'])
        out.append(c)
    return out


def parse_fc_warning(ws):
    res = []
    for w in ws:
        m = re.search(r'record (\d+) -> (\d+) fields, record (\d+) -> (\d+) fields', w)
        if m:
            res.append([int(m.group(2)), int(m.group(1)), int(m.group(4)), int(m.group(3))])
        else:
            res.append(['other', w[:60]])
    return res


def rel(c, e, g):
    if not ec.engine_rel(c, e, g):
        return False
    if e is None:
        return True
    tags = c.get('tags', ())
    if 'poison' in tags:
        # property-shaped, independent of the model: the error names the planted record (and the missing field)
        err = g.get('error')
        if not err or err[0] != 'R' or err[1] != c['poison_k']:
            return False
        if c.get('bad_field') is not None and err[2] != c['bad_field']:
            return False
    if 'static' in tags:
        if not g.get('error') or g['error'][0] != 'P' or g['events'] != []:
            return False
    if 'warn' in tags and 'table' in g:
        got = parse_fc_warning(g['table']['warnings'])
        exp = c.get('_expected_warning')
        if exp is not None and got != exp:
            return False
    return True


def run(ctx):
    cases = poison_cases(ctx, 4 if ctx.tier == 'quick' else 8, ctx.tier != 'quick') + static_cases(ctx)
    wc = warning_cases(ctx, 1500 if ctx.tier == 'quick' else 200000)
    # expected field-count warning from the model (Warn.field_count_warning over the records actually pulled)
    margs = [ec.model_arg(c) for c in wc]
    mres = lib.run_model(300, margs)
    lens_args = []
    for c, m in zip(wc, mres):
        o = ec.canon_model(m)
        pulls = o['pulls'] if o else len(c['A'])
        lens_args.append(lib.enc([len(x) for x in c['A'][:pulls]]))
    wres = lib.run_model(310, lens_args)
    for c, wv in zip(wc, wres):
        c['_expected_warning'] = [] if not wv else [list(wv[0])]
        ctx.stat('warning_expected' if wv else 'no_warning_expected')
    cases += wc
    ctx.exhaustive = False
    ctx.rule = ('tables of 1-%d records with ONE poisoned record at every position k x clauses {select item, WHERE, ORDER BY, GROUP BY, aggregate argument, aggregate numeric '
                'conversion, UPDATE right-hand side, UPDATE target beyond the record, JOIN key, None + str, UNNEST under a two-match JOIN} x 2 variants: the error must be query-execution, name record k '
                '(and the field), and the trace must equal the model trace; static mistakes (ORDER BY+UPDATE, GROUP BY+ORDER BY/UPDATE, EXCEPT+JOIN): parsing error with an empty '
                'writer trace; ragged header-less tables through query_table: field-count warning (kind, numbers) = Warn.field_count_warning over the records pulled; '
                'non-trivial = distinct case with an error or a warning') % (4 if ctx.tier == 'quick' else 6)
    exp, got = ec.evaluate(ctx, cases, THEOREM, rel=rel,
                           nontrivial=lambda c, e: e['error'] is not None or bool(c.get('_expected_warning')))
    for tag in ('poison', 'static', 'warn'):
        for c, e, g_ in zip(cases, exp, got):
            if tag in c.get('tags', ()):
                ctx.sample({'kind': tag, 'query': c['q'], 'A': c['A'], 'poison_k': c.get('poison_k'), 'model_error': e and e['error'],
                            'implementation_error': g_.get('error') if isinstance(g_, dict) else g_,
                            'expected_warning': c.get('_expected_warning'),
                            'implementation_warnings': g_.get('table', {}).get('warnings') if isinstance(g_, dict) else None})
                break
    for c in cases:
        if 'poison' in c.get('tags', ()):
            ctx.stat('clause_' + c['clause'])
    # CSV level: BOM / malformed quoting / field counts (reader) and None / delimiter (writer) warnings, IO errors, through query_csv of both ports
    c14w.run(ctx, THEOREM + ' + reader spec / writer model (C12_records, C10_lossy_never_silent)')
    ctx.rule += ('; CSV level: random byte strings (BOM, quotes, ragged lines, invalid utf-8) x input policy x output policy x {select *, select *, None, select "x"} '
                 'file to file through query_csv of both ports: warning kinds == reader-spec warnings + writer-model flags exactly, output text == model lines, undecodable input == IO error')
    # static / configuration error paths of both ports against Static2.v (entry 330) - coverage gaps, notes/covgap.md
    importlib.import_module('props.cov_static').run(ctx, THEOREM)


def replay(ctx, case):
    if case.get('part') == 'cov_static':
        return importlib.import_module('props.cov_static').replay(ctx, case, THEOREM)
    if case.get('part') in ('csvwarn', 'csvcolor'):
        return c14w.replay(ctx, case, THEOREM)
    ec.replay(ctx, case, THEOREM, rel=rel)
