# C15 - Broken pipes, bad bytes and errors are handled cleanly at every point.
# Model: Engine.v (writer trace under the oracle fail_at k) + Pipe.v (CSVWriter broken_pipe logic); theorems: Props/C15.v.
# Runtime behaviour observed only (partial): TextIOWrapper buffering, the UTF-8 decoder, file descriptors.
import importlib
import json
import lib
import qgen
import qmodel
import enginecheck as ec

THEOREM = 'C15_epipe_prefix / C15_finish_noop / C15_stop_is_not_an_error (Props/C15.v) + Engine trace under fail_at k'


def r_sample(ctx, xs, k):
    return ctx.rng.sample(xs, min(k, len(xs)))


def shapes(r):
    """query shapes: streaming, sorted, aggregated, distinct-count, unnest, update, header"""
    return [
        ('streaming', {'kind': ('select', [('expr', ('fld', 'a', 0)), ('expr', ('fld', 'a', 1))]), 'where': None, 'join': None}),
        ('streaming_where', {'kind': ('select', [('star',)]), 'where': ('ne', ('fld', 'a', 0), ('lit', 'k')), 'join': None}),
        ('sorted', {'kind': ('select', [('expr', ('fld', 'a', 0))]), 'where': None, 'join': None, 'order': ([('fld', 'a', 1)], r.random() < 0.5)}),
        ('sorted_distinct_top', {'kind': ('select', [('expr', ('fld', 'a', 0))]), 'where': None, 'join': None, 'order': ([('fld', 'a', 1)], False), 'distinct': 1, 'top': 3}),
        ('aggregated', {'kind': ('select', [('expr', ('fld', 'a', 0)), ('agg', 'COUNT', 'COUNT', ('lit', 1), 'star')]), 'where': None, 'join': None, 'group': [('fld', 'a', 0)]}),
        ('distinct_count', {'kind': ('select', [('expr', ('fld', 'a', 0))]), 'where': None, 'join': None, 'distinct': 2}),
        ('unnest', {'kind': ('select', [('expr', ('fld', 'a', 0)), ('unnest', ('list', [('fld', 'a', 1), ('lit', 'u')]), 'UNNEST')]), 'where': None, 'join': None}),
        ('update', {'kind': ('update', [(1, ('add', ('fld', 'a', 1), ('lit', '!')))]), 'where': ('ne', ('fld', 'a', 0), ('lit', 'm')), 'join': None}),
        ('top', {'kind': ('select', [('expr', ('fld', 'a', 1))]), 'where': None, 'join': None, 'top': 2}),
        # joins with SEVERAL matches per input record: a refusal in the middle of a group of matches must stop the inner loop too
        ('join_multi', {'kind': ('select', [('expr', ('fld', 'a', 0)), ('expr', ('fld', 'b', 1))]), 'where': None,
                        'join': {'kind': 'inner', 'spelling': 'join', 'lhs': [0], 'rhs': [0]}}),
        ('left_join_multi', {'kind': ('select', [('expr', ('fld', 'a', 1)), ('starb',)]), 'where': None,
                             'join': {'kind': 'left', 'spelling': 'left join', 'lhs': [0], 'rhs': [0]}}),
    ]


def proto_ok(g):
    """property-shaped check of the user writer's view, independent of the model"""
    ev = g['events']
    hs = [i for i, e in enumerate(ev) if e[0] == 'H']
    if len(hs) > 1 or (hs and hs[0] != 0):
        return False
    seen_false = False
    for e in ev:
        if e[0] == 'W':
            if seen_false:
                return False
            if not e[2]:
                seen_false = True
    fs = [i for i, e in enumerate(ev) if e[0] == 'F']
    if g['error'] is None:
        return len(fs) == 1 and fs[0] == len(ev) - 1
    return len(fs) == 0 or (len(fs) == 1 and fs[0] == len(ev) - 1)


def engine_cases(ctx, n_tables):
    r = ctx.rng
    g = qgen.Gen(r)
    out = []
    for _ in range(n_tables):
        A = [[r.choice(['k', 'm', 'z']), r.choice(['a', 'b', 'c'])] for _ in range(r.randint(0, 6))]
        for name, qa in shapes(r):
            B = None
            total = len(A) * 2 + 2
            if qa.get('join'):
                B = [[r.choice(['k', 'm']), 'w%d' % i] for i in range(r.randint(0, 4))]
                total = len(A) * max(1, len(B)) + 2
            ks = list(range(0, min(total, 9))) if ctx.tier == 'quick' else list(range(0, total + 1))
            for k in [None] + ks:
                c = ec.make_case(r, dict(qa), [list(x) for x in A], None if B is None else [list(x) for x in B], fail_at=k, tags=['engine', name])
                c['mode'] = 'engine'
                out.append(c)
    return out


def pipe_cases(ctx, n_tables):
    r = ctx.rng
    out = []
    for _ in range(n_tables):
        A = [[r.choice(['k', 'm', 'z']), r.choice(['a', 'b', 'c'])] for _ in range(r.randint(0, 5))]
        for name, qa in shapes(r):
            if name in ('aggregated', 'distinct_count') or qa.get('join'):
                continue            # rows contain ints: the CSV line rendering belongs to the CSV writer model (C10)
            hdr = ['h1', 'h2'] if (r.random() < 0.5 and name in ('streaming_where', 'update')) else None   # output header = input header for * and UPDATE (C07)
            for k in range(0, 2 * (len(A) * 2 + 2) + 1):
                if ctx.tier == 'quick' and k > 9 and r.random() < 0.6:
                    continue
                c = ec.make_case(r, dict(qa), [list(x) for x in A], None, hdrA=hdr, tags=['pipe', name])
                c.update({'mode': 'pipe', 'k': k, 'close': r.random() < 0.3})
                out.append(c)
    return out


def bytes_cases(ctx):
    r = ctx.rng
    out = []
    samples = ['ab,c\nd,e\n'.encode(), 'é,ü\n世界,x\n'.encode(), 'a,\U0001F600\nb,c'.encode(), b'a,b\r\nc,d\r\n', '﻿a,b\n'.encode()]
    bad = [b'\xff', b'\x80', b'\xc3', b'\xe4\xb8', b'\xf0\x9f\x98', b'\xc0\xaf', b'\xed\xa0\x80']
    for s in samples:
        for cs in (1, 2, 3, 1024):
            out.append({'mode': 'bytes', 'bytes': list(s), 'cs': cs, 'tags': ['bytes', 'valid']})
            for pos in range(len(s) + 1):
                for b in (bad if ctx.tier != 'quick' else r.sample(bad, 2)):
                    data = s[:pos] + b + s[pos:]
                    out.append({'mode': 'bytes', 'bytes': list(data), 'cs': cs, 'tags': ['bytes', 'invalid'], 'pos': pos})
    return out


def fd_cases(ctx):
    good = list(b'a,b\n1,2\n3,4\n')
    join = list(b'1,x\n3,y\n')
    sc = [
        ('success', {'q': 'select a1, a2', 'input': good}),
        ('success_join', {'q': 'select a1, b2 join JOINFILE on a1 == b1', 'input': good, 'join': join}),
        ('parsing_error', {'q': 'select a1 select a2', 'input': good}),
        ('parsing_error_join', {'q': 'select a1 join JOINFILE on a1 === b1 where', 'input': good, 'join': join}),
        ('runtime_error', {'q': 'select int(a1)', 'input': good}),
        ('runtime_error_join', {'q': 'select int(a1), b2 join JOINFILE on a1 == b1', 'input': good, 'join': join}),
        ('io_error_bytes', {'q': 'select a1', 'input': list(b'a,b\n\xff,2\n')}),
        ('io_error_join_bytes', {'q': 'select a1, b2 join JOINFILE on a1 == b1', 'input': good, 'join': list(b'\xff\xfe,x\n3,y\n')}),
        ('io_error_join_late_bytes', {'q': 'select a1, b2 join JOINFILE on a1 == b1', 'input': good, 'join': list(b'1,x\n3,\xff\n')}),
        ('io_error_join_rfc_quoting', {'q': 'select a1, b2 join JOINFILE on a1 == b1', 'input': good, 'join': list(b'1,x"y\n3,y\n'), 'policy': 'quoted_rfc'}),
        ('io_error_input_rfc_quoting', {'q': 'select a1', 'input': list(b'a,b"c\n1,2\n'), 'policy': 'quoted_rfc'}),
        ('io_error_join_missing', {'q': 'select a1 join /nonexistent/file.csv on a1 == b1', 'input': good}),
        ('io_error_header_width', {'q': 'select distinct count a1', 'input': good, 'with_headers': True}),
        ('syntax_error', {'q': 'select a1 +', 'input': good}),
    ]
    out = []
    for name, c in sc:
        c = dict(c, mode='fd', tags=['fd', name])
        out.append(c)
    return out


def run(ctx):
    nt = 12 if ctx.tier == 'quick' else 600
    # (a) recording writer refusing its k-th write, every k, every shape: trace/pulls/error equal the model's; protocol holds
    cases = engine_cases(ctx, nt)
    args = [ec.model_arg(c) for c in cases]
    model = lib.run_model(300, args)
    exp = [ec.canon_model(m) for m in model]
    got = lib.run_impl_py('c15', cases)

    def rel_engine(c, e, g):
        if e is None:
            return True
        if not isinstance(g, dict) or 'events' not in g:
            return False
        if e['events'] != g['events'] or e['error'] != g['error'] or e['pulls'] != g['pulls']:
            return False
        if not proto_ok(g):
            return False
        if c.get('fail_at') is not None and g['error'] is not None:
            return False      # a refusing writer must not turn into an error
        return True
    ctx.compare(cases, exp, got, THEOREM, rel=rel_engine, describe=ec.describe,
                corrupt=lambda e: {'events': [['F'], ['F']], 'pulls': -1, 'error': ['CANARY', 0, None]} if e is None else dict(e, pulls=e['pulls'] + 1))
    ctx.cross_check_vm(300, args, model, n=40)
    for c, e in zip(cases, exp):
        ctx.count()
        ctx.stat('engine_' + c['tags'][1])
        if e and any(x[0] == 'W' and not x[2] for x in e['events']):
            ctx.nontriv(('engine', c['q'], json.dumps(c['A']), c['fail_at']))
            ctx.stat('engine_refused_write')
    ctx.sample_safe(lambda: {'kind': 'engine', 'query': cases[1]['q'], 'A': cases[1]['A'], 'fail_at': cases[1]['fail_at'], 'model': exp[1], 'implementation': {k: got[1].get(k) for k in ('events', 'pulls', 'error')}})

    # (b) CSVWriter over a stream raising BrokenPipeError at its k-th write
    pc = pipe_cases(ctx, nt)
    # rows the engine offers to the CSV writer when it refuses write number k//2 (header line included)
    margs = []
    for c in pc:
        margs.append(qmodel.enc_run(0, c['qa'], None, c['A'], None, None))
    mres = [ec.canon_model(m) for m in lib.run_model(300, margs)]
    pargs = []
    for c, o in zip(pc, mres):
        rows = [e[1] for e in o['events'] if e[0] == 'W']
        lines = [','.join(str(x) for x in r) for r in rows]
        c['_lines'] = lines
        c['_hdr'] = ','.join(c['hdrA']) if c.get('hdrA') else None
        pargs.append(lib.enc([c['k'], '\n', lib.Opt(c['_hdr']), lines, 1 if c['close'] else 0]))
    pres = lib.run_model(320, pargs)
    pexp = [{'accepted': [lib.dec_str(t) for t in p[0]], 'nops': p[1], 'broken': bool(p[2])} for p in pres]
    pgot = lib.run_impl_py('c15', pc)

    def rel_pipe(c, e, g):
        if not isinstance(g, dict) or 'accepted' not in g:
            return False
        if g['error'] is not None:
            return False                      # returns without error
        if g['accepted'] != e['accepted']:
            return False                      # exactly the prefix, nothing after the refused write
        if g['broken'] != e['broken'] or g['nops'] != e['nops']:
            return False
        if g['stdout_closed']:
            return False
        return True
    ctx.compare(pc, pexp, pgot, THEOREM, rel=rel_pipe,
                describe=lambda c, e, g: 'broken pipe at stream write %d: query %r over %s: model %s implementation %s' % (c['k'], c['q'], json.dumps(c['A']), json.dumps(e)[:300], json.dumps(g)[:300]),
                corrupt=lambda e: dict(e, nops=e['nops'] + 1))
    ctx.cross_check_vm(320, pargs, pres, n=30)
    for c, e in zip(pc, pexp):
        ctx.count()
        ctx.stat('pipe_' + c['tags'][1])
        if e['broken']:
            ctx.nontriv(('pipe', c['q'], json.dumps(c['A']), c['k']))
            ctx.stat('pipe_broken')
    # promptness: after the break the scan stops: pulls no larger than a run that is never refused
    ctx.sample_safe(lambda: {'kind': 'pipe', 'query': pc[3]['q'], 'A': pc[3]['A'], 'k': pc[3]['k'], 'model': pexp[3], 'implementation': pgot[3]})

    # (c) invalid UTF-8 byte sequences at every position x chunk sizes (runtime: decoder observed, not modelled)
    bc = bytes_cases(ctx)
    bgot = lib.run_impl_py('c15', bc)

    def rel_bytes(c, e, g):
        if not isinstance(g, dict) or 'valid' not in g:
            return False
        if g['valid'] != e['valid']:
            return False
        if e['valid']:
            return g['error'] is None
        return g['error'] is not None and g['error'][0] == 'IO' and g['records'] is None
    bexp = [{'valid': 'valid' in c['tags']} for c in bc]
    ctx.compare(bc, bexp, bgot, 'C15 decode clause (runtime, observed): invalid UTF-8 => IO-handling error', rel=rel_bytes,
                describe=lambda c, e, g: 'bytes %r chunk size %d: expected %s, implementation %s' % (bytes(c['bytes']), c['cs'], e, json.dumps(g)[:300]),
                corrupt=lambda e: {'valid': not e['valid']})
    for c in bc:
        ctx.count()
        ctx.stat('bytes_' + c['tags'][1])
        if 'invalid' in c['tags']:
            ctx.nontriv(('bytes', bytes(c['bytes']), c['cs']))

    # (c') the same clause for the rbql-js stream reader, over EVERY partition of the bytes into chunks (an invalid sequence may be cut
    #      anywhere, with chunks of plain ASCII in between: what a decoder holds back across a chunk boundary is still part of the input)
    jc = []
    jsamples = [b'a,b\n', 'é\n'.encode(), 'x世\n'.encode()]
    jbad = [b'\xff', b'\x80', b'\xc3', b'\xe4\xb8', b'\xc0\xaf', b'\xc3a\xa9', b'\xe4a\xb8\xad', b'\xf0\x9fab\x98\x80', b'\xc3ab,c\xa9']
    for smp in jsamples:
        jc.append({'mode': 'jsbytes', 'kind': 'all', 'data': list(smp), 'encoding': 'utf-8', 'policy': 'simple', 'delim': ',', 'comment': None, 'header': False, 'modifier': None,
                   'modes': ['from', 'push'], 'tags': ['jsbytes', 'valid']})
        for b in (jbad if ctx.tier != 'quick' else r_sample(ctx, jbad, 5)):
            for pos in sorted(set([0, len(smp) // 2, len(smp)])):
                data = smp[:pos] + b + smp[pos:]
                if len(data) > 11:
                    continue
                jc.append({'mode': 'jsbytes', 'kind': 'all', 'data': list(data), 'encoding': 'utf-8', 'policy': 'simple', 'delim': ',', 'comment': None, 'header': False,
                           'modifier': None, 'modes': ['from', 'push'], 'tags': ['jsbytes', 'invalid']})
    jgot = lib.run_impl_js('c20', jc, extra_env={'VERIF_SCRATCH': lib.BUILD})

    def rel_jsbytes(c, e, g):
        if not isinstance(g, dict) or 'stream' not in g:
            return False
        outs = [o[0] for o in g['stream']] + [g['bulk']]
        if e['valid']:
            return all(o[0] == 'ok' for o in outs)
        return all(o[0] == 'err' and 'IOHandling' in str(o[1]) for o in outs)
    jexp = [{'valid': 'valid' in c['tags']} for c in jc]
    ctx.compare(jc, jexp, jgot, 'C15 decode clause, rbql-js (C20_invalid_rejected, Props/C20.v): invalid UTF-8 => IO-handling error under every chunking', rel=rel_jsbytes,
                describe=lambda c, e, g: 'rbql-js: bytes %r over all partitions into chunks: expected %s, outcomes %s' % (bytes(c['data']), e, json.dumps(g)[:400]),
                corrupt=lambda e: {'valid': not e['valid']})
    for c in jc:
        ctx.count(2 ** max(0, len(c['data']) - 1))
        ctx.stat('jsbytes_' + c['tags'][1])
        ctx.nontriv(('jsbytes', bytes(c['data'])))

    # (b') a real pipe whose reader goes away: short and LONG outputs (the text layer buffers: the broken pipe surfaces wherever the
    #      buffer is flushed - inside a write, or in finish), consumer gone after 0 bytes, a few bytes, several buffers
    oc = []
    for n in ([3, 400, 1000, 1001, 2600] if ctx.tier == 'quick' else [0, 1, 3, 400, 999, 1000, 1001, 1024, 2600, 5000, 20000]):
        for rd in ([0, 7, 9000] if ctx.tier == 'quick' else [0, 1, 7, 4096, 8192, 9000, 70000]):
            for q, cell in (('select a1', 'r'), ('select a1, a2, NR', 'a much longer first field, so that lines fill the buffers sooner ')):
                oc.append({'mode': 'ospipe', 'n': n, 'read': rd, 'q': q, 'cell': cell, 'tags': ['ospipe']})
    ogot = lib.run_impl_py('c15', oc, shards=8)

    def full_output(c):
        if c['q'] == 'select a1':
            return ''.join('%s%d\n' % (c['cell'], i) for i in range(c['n']))
        return ''.join('%s%d,v,%d\n' % (c['cell'], i, i + 1) for i in range(c['n']))

    def rel_ospipe(c, e, g):
        if not isinstance(g, dict) or 'received' not in g:
            return False
        if g['error'] is not None or g['status'] != 0:
            return False                      # returns without error, whatever the size of the output
        full = e['full']
        return full.startswith(g['received']) and len(g['received']) == min(c['read'], len(full))
    ctx.compare(oc, [{'full': full_output(c)} for c in oc], ogot, THEOREM + ' ; real pipe: the query returns without error and the consumer holds a prefix of the output', rel=rel_ospipe,
                describe=lambda c, e, g: 'consumer of a real pipe gone after %d bytes, query %r over %d records: %s' % (c['read'], c['q'], c['n'], json.dumps({k: v for k, v in g.items() if k != 'received'} if isinstance(g, dict) else g)[:300]),
                corrupt=lambda e: {'full': 'CANARY' + e['full']})
    for c in oc:
        ctx.count()
        ctx.stat('ospipe')
        ctx.nontriv(('ospipe', c['n'], c['read'], c['q']))

    # (d) descriptor hygiene of query_csv on every outcome class (runtime, observed)
    fc = fd_cases(ctx)
    fgot = lib.run_impl_py('c15', fc, shards=1, extra_env={'VERIF_SCRATCH': lib.BUILD})
    fexp = [{'leak': 0} for _ in fc]
    ctx.compare(fc, fexp, fgot, 'C15 resource clause (runtime, observed): every file opened by query_csv is closed', rel=lambda c, e, g: isinstance(g, dict) and g.get('leak') == e['leak'],
                describe=lambda c, e, g: 'descriptor leak in scenario %s: %s' % (c['tags'][1], json.dumps(g)[:300]), corrupt=lambda e: {'leak': 1})
    for c, g in zip(fc, fgot):
        ctx.count()
        ctx.stat('fd_%s_%s' % (c['tags'][1], (g.get('error') or ['ok'])[0] if isinstance(g, dict) else 'x'))
        ctx.nontriv(('fd', c['tags'][1]))
    ctx.sample_safe(lambda: {'kind': 'fd', 'scenarios': [[c['tags'][1], g] for c, g in zip(fc, fgot)][:4]})
    ctx.rule = ('(a) recording writer refusing its k-th write for every k x 9 query shapes x random tables: trace/pulls/error = model, protocol checked on the implementation trace; '
                '(b) CSVWriter over a stream raising BrokenPipeError at its k-th write for every k: accepted text = model prefix, no operation after the refusal, no error, sys.stdout left open; '
                '(c) 7 invalid UTF-8 sequences at every byte position of 5 samples x chunk sizes {1,2,3,1024}: IO-handling error and no records; the same through the rbql-js stream reader over ALL partitions of the bytes into chunks and the bulk path (9 invalid sequences, also a character cut in two by plain ASCII); '
                '(b2) a real OS pipe whose reader goes away after 0 / 7 / 9000 bytes, outputs of 3 to 2600 lines (thorough: to 20000) written through the usual buffered text stream in a child process: no error, the bytes received are a prefix of the output; (d) /proc/self/fd before/after query_csv on 14 '
                'success/parsing/runtime/IO/syntax scenarios (every file object opened by the front-end is tracked and must be closed); non-trivial = distinct case with a refused write / broken pipe / invalid byte / any fd scenario')

    # (c2)/(c3) the decode clause by KIND of malformed sequence through every reading path of both ports (bulk / stream / iterator) and with
    #           the table on the standard input under every codec / error handler sys.stdin may carry (props/c15dec.py)
    importlib.import_module('props.c15dec').run(ctx)

def replay(ctx, case):
    if case.get('part') == 'c15dec':
        return importlib.import_module('props.c15dec').replay(ctx, case)
    mode = case.get('mode')
    if mode == 'engine':
        e = ec.canon_model(lib.run_model(300, [ec.model_arg(case)], shards=1)[0])
        g = lib.run_impl_py('c15', [case], shards=1)[0]
        ctx.count()
        ctx.compare([case], [e], [g], THEOREM, rel=lambda c, e_, g_: e_ is None or (isinstance(g_, dict) and e_['events'] == g_.get('events') and e_['error'] == g_.get('error') and e_['pulls'] == g_.get('pulls') and proto_ok(g_)), describe=ec.describe)
    elif mode == 'jsbytes':
        g = lib.run_impl_js('c20', [case], shards=1, extra_env={'VERIF_SCRATCH': lib.BUILD})[0]
        ctx.count()
        valid = 'valid' in case['tags']
        outs = ([o[0] for o in g['stream']] + [g['bulk']]) if isinstance(g, dict) and 'stream' in g else [['?']]
        ok = all(o[0] == 'ok' for o in outs) if valid else all(o[0] == 'err' and 'IOHandling' in str(o[1]) for o in outs)
        ctx.compare([case], [{'valid': valid}], [g], THEOREM, rel=lambda c, e_, g_: ok and e_ == {'valid': valid})
    elif mode == 'ospipe':
        g = lib.run_impl_py('c15', [case], shards=1)[0]
        ctx.count()
        full = (''.join('%s%d\n' % (case['cell'], i) for i in range(case['n'])) if case['q'] == 'select a1'
                else ''.join('%s%d,v,%d\n' % (case['cell'], i, i + 1) for i in range(case['n'])))
        ok = (isinstance(g, dict) and g.get('error') is None and g.get('status') == 0 and full.startswith(g.get('received', 'x'))
              and len(g['received']) == min(case['read'], len(full)))
        ctx.compare([case], [{'full': full}], [g], THEOREM, rel=lambda c, e_, g_: ok and e_ == {'full': full})
    else:
        g = lib.run_impl_py('c15', [case], shards=1)[0]
        ctx.count()
        if mode == 'pipe':
            p = lib.run_model(320, [lib.enc([case['k'], '\n', lib.Opt(case.get('_hdr')), case['_lines'], 1 if case['close'] else 0])], shards=1)[0]
            e = {'accepted': [lib.dec_str(t) for t in p[0]], 'nops': p[1], 'broken': bool(p[2])}
            ok = isinstance(g, dict) and g.get('error') is None and g.get('accepted') == e['accepted'] and g.get('nops') == e['nops'] and g.get('broken') == e['broken']
        elif mode == 'bytes':
            e = {'valid': 'valid' in case['tags']}
            ok = isinstance(g, dict) and g.get('valid') == e['valid'] and ((g['error'] is None) if e['valid'] else (g['error'] is not None and g['error'][0] == 'IO'))
        else:
            e = {'leak': 0}
            ok = isinstance(g, dict) and g.get('leak') == 0
        ctx.compare([case], [e], [g], THEOREM, rel=lambda c, e_, g_: ok and e_ == e)
