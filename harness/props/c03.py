# C03 - Aggregates / GROUP BY: one exact result row per group, in key order.
# Model: Agg.v + Engine.v (select_aggregated, AggregateWriter); theorems: Props/C03.v.
import itertools
import importlib
import lib
import qgen
import enginecheck as ec

THEOREM = 'C03_streaming_is_batch / C03_one_row_per_group (Props/C03.v): aggregate rows = per-group folds in key order'

SPELL = {
    'MIN': ['MIN', 'Min', 'min'], 'MAX': ['MAX', 'Max', 'max'], 'SUM': ['SUM', 'Sum', 'sum'], 'AVG': ['AVG', 'Avg', 'avg'],
    'VARIANCE': ['VARIANCE', 'Variance', 'variance'], 'MEDIAN': ['MEDIAN', 'Median', 'median'],
    'COUNT': ['COUNT', 'Count', 'count'], 'ARRAY_AGG': ['ARRAY_AGG', 'array_agg'], 'ANY_VALUE': ['ANY_VALUE', 'Any_value', 'any_value'],
}

BIGCELLS = ['9007199254740993', '9007199254740992', '1696118400123456789', '1696118400123456791', '-9007199254740995', '3', '18014398509481985', '1696118400123456790']


def gen_case(ctx, g):
    r = ctx.rng
    ngroup = r.randint(1, 2)
    nnum = r.randint(1, 2)
    nrows = r.randint(0, 8)
    numcells = qgen.INTCELLS if r.random() < 0.4 else qgen.NUMCELLS
    bigmode = r.random() < 0.12
    if bigmode:
        # integer strings beyond 2**53 (timestamps in ns, 64-bit ids): MIN/MAX/SUM/MEDIAN/AVG are the mathematical values, never
        # the values after a detour through a double
        numcells = BIGCELLS
    A = []
    for _ in range(nrows):
        row = [r.choice(['k', 'm', 'k2'][:r.randint(1, 3)]) for _ in range(ngroup)] + [r.choice(numcells) for _ in range(nnum)]
        if r.random() < 0.04:
            row[ngroup] = r.choice(['x', '', '1.2.3'])       # poisoned: conversion error
        A.append(row)
    group = None
    if r.random() < 0.75:
        gcols = r.sample(range(ngroup), r.randint(1, ngroup))
        group = [('fld', 'a', c) for c in gcols]
        if r.random() < 0.3:
            # numeric key components (integers of different widths and signs: numeric, not textual, order)
            A = [row + [r.choice(['2', '10', '100', '9', '-1', '-10', '0'])] for row in A]
            numkey = ('int', ('fld', 'a', ngroup + nnum))
            group = [numkey] if r.random() < 0.5 else group + [numkey]
            if r.random() < 0.5:
                group[-1] = ('add', numkey, ('len', ('fld', 'a', 0)))
    items = []
    approx = False
    for _ in range(r.randint(1, 4)):
        x = r.random()
        if x < 0.7:
            kind = r.choice(qgen.AGGS)
            sp = r.choice(SPELL[kind])
            col = ngroup + r.randint(0, nnum - 1)
            arg = ('fld', 'a', col)
            if kind in ('COUNT', 'ARRAY_AGG', 'ANY_VALUE') and r.random() < 0.4:
                arg = r.choice([('fld', 'a', 0), ('NR',), ('add', ('fld', 'a', 0), ('lit', 'z'))])
            elif r.random() < 0.15:
                arg = r.choice([('NR',), ('len', ('fld', 'a', col)), ('int', ('fld', 'a', col))])
            elif r.random() < 0.06:
                # a lower-case builtin call (one iterable / several arguments) as the ARGUMENT of an aggregate: a per-record number
                arg = r.choice([('bsuml', ('list', [('len', ('fld', 'a', col)), ('lit', 2)])), ('bmaxl', ('list', [('len', ('fld', 'a', col)), ('lit', 2)])),
                                ('bminl', ('list', [('len', ('fld', 'a', 0)), ('NR',)])), ('bmax', [('len', ('fld', 'a', col)), ('lit', 2)])])
            it = ('agg', kind, sp, arg)
            if kind == 'COUNT' and r.random() < 0.4:
                it = ('agg', 'COUNT', sp, ('lit', 1), 'star')
            if kind == 'VARIANCE':
                approx = True
            items.append(it)
        elif x < 0.78:
            # lower-case min / max / sum in their builtin meaning: several arguments, or one list argument
            g0 = ('fld', 'a', r.randint(0, ngroup - 1))
            form = r.choice([('bmax', [g0, ('lit', r.choice(['l', 'zz', 'a']))]), ('bmin', [g0, ('lit', 'l'), g0]),
                             ('bmaxl', ('list', [g0, ('lit', 'k1')])), ('bminl', ('list', [g0, g0])), ('bsuml', ('list', [('len', g0), ('lit', 2), ('lit', 3)])),
                             ('bmax', [('len', g0), ('lit', 2)]), ('bsuml', ('list', [])), ('bmaxl', ('list', [])), ('bmax', [g0, ('lit', 1)])])
            items.append(('expr', form))
        elif x < 0.9:
            items.append(('expr', ('fld', 'a', r.randint(0, ngroup - 1))))
        else:
            items.append(('expr', ('lit', r.choice(['c', 7]))))
    if bigmode and any(it[0] == 'agg' and it[1] in ('AVG', 'VARIANCE') for it in items):
        # (AVG and VARIANCE accumulate in doubles by design - NumHandler(False) - so beyond 2**53 they are the double-arithmetic
        #  values, not the exact ones: observation O19 in DESIGN.md; compared on exactly representable data only)
        A = [[(qgen.INTCELLS[BIGCELLS.index(c)] if c in BIGCELLS else c) for c in row] for row in A]
    if r.random() < 0.15 and A:
        # a non-aggregate column over a field that some records lack (None): constant within a group only if ALL its records
        # agree, None included - in particular None first and a value later is NOT constant
        extra = max(len(row) for row in A)
        vals = r.choice([['x'], ['x', 'y']])
        A = [row + ([r.choice(vals)] if r.random() < 0.6 else []) for row in A]
        items.insert(r.randint(0, len(items)), ('expr', ('fld', 'a', extra)))
    where = None
    if r.random() < 0.3:
        where = ('ne', ('fld', 'a', 0), ('lit', 'm')) if r.random() < 0.7 else ('lt', ('NR',), ('lit', r.randint(0, 6)))
    top = r.randint(0, 3) if r.random() < 0.2 else None
    B, join = None, None
    if r.random() < 0.12:
        # aggregates over a JOIN: every (a, b) pair is one record of the group (inner / left / strict left; a b-field as argument sometimes)
        nb = r.randint(1, 2)
        B = g.rect_table(r.randint(0, 4), nb, ['k', 'm', 'k2', '1'])
        join = g.join({'na': ngroup, 'nb': nb}, nkeys=1)
        if join['kind'] != 'left' and r.random() < 0.4:
            items.append(('agg', 'COUNT', 'COUNT', ('fld', 'b', 0)))
    qa = {'kind': ('select', items), 'where': where, 'join': join, 'group': group, 'top': top, 'top_spelling': r.choice(['top', 'limit'])}
    if r.random() < 0.05:
        qa['distinct'] = 1            # misuse: DISTINCT in an aggregate query -> parsing error at the first passing record
    if r.random() < 0.04 and group is None:
        qa['order'] = ([('fld', 'a', 0)], False)    # misuse: ORDER BY with aggregates
    if any(it[0] == 'agg' and it[2] == 'sum' for it in items):
        # builtin sum('') == 0: lower-case sum keeps its builtin meaning on an (empty) iterable; outside the modelled fragment
        A = [[('x' if c == '' else c) for c in row] for row in A]
    # COUNT(*) is only rewritten at the start of the select list or after a comma: always true for a rendered item
    c = ec.make_case(r, qa, A, B, also_table=True, tags=['approx'] if approx else [])
    # the single-iterable builtin forms spelled with every kind of iterable (tuple, iter, generator expression, map, filter, reversed, zip ...)
    return importlib.import_module('props.c03lazy').respell(ctx, c)


def exhaustive_cases(ctx, limit):
    """all tables of <= 3 rows over group {k,m} x value {1,2,2.5}, every single aggregate, with and without GROUP BY"""
    rows = [[k, v] for k in 'km' for v in ('1', '2', '2.5')]
    tables = [list(t) for n in range(0, 4) for t in itertools.product(rows, repeat=n)]
    combos = []
    for kind in qgen.AGGS:
        for grp in (None, [('fld', 'a', 0)]):
            for extra in ([], [('expr', ('fld', 'a', 0))]):
                combos.append((kind, grp, extra))
    allc = list(itertools.product(range(len(tables)), range(len(combos))))
    if limit is not None and len(allc) > limit:
        allc = ctx.rng.sample(allc, limit)
    out = []
    for ti, ci in allc:
        kind, grp, extra = combos[ci]
        qa = {'kind': ('select', extra + [('agg', kind, kind, ('fld', 'a', 1))]), 'where': None, 'join': None, 'group': grp}
        out.append(ec.make_case(None, qa, [list(x) for x in tables[ti]], None, tags=['approx'] if kind == 'VARIANCE' else []))
    return out


def run(ctx):
    g = qgen.Gen(ctx.rng)
    n = 4000 if ctx.tier == 'quick' else 500000
    cases = [gen_case(ctx, g) for _ in range(n)]
    cases += exhaustive_cases(ctx, 2500 if ctx.tier == 'quick' else None)
    ctx.rule = ('aggregate queries: 1-4 items mixing the 9 aggregates (upper/capitalised/lower spellings, COUNT(*), expression arguments), group keys and constants; '
                'GROUP BY over 0-2 keys; WHERE 30%%; TOP/LIMIT 20%%; numeric-string columns (ints and dyadic decimals), 4%% poisoned cells, misuse (DISTINCT / ORDER BY) 9%%; '
                'bounded enumeration: all tables <= 3 rows over {k,m} x {1,2,2.5} x 9 aggregates x GROUP BY on/off x const column on/off (%s). '
                'Floats compared bit-exactly with float(Fraction) except VARIANCE (relative 1e-6). non-trivial = distinct case with >= 1 output row or an error') % ('sampled' if ctx.tier == 'quick' else 'complete')
    exp, got = ec.evaluate(ctx, cases, THEOREM)
    for c, e, g_ in list(zip(cases, exp, got))[:3]:
        ctx.sample({'query': c['q'], 'A': c['A'], 'model': e, 'implementation': {k2: g_.get(k2) for k2 in ('events', 'pulls', 'error')} if isinstance(g_, dict) else g_})
    # corners outside the Coq value domain, against a harness-side specification
    importlib.import_module('props.c03x').run(ctx, THEOREM)
    # which strings are numbers: NumLit.v against int / float / Number and against MAX(a1) of both engines
    importlib.import_module('props.numlit').run(ctx)
    # rbql-js/rbql.js is an anchor of this property too: the JavaScript leg runs language-neutral queries of this shape through rbql-js
    importlib.import_module('props.c19').js_leg(ctx, THEOREM, 'agg', 600 if ctx.tier == 'quick' else 60000)
    # recorded finding F4: a null GROUP BY key in rbql-js (KNOWN-FINDING while it reproduces)
    importlib.import_module('props.nullkeys').run(ctx, THEOREM, 'C03')


def replay(ctx, case):
    if case.get('part') == 'nullkeys':
        return importlib.import_module('props.nullkeys').replay(ctx, case, THEOREM, 'C03')
    if str(case.get('part', '')).startswith('c03x'):
        return importlib.import_module('props.c03x').replay(ctx, case, THEOREM)
    if case.get('part') == 'numlit':
        return importlib.import_module('props.numlit').replay(ctx, case)
    if case.get('impl') == 'js':
        return importlib.import_module('props.c19').replay(ctx, case)
    ec.replay(ctx, case, THEOREM)
