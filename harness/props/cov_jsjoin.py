# cov_jsjoin.py - C04 / C19 / C13 / C09 helper (coverage gaps of the correspondence runs, notes/covgap.md): the JavaScript join legs
# that had no run at all.
#   engine  : rbql-js joins over RAGGED tables - a B record lacking a KEY field (query-execution error naming the B record, single and
#             multi-key maps), an A record lacking its key field (error naming the A record and the field) - through rbql.query with the
#             pull-counting iterator of impl/engine.js; expectation = the engine model (entry 300, C04_* / C14_join_build_error).
#   csvjoin : rbql-js query_csv with a JOIN against a second CSV file (FileSystemCSVRegistry): the file named relative to the input
#             file's directory or by absolute path, bulk_read on / off, with / without headers (then a.name / a["name"] / b.name
#             variables, the header line never data, the "first record of the JOIN file treated as header" warning exactly then), a
#             missing join file (IO-handling error); expectation = the engine model on the two tables.
import importlib
import json
import lib
import qmodel

PART = 'cov_jsjoin'
KEYS = ['k', 'm', 'z', '1', '']


def c19():
    return importlib.import_module('props.c19')


# ------------------------------------------------------------------ engine level: ragged tables under a join

def engine_cases(ctx, n):
    r = ctx.rng
    out = []
    for _ in range(n):
        na, nb = r.randint(2, 3), r.randint(2, 3)
        A = [[r.choice(KEYS) for _ in range(na)] for _ in range(r.randint(1, 5))]
        B = [[r.choice(KEYS) for _ in range(nb)] for _ in range(r.randint(1, 5))]
        nkeys = r.choice([1, 1, 2])
        kind, spelling = r.choice([('inner', 'join'), ('inner', 'inner join'), ('left', 'left join'), ('left', 'left outer join'), ('strict', 'strict left join')])
        lhs = [r.randint(0, na - 1) for _ in range(nkeys)]
        rhs = [r.randint(0, nb - 1) for _ in range(nkeys)]
        if nkeys == 2 and r.random() < 0.3:
            rhs[r.randrange(2)] = None          # bNR as a key component next to a field
        what = r.choice(['b_short', 'b_short', 'a_short', 'a_short', 'both', 'none', 'none', 'none', 'none'])
        fields_b = [x for x in rhs if x is not None]
        if what in ('b_short', 'both') and fields_b:
            i = r.randrange(len(B))
            B[i] = B[i][:r.randint(0, max(fields_b))]          # lacks (at least) the highest key field
        if what in ('a_short', 'both'):
            i = r.randrange(len(A))
            A[i] = A[i][:r.randint(0, max(lhs))]
        items = [('expr', ('fld', 'a', r.choice(lhs))), ('expr', ('fld', 'b', r.choice(fields_b) if fields_b else 0))]
        if r.random() < 0.4:
            items.append(('expr', ('bNR',)))
        qa = {'kind': ('select', items), 'where': None, 'join': {'kind': kind, 'spelling': spelling, 'lhs': lhs, 'rhs': rhs}}
        if r.random() < 0.25:
            qa['kind'] = ('update', [(r.choice(lhs), ('lit', 'w'))])
            if kind == 'strict':
                qa['join']['kind'], qa['join']['spelling'] = 'left', 'left join'
        c = {'qa': qa, 'A': A, 'B': B, 'tags': [], 'part': PART, 'kind': 'engine', 'impl': 'js', 'what': what}
        c['qjs'] = qmodel.Renderer('js', r).query(qa)
        c['q'] = c['qjs']
        out.append(c)
    return out


# ------------------------------------------------------------------ query_csv with a join file

def csv_cases(ctx, n, names_only=False):
    r = ctx.rng
    out = []
    for i in range(n):
        with_headers = names_only or r.random() < 0.5
        A = [[r.choice(['k', 'm', 'z']), str(r.randint(1, 9))] for _ in range(r.randint(0, 5))]
        B = [[r.choice(['k', 'm', 'y']), 'w%d' % j] for j in range(r.randint(0, 5))]
        hdrA, hdrB = ['ka', 'na'], ['kb', 'wb']
        kind, spelling = r.choice([('inner', 'join'), ('inner', 'inner join'), ('left', 'left join'), ('strict', 'strict left join')])
        items = [('expr', ('fld', 'a', 1)), ('expr', ('fld', 'b', 1))]
        bnr = (not with_headers) and r.random() < 0.5
        if bnr:
            items.append(('expr', ('bNR',)))
        qa = {'kind': ('select', items), 'where': None, 'join': {'kind': kind, 'spelling': spelling, 'lhs': [0], 'rhs': [0]}}
        where = r.random() < 0.3
        if where:
            qa['where'] = ('ne', ('fld', 'a', 1), ('lit', '5'))
        names = with_headers and (names_only or r.random() < 0.7)          # column-name variables from the CSV header lines (C09's CSV source, rbql-js)
        if names:
            a2, b2, a1, b1 = r.choice(['a.na', 'a["na"]', "a['na']"]), r.choice(['b.wb', 'b["wb"]']), r.choice(['a.ka', 'a["ka"]']), r.choice(['b.kb', "b['kb']"])
        else:
            a2, b2, a1, b1 = 'a2', 'b2', 'a1', 'b1'
        on = '%s == %s' % ((a1, b1) if r.random() < 0.7 else (b1, a1))
        q = 'select %s, %s%s %s @JOIN@ on %s%s' % (a2, b2, ', bNR' if bnr else '', spelling, on, (' where %s != "5"' % a2) if where else '')
        missing = r.random() < 0.08
        nojoin = r.random() < (0.5 if names_only else 0.15)
        if nojoin:
            # the input file alone: a.name / a["name"] from its header line, NR counts data records
            qa = dict(qa, join=None, kind=('select', [('expr', ('fld', 'a', 1)), ('expr', ('fld', 'a', 0)), ('expr', ('NR',))]))
            q = 'select %s, %s, NR%s' % (a2, a1, (' where %s != "5"' % a2) if where else '')
            missing, bnr = False, False
        c = {'part': PART, 'kind': 'csvjoin', 'impl': 'js', 'qjs': q, 'q': q, 'qa': qa, 'A': A, 'B': B, 'with_headers': with_headers,
             'hdrA': hdrA if with_headers else None, 'hdrB': hdrB if with_headers else None,
             'in_lines': ([','.join(hdrA)] if with_headers else []) + [','.join(x) for x in A],
             'join_lines': None if missing else ([','.join(hdrB)] if with_headers else []) + [','.join(x) for x in B],
             'join_name': r.choice(['jt.csv', 'second.tsv', 'J2']), 'join_abs': r.random() < 0.4, 'bulk': r.random() < 0.5, 'missing': missing, 'nojoin': nojoin}
        out.append(c)
    return out


def csv_expected(cases):
    res = lib.run_model(300, [qmodel.enc_run(1, c['qa'], None, c['A'], c['B'], None) for c in cases])
    exp = []
    for c, m in zip(cases, res):
        o = qmodel.dec_outcome(m)
        if c['missing']:
            exp.append({'rows': None, 'error': ['IO', 0, None], 'warnings': None, 'header': None})
            continue
        if o['error'] is not None:
            exp.append({'rows': None, 'error': o['error'], 'warnings': None, 'header': None})
            continue
        rows = [['' if v is None else str(v) for v in e[1]] for e in o['events'] if e[0] == 'W']
        warns = []
        if c['with_headers'] and not c.get('nojoin'):
            warns.append('join_header')
        if any(v is None for e in o['events'] if e[0] == 'W' for v in e[1]):
            warns.append('null_output')
        exp.append({'rows': rows, 'error': None, 'warnings': sorted(warns),
                    'header': (['na', 'ka', 'NR'] if c.get('nojoin') else ['na', 'wb']) if c['with_headers'] else None})
    return res, exp


def csv_rel(c, e, g):
    if not isinstance(g, dict) or 'error' not in g:
        return False
    if e['error'] is not None:
        return g['error'] is not None and g['error'][0] == e['error'][0] and (e['error'][1] == 0 or g['error'][1] == e['error'][1])
    return (g['error'] is None and g['rows'] == e['rows'] and g['warnings'] == e['warnings'] and g['header'] == e['header']
            and g.get('sources_ok') is True)


def csv_describe(c, e, g):
    return 'rbql-js query_csv %r (join file %s%s, bulk_read %s, headers %s) over input lines %s and JOIN file lines %s: engine model on the two tables %s, rbql-js %s' % (
        c['qjs'], c['join_name'], ' by absolute path' if c['join_abs'] else ' next to the input file', c['bulk'], c['with_headers'],
        json.dumps(c['in_lines']), json.dumps(c['join_lines']), json.dumps(e), json.dumps(g)[:400])


def run_engine(ctx, theorem, n):
    m = c19()
    ecases = engine_cases(ctx, n)
    args, model, exp, got = m.evaluate(ctx, ecases)
    ctx.compare(ecases, exp, got, theorem + ' ; C14_join_build_error (rbql-js, ragged tables under a join)', rel=m.rel, describe=m.describe,
                corrupt=lambda e: {'events': [['W', ['CANARY'], True]], 'pulls': 0, 'error': None})
    for c, e in zip(ecases, exp):
        if e is None:
            ctx.stat('covjsjoin_dropped_unmodelled')
            continue
        ctx.stat('covjsjoin_engine_' + ('error_%s%s' % (e['error'][0], '_B' if e['error'][2] == 'B' else '') if e['error'] else 'ok'))
        ctx.nontriv((PART, c['qjs'], json.dumps(c['A']), json.dumps(c['B'])))
    ctx.count(len(ecases))
    ctx.rule += ('; rbql-js joins over ragged tables (props/cov_jsjoin.py): %d queries - a B / A record lacking a key field, 1-2 keys, bNR components, UPDATE - against the engine model '
                 '(error class and record number, rows)') % len(ecases)
    return ecases


def run(ctx, theorem):
    ecases = run_engine(ctx, theorem, 400 if ctx.tier == 'quick' else 40000)
    ccases = csv_cases(ctx, 160 if ctx.tier == 'quick' else 8000)
    craw, cexp = csv_expected(ccases)
    cgot = lib.run_impl_js('cov_jsjoin', ccases, shards=8, extra_env={'VERIF_SCRATCH': lib.BUILD})
    ctx.compare(ccases, cexp, cgot, theorem + ' (rbql-js query_csv, JOIN against a second CSV file)', rel=csv_rel, describe=csv_describe,
                corrupt=lambda e: {'rows': [['CANARY']], 'error': None, 'warnings': ['CANARY'], 'header': ['CANARY']})
    for c, e in zip(ccases, cexp):
        ctx.stat('covjsjoin_csv_%s_%s_%s' % ('abs' if c['join_abs'] else 'rel', 'bulk' if c['bulk'] else 'stream', 'hdr' if c['with_headers'] else 'nohdr'))
        if c['missing']:
            ctx.stat('covjsjoin_csv_missing_file')
        ctx.nontriv((PART, c['qjs'], json.dumps(c['in_lines']), json.dumps(c['join_lines']), c['join_abs'], c['bulk']))
    ctx.count(len(ccases))
    ctx.rule += ('; %d rbql-js query_csv runs with a JOIN against a second CSV file (relative / absolute path x bulk_read x headers x column-name variables x missing '
                 'file): rows, header, warning kinds and error class == engine model on the two tables, both files unchanged') % len(ccases)


def run_names(ctx, theorem, n):
    """C09's CSV source for rbql-js: a.name / a["name"] / b.name bound through the header LINES of the input and join files"""
    ccases = csv_cases(ctx, n, names_only=True)
    craw, cexp = csv_expected(ccases)
    cgot = lib.run_impl_js('cov_jsjoin', ccases, shards=8, extra_env={'VERIF_SCRATCH': lib.BUILD})
    ctx.compare(ccases, cexp, cgot, theorem + ' (rbql-js query_csv: column-name variables from CSV header lines)', rel=csv_rel, describe=csv_describe,
                corrupt=lambda e: {'rows': [['CANARY']], 'error': None, 'warnings': ['CANARY'], 'header': ['CANARY']})
    ctx.count(len(ccases))
    ctx.stat('covjsjoin_csv_header_name_cases', len(ccases))
    for c in ccases:
        ctx.nontriv((PART, c['qjs'], json.dumps(c['in_lines']), json.dumps(c['join_lines']), c['join_abs'], c['bulk']))
    ctx.rule += '; rbql-js query_csv with headers: %d queries spelling columns as a.name / a["name"] / b.name over an input (and join) CSV file against the engine model (header line never data, NR from 1)' % len(ccases)


def replay(ctx, case, theorem):
    if case.get('kind') == 'csvjoin':
        _r, exp = csv_expected([case])
        got = lib.run_impl_js('cov_jsjoin', [case], shards=1, extra_env={'VERIF_SCRATCH': lib.BUILD})
        ctx.count()
        ctx.compare([case], exp, got, theorem, rel=csv_rel, describe=csv_describe)
        return
    m = c19()
    c = {k: v for k, v in case.items() if k not in ('impl', 'part')}
    args, model, exp, got = m.evaluate(ctx, [c])
    ctx.count()
    ctx.compare([case], exp, got, theorem, rel=m.rel, describe=m.describe)
