# C06 - No query ever modifies its sources (RBQL is non-destructive).
# Theorems: Props/C06.v (sqlite identifier whitelist, only SELECT is ever sent). The list/dataframe/file clause is
# correspondence only (partial): deep snapshot + object identity of every row, dataframe equality + dtypes, file hashes + mtime,
# sqlite file hash + trace of every SQL statement compared with the model's sql_of_query.
import importlib
import json
import lib
import qgen
import enginecheck as ec

THEOREM = 'C06_only_select / C06_sqlite_identifier (Props/C06.v); sources-unchanged clause: correspondence (snapshots, identity, hashes, SQL trace)'

HOSTILE = ['b; drop table t1', 'b;drop', '"b"', 'b--', 'b\n', 'b\x00', 'bé', 't1;', "b'", 'b b', '(b)', 'b/*x*/', '`b`', '[b]', 'b,t1', 'B', 'b', 't1', 'nosuch', '_b1', '']


def list_cases(ctx, n):
    out = []
    for name in ('c01', 'c02', 'c03', 'c04', 'c05'):
        mod = importlib.import_module('props.' + name)
        g = qgen.Gen(ctx.rng)
        for _ in range(n):
            c = mod.gen_case(ctx, g)
            c['mode'] = 'list'
            c['tags'] = list(c.get('tags', [])) + ['list', name]
            out.append(c)
    return out


def rect(ctx, nrows, ncols):
    return [[ctx.rng.choice(['a', 'b', '1', '2', 'k']) for _ in range(ncols)] for _ in range(nrows)]


QUERIES = ['select *', 'select a1, a2 where a1 != "a"', 'update a1 = a2, a2 = a1', 'update set a2 = a1 + "x" where a1 == "a"',
           'select distinct a1 order by a2 desc', 'select a1, count(*) group by a1', 'select top 2 * , NR', 'select a1, b2 join b on a1 == b1',
           'update a2 = b2 join b on a1 == b1', 'select a.* , b.* left join b on a1 == b1 where b2 != None', 'select int(a1)', 'select * except a1',
           'select a1 select a2', 'select a1, unnest([a1, a2])']


def other_cases(ctx, n):
    r = ctx.rng
    out = []
    for _ in range(n):
        A = rect(ctx, r.randint(0, 5), 2)
        B = rect(ctx, r.randint(0, 4), 2)
        q = r.choice(QUERIES)
        for mode in ('pandas', 'csv'):
            out.append({'mode': mode, 'q': q, 'A': A, 'B': B if ' join ' in q else (B if mode == 'csv' else None), 'hdr': ['c1', 'c2'], 'hdrB': ['d1', 'd2'], 'tags': [mode]})
    # sqlite: benign and hostile identifiers, in the table_name argument and in the query text
    for name in HOSTILE:
        A = rect(ctx, 3, 2)
        B = rect(ctx, 2, 2)
        out.append({'mode': 'sqlite', 'q': 'select a1, a2', 'A': A, 'B': B, 'hdr': ['c1', 'c2'], 'hdrB': ['d1', 'd2'], 'table_name': name, 'join_name': None, 'tags': ['sqlite', 'input_name']})
        if not any(ch in name for ch in ' \n\t') and name != '':     # whitespace cannot be part of an identifier taken from query text
            out.append({'mode': 'sqlite', 'q': 'select a1, b.d2 join %s on a1 == b1' % name, 'A': A, 'B': B, 'hdr': ['c1', 'c2'], 'hdrB': ['d1', 'd2'], 'table_name': 't1', 'join_name': name, 'tags': ['sqlite', 'join_name']})
    for q in QUERIES:
        out.append({'mode': 'sqlite', 'q': q, 'A': rect(ctx, 4, 2), 'B': rect(ctx, 3, 2), 'hdr': ['c1', 'c2'], 'hdrB': ['d1', 'd2'], 'table_name': 't1', 'join_name': 'b' if ' join b ' in q else None, 'tags': ['sqlite', 'benign']})
    return out


def run(ctx):
    cases = list_cases(ctx, 500 if ctx.tier == 'quick' else 60000)
    got = lib.run_impl_py('c06', cases)
    exp = [{'sources_ok': True, 'alias': False} for _ in cases]
    ctx.compare(cases, exp, got, THEOREM,
                rel=lambda c, e, g: isinstance(g, dict) and g.get('sources_ok') is e['sources_ok'] and g.get('alias') is e['alias']
                and ('table' not in g or g['table'].get('sources_ok') is True),
                describe=lambda c, e, g: 'query %r modified or aliased its sources: A=%s B=%s -> %s' % (c['q'], json.dumps(c['A']), json.dumps(c['B']), json.dumps({k: g.get(k) for k in ('sources_ok', 'alias', 'error')} if isinstance(g, dict) else g)),
                corrupt=lambda e: {'sources_ok': False, 'alias': False})
    for c, g in zip(cases, got):
        ctx.count()
        kind = c['qa']['kind'][0]
        ctx.stat('list_' + kind)
        if isinstance(g, dict) and (g.get('error') is not None):
            ctx.stat('list_failing_query')
        if c['A']:
            ctx.nontriv(('list', c['q'], json.dumps(c['A'])))
    # list sources with list-valued / None cells handed to the CSV writers of both ports (the writers normalise in place)
    importlib.import_module('props.c06n').run(ctx, THEOREM)
    oc = other_cases(ctx, 60 if ctx.tier == 'quick' else 1500)
    # model side for sqlite: the statements the model sends
    sq = [c for c in oc if c['mode'] == 'sqlite']
    margs = [lib.enc([c['table_name'], lib.Opt(c['join_name'])]) for c in sq]
    mres = lib.run_model(600, margs)
    for c, m in zip(sq, mres):
        c['_sql'] = [lib.dec_str(s) for s in m]
    ogot = lib.run_impl_py('c06', oc, shards=8, extra_env={'VERIF_SCRATCH': lib.BUILD})
    oexp = [{'sources_ok': True, 'sql': c.get('_sql')} for c in oc]

    def rel(c, e, g):
        if not isinstance(g, dict) or g.get('sources_ok') is not e['sources_ok']:
            return False
        if c['mode'] == 'sqlite':
            sent = [s for s in g['sql'] if not s.upper().startswith(('BEGIN', 'COMMIT'))]
            # the trace callback only reports statements that sqlite could prepare: a statement naming a table that
            # does not exist fails in prepare (and ends the query), so the expectation stops before it
            reach = []
            for st in (e['sql'] or []):
                name = st[len('SELECT * FROM '):-1]
                if name.lower() not in ('t1', 'b'):
                    break
                reach.append(st)
            if sent != reach:
                return False
            if len(e['sql']) < (2 if c['join_name'] is not None else 1) and (g['error'] is None):
                return False          # a rejected identifier must surface as an error
        return True
    ctx.compare(oc, oexp, ogot, THEOREM, rel=rel,
                describe=lambda c, e, g: '%s source: query %r table_name=%r: expected %s, implementation %s' % (c['mode'], c['q'], c.get('table_name'), json.dumps(e), json.dumps(g)[:300]),
                corrupt=lambda e: {'sources_ok': False, 'sql': ['x']})
    ctx.cross_check_vm(600, margs, mres, n=20)
    for c, g in zip(oc, ogot):
        ctx.count()
        ctx.stat('%s_%s' % (c['mode'], (g.get('error') or ['ok'])[0] if isinstance(g, dict) else 'x'))
        ctx.nontriv((c['mode'], c['q'], json.dumps(c['A']), c.get('table_name')))
    ctx.sample({'kind': 'sqlite', 'table_name': sq[0]['table_name'], 'model_sql': sq[0]['_sql'], 'implementation': ogot[oc.index(sq[0])]})
    ctx.sample({'kind': 'list', 'query': cases[0]['q'], 'A': cases[0]['A'], 'implementation': {k: got[0].get(k) for k in ('sources_ok', 'alias', 'error')}})
    ctx.rule = ('every generated query of C01-C05 (succeeding and failing) over Python lists: deep snapshot + id() identity of input/join rows after the run, no output row is an input row object; '
                'pandas dataframes (equals + dtypes), CSV input/join files (sha256 + mtime), sqlite file (sha256 + trace of every SQL statement = model sql_of_query) over 14 query shapes; '
                '21 benign/hostile table identifiers in the table_name argument and in JOIN text; non-trivial = distinct case with a non-empty source')
    # rbql-js/rbql.js is an anchor of this property too: the JavaScript leg runs language-neutral queries of this shape through rbql-js
    importlib.import_module('props.c19').js_leg(ctx, THEOREM, None, 600 if ctx.tier == 'quick' else 60000)


def replay(ctx, case):
    if case.get('part') == 'csvwriter_sources':
        return importlib.import_module('props.c06n').replay(ctx, case, THEOREM)
    if case.get('impl') == 'js':
        return importlib.import_module('props.c19').replay(ctx, case)
    g = lib.run_impl_py('c06', [case], shards=1, extra_env={'VERIF_SCRATCH': lib.BUILD})[0]
    ctx.count()
    ok = isinstance(g, dict) and g.get('sources_ok') is True and g.get('alias', False) is False
    if case.get('mode') == 'sqlite' and ok:
        m = lib.run_model(600, [lib.enc([case['table_name'], lib.Opt(case['join_name'])])], shards=1)[0]
        ok = [s for s in g['sql'] if not s.upper().startswith(('BEGIN', 'COMMIT'))] == [lib.dec_str(s) for s in m]
    ctx.compare([case], [{'sources_ok': True}], [g], THEOREM, rel=lambda c, e, g_: ok)
