# C06 - No query ever modifies its sources (RBQL is non-destructive).
# Theorems: Props/C06.v
#   * sqlite clause: identifier whitelist, only SELECT is ever sent;
#   * list clause: C06_ownership_sound / C06_writers_safe / C06_program_sources_unchanged over the heap IR of Heap.v (objects with
#     identity).  The IR terms are REGENERATED FROM THE IMPLEMENTATION'S SOURCE on every run by harness/translate_heap.py into
#     build/gen/heap_<pid>/HeapFacts.v, with one obligation gen_<program>_safe / gen_<lang>_<Writer>_ok each and the instantiated
#     corollaries gen_<program>_sources_unchanged; heap_step() below compiles that file and checks every Print Assumptions.
#     A refused translation, an obligation that evaluates to false or a coqc error is a violation: the correspondence run
#     first searches a concrete failing input (heap_cases: writers that mutate what they are handed, both ports); only if it
#     finds none the violation is reported as no-failing-input-found with the broken obligation in the replay file.
# The dataframe / file / sqlite-file clause is correspondence only: dataframe equality + dtypes, file hashes + mtime, sqlite
# file hash + trace of every SQL statement compared with the model's sql_of_query.
import importlib
import json
import os
import re
import shutil
import threading
import time
import lib
import qgen
import enginecheck as ec

THEOREM = ('C06_only_select / C06_sqlite_identifier / C06_ownership_sound / C06_writers_safe (Props/C06.v) + generated gen_*_safe, '
           'gen_*_sources_unchanged (translate_heap.py); dataframe/file clause: correspondence (snapshots, identity, hashes, SQL trace)')
HEAP_THEOREM = 'C06_program_sources_unchanged (Props/C06.v) instantiated by the obligations generated from the implementation source (harness/translate_heap.py)'


def heap_step(ctx, keep=False):
    """translate the implementation to the heap IR, compile the generated file; -> dict(ok, failed, detail, dir, theorems, facts)"""
    d = os.path.join(lib.BUILD, 'gen', 'heap_%d' % os.getpid())
    shutil.rmtree(d, ignore_errors=True)
    os.makedirs(d)
    res = {'ok': False, 'failed': [], 'detail': '', 'dir': d, 'theorems': [], 'facts': None, 'stage': 'translate'}
    t0 = time.time()
    env = dict(os.environ)
    env['VERIF_REPO'] = lib.REPO
    env['PYTHONDONTWRITEBYTECODE'] = '1'
    try:
        rc, out = lib.sh(['timeout', '120', 'python3', os.path.join(lib.VERIF, 'harness', 'translate_heap.py'), d], env=env, timeout=150)
    except Exception as e:                                   # noqa: BLE001
        rc, out = 99, 'translator did not finish: %r' % e
    res['translate_s'] = round(time.time() - t0, 2)
    if rc != 0:
        res['failed'] = ['translate_heap']
        res['detail'] = 'the translator refused the implementation source (rc=%d): %s' % (rc, out.strip()[-1200:])
        return res
    facts = json.load(open(os.path.join(d, 'HeapFacts.json')))
    res['facts'] = facts
    res['stage'] = 'coqc'
    t1 = time.time()
    cmd = 'cd %s && ulimit -s unlimited; timeout 120 coqc -Q %s RBQL -Q %s RBQLGen %s 2>&1' % (d, os.path.join(lib.COQ, 'theories'), d, os.path.join(d, 'HeapFacts.v'))
    try:
        rc, out = lib.sh(['bash', '-c', cmd], timeout=150)
    except Exception as e:                                   # noqa: BLE001
        rc, out = 99, 'coqc did not finish: %r' % e
    res['coqc_s'] = round(time.time() - t1, 2)
    ctx.generated_checker = 'python3 harness/translate_heap.py build/gen/heap_<pid> (VERIF_REPO); coqc -Q coq/theories RBQL -Q build/gen/heap_<pid> RBQLGen build/gen/heap_<pid>/HeapFacts.v (every run; Eval values and Print Assumptions parsed)'
    vals = re.findall(r'= (true|false)\s*\n\s*: bool', out)
    names = facts['obligations']
    if len(vals) == len(names):
        res['failed'] = [n for n, v in zip(names, vals) if v != 'true']
    blocks = [b for b in re.split(r'(?=Closed under the global context|Axioms:)', out) if b.startswith('Closed under') or b.startswith('Axioms:')]
    thms = facts['theorems']
    closed = {}
    if rc == 0 and len(blocks) == len(thms):
        for n, b in zip(thms, blocks):
            closed[n] = b.startswith('Closed under')
    res['theorems'] = thms
    for n in thms:
        okn = closed.get(n, False) and not any(n.startswith(f[:-len('_safe')]) for f in res['failed'] if f.endswith('_safe')) and n not in res['failed']
        ctx.generated_obligations[n] = bool(okn)
    if rc != 0 or len(vals) != len(names) or len(blocks) != len(thms) or not all(closed.get(n) for n in thms):
        if not res['failed']:
            res['failed'] = ['HeapFacts.v'] if rc != 0 else [n for n in thms if not closed.get(n)] or ['HeapFacts.v']
        bad = [p for p in facts['programs'] + facts['writers'] if ('gen_%s_safe' % p['name']) in res['failed'] or ('gen_%s_ok' % p['name']) in res['failed']]
        tail = '\n'.join(l for l in out.split('\n') if l.strip() and not l.startswith('Closed under') and not re.match(r'\s*(= (true|false)|: bool)\s*$', l))
        res['detail'] = ('obligations that evaluate to false: %s; %s; coqc rc=%d: %s' % (
            ', '.join(res['failed']), '; '.join('%s <- %s' % (p['name'], p.get('query') or p.get('class')) for p in bad), rc, tail.strip()[-500:]))
        return res
    res['ok'] = True
    if not keep:
        shutil.rmtree(d, ignore_errors=True)
    return res


HEAP_QUERIES = ['select *', 'select a.*', 'select *, a1', 'select a2, a1', 'select top 2 *', 'select distinct *', 'select distinct count *',
                'select * order by a1', 'select * except a2', 'select a1, count(*) group by a1', 'select a1, unnest(a2.split(";"))',
                'update a1 = a2', 'update set a2 = "k" where a1 == "a"', 'update a1 = a2, a2 = a1',
                'select *, b.* join b on a1 == b1', 'select b.*, a.* left join b on a1 == b1', 'select a.*, b.* strict left join b on a1 == b1',
                'update a2 = b2 join b on a1 == b1', 'update a1 = b2, a2 = "u" left join b on a1 == b1 where a2 != "z"', 'select a9', 'update a9 = a1']


def heap_cases(ctx, ntables):
    """queries of every template family x writers that mutate what they are handed (user writer, CSVWriter, caller rewriting the
    output table), for both ports; A and B hold strings (and None / numbers / separators for the CSV writer)"""
    r = ctx.rng
    out = []
    for _ in range(ntables):
        n = r.randint(1, 4)
        A = [[r.choice(['a', 'b', 'c']), r.choice(['x;y', 'z', 'k,"l"', '']), r.choice(['1', '2', None, 5])] for _ in range(n)]
        B = [[k, r.choice(['p', 'q', None])] for k in r.sample(['a', 'b', 'c', 'd'], r.randint(1, 3))]
        for q in HEAP_QUERIES:
            for w in ('mutating', 'csv', 'table'):
                out.append({'mode': 'heap', 'q': q, 'qjs': q, 'A': A, 'B': B if ' join ' in q else None, 'writer': w, 'tags': ['heap', w]})
        # list-valued cells: a row copy is shallow, so a writer that rewrites a cell OBJECT in place reaches the source row
        An = [list(row) for row in A]
        An[r.randrange(n)][2] = ['n', None, 3, ['m', None]]
        Bn = [list(row) for row in B]
        Bn[0][1] = [None, 'w']
        for q in HEAP_QUERIES:
            for w in ('mutating', 'csv'):
                out.append({'mode': 'heap', 'q': q, 'qjs': q, 'A': An, 'B': Bn if ' join ' in q else None, 'writer': w, 'tags': ['heap', w, 'nested']})
        # column names on both tables, ragged records (a join record shorter than the list of join column names): whatever the
        # engine does to line records up with a header, it does to copies (seeded change C06-11 padded the caller's join rows in place)
        Ar = [list(row)[:r.randint(1, 3)] if r.random() < 0.4 else list(row) for row in A]
        Br = [list(row) for row in B] + [[r.choice(['a', 'b', 'c'])]]
        if r.random() < 0.5:
            Br.insert(0, [r.choice(['a', 'b', 'c'])])
        for q in HEAP_QUERIES + ['select a.c1, b.d2 join b on a.c1 == b.d1', 'select * left join b on a1 == b1', 'update a.c2 = b.d1 join b on a1 == b1']:
            out.append({'mode': 'heap', 'q': q, 'qjs': q.replace('a2.split', 'a2.split'), 'A': Ar, 'B': Br if ' join ' in q else None, 'writer': 'table',
                        'hdrA': ['c1', 'c2', 'c3'], 'hdrB': ['d1', 'd2', 'd3'][:r.randint(2, 3)] if ' join ' in q else None, 'tags': ['heap', 'table', 'named']})
    return out


def run_heap_cases(ctx, cases):
    exp = [{'sources_ok': True, 'alias': False} for _ in cases]

    def rel(c, e, g):
        return isinstance(g, dict) and g.get('sources_ok') is e['sources_ok'] and g.get('alias') is e['alias']
    for lang, runner in (('py', lib.run_impl_py), ('js', lib.run_impl_js)):
        lc = [dict(c, lang=lang) for c in cases]
        got = runner('c06h', lc, timeout=150 if ctx.tier == 'quick' else 1200)
        ctx.compare(lc, exp, got, HEAP_THEOREM, rel=rel,
                    describe=lambda c, e, g: 'rbql-%s query %r with a %s writer modified or aliased its sources: A=%s B=%s -> %s' % (
                        c['lang'], c['q'], c['writer'], json.dumps(c['A']), json.dumps(c['B']), json.dumps(g)[:200]),
                    corrupt=lambda e: {'sources_ok': False, 'alias': False})
        for c, g in zip(lc, got):
            ctx.count()
            ctx.stat('heap_%s_%s' % (lang, c['writer']))
            if isinstance(g, dict) and g.get('error') is not None:
                ctx.stat('heap_%s_failing_query' % lang)
            if isinstance(g, dict) and g.get('emitted'):
                ctx.nontriv(('heap', lang, c['q'], c['writer'], json.dumps(c['A'])))

HOSTILE = ['b; drop table t1', 'b;drop', '"b"', 'b--', 'b\n', 'b\x00', 'bé', 't1;', "b'", 'b b', '(b)', 'b/*x*/', '`b`', '[b]', 'b,t1', 'B', 'b', 't1', 'nosuch', '_b1', '']


# Characters beyond ASCII that some notion of "alphanumeric" / "word character" includes (Python's str-pattern \w, str.isalnum, \d, JS \p{L}):
# letters (Ll Lu Lo Lm), decimal digits of other scripts (Nd), OTHER numbers that are neither letters nor digits (No: vulgar fractions,
# superscripts, circled digits; Nl: roman numerals, hangzhou zero), combining marks, connector punctuation, astral digits - and a few that
# no such notion includes (currency, trademark, emoji).  The property's whitelist is letters, digits and underscore of ASCII; the model
# (Sqlite.sqlite_accepts) decides each name.  Seeded change C06-13 replaced the character class by \w.
WORDISH = [0xe9, 0xdf, 0x414, 0x3c9, 0x4e2d, 0xaa, 0xba, 0x2b0, 0x663, 0x6f4, 0x969, 0xff10, 0xff21, 0xbd, 0xbc, 0xb2, 0xb9, 0x2460, 0x2473, 0x2776, 0x2167, 0x2180, 0x3007,
           0x301, 0x203f, 0xff3f, 0x1d7ce, 0x1d7d9, 0x10140, 0x1f600, 0x20ac, 0x2122, 0xb7, 0x200d]


def gen_identifier(r):
    """a plain ASCII identifier with 1-2 characters inserted after its first character (never a digit first, never an SQL keyword)"""
    base = r.choice(['b', 't1', 'orders', '_x', 'b'])
    name = list(base)
    for _ in range(r.randint(1, 2)):
        x = r.random()
        if x < 0.6:
            ch = chr(r.choice(WORDISH))
        elif x < 0.85:
            ch = chr(r.randint(0xa1, 0x2fff))         # any character of the lower BMP (unassigned ones included)
        else:
            ch = r.choice('_09ZQ')
        name.insert(r.randint(1, len(name)), ch)
    return ''.join(name)


def identifier_cases(ctx, n):
    """odd identifiers in the table_name argument and as the JOIN table of the query text, over a database that HAS a table of that name"""
    r = ctx.rng
    out = []
    for _ in range(n):
        name = gen_identifier(r)
        A, B = rect(ctx, 3, 2), rect(ctx, 2, 2)
        common = {'mode': 'sqlite', 'A': A, 'B': B, 'hdr': ['c1', 'c2'], 'hdrB': ['d1', 'd2'], 'make_tables': [name]}
        out.append(dict(common, q='select a1, a2', table_name=name, join_name=None, tags=['sqlite', 'input_name', 'existing_odd_table']))
        if not any(ch.isspace() for ch in name):          # white space cannot be part of an identifier taken from query text
            out.append(dict(common, q='select a1, b.d2 join %s on a1 == b1' % name, table_name='t1', join_name=name, tags=['sqlite', 'join_name', 'existing_odd_table']))
    # the earlier hostile names once more, now naming tables that exist
    for name in HOSTILE:
        if name in ('b', 't1', 'B', '', 'nosuch') or '\x00' in name:
            continue
        A, B = rect(ctx, 3, 2), rect(ctx, 2, 2)
        common = {'mode': 'sqlite', 'A': A, 'B': B, 'hdr': ['c1', 'c2'], 'hdrB': ['d1', 'd2'], 'make_tables': [name]}
        out.append(dict(common, q='select a1, a2', table_name=name, join_name=None, tags=['sqlite', 'input_name', 'existing_odd_table']))
        if not any(ch in name for ch in ' \n\t'):
            out.append(dict(common, q='select a1, b.d2 join %s on a1 == b1' % name, table_name='t1', join_name=name, tags=['sqlite', 'join_name', 'existing_odd_table']))
    return out


def cli_path_cases(ctx):
    """both command lines in interactive mode without --output: the result goes to a default path derived from the --input argument AS
    GIVEN - plain, absolute, and spellings that a path library would normalise (./x, sub/../x, dir//x, dir/./x); the input file's own
    extension equal to / different from the default extension of the delimiter; delimiter given or detected"""
    r = ctx.rng
    out = []
    for lang in ('py', 'js'):
        for form in ('plain', 'dot', 'updown', 'dslash', 'dir_dot', 'dot_dslash', 'abs'):
            for file_name, delim in (('t.csv', ','), ('t.tsv', 'TAB'), ('t.txt', ';'), ('t.csv', None), ('data', ',')):
                if form == 'abs' and lang == 'py':
                    continue          # (already among the earlier cases)
                out.append({'mode': 'cli', 'lang': lang, 'path_form': form, 'q': r.choice(['select a2, a1', 'select * where NR > 1', 'update a1 = a2']), 'A': rect(ctx, 3, 2), 'B': None,
                            'file_name': file_name, 'delim': delim, 'interactive': True, 'tags': ['cli', lang, 'interactive', form]})
    for file_name, delim in (('t.csv', ','), ('t.tsv', 'TAB')):
        out.append({'mode': 'cli', 'lang': 'js', 'path_form': 'abs', 'q': 'select a2, a1', 'A': rect(ctx, 3, 2), 'B': None, 'file_name': file_name, 'delim': delim,
                    'interactive': False, 'tags': ['cli', 'js', 'batch', 'abs']})
    return out


def list_cases(ctx, n):
    out = []
    for name in ('c01', 'c02', 'c03', 'c04', 'c05'):
        mod = importlib.import_module('props.' + name)
        g = qgen.Gen(ctx.rng)
        for _ in range(n):
            c = mod.gen_case(ctx, g)
            c['mode'] = 'list'
            c['tags'] = list(c.get('tags', [])) + ['list', name]
            out.append(c)
    return out


def rect(ctx, nrows, ncols):
    return [[ctx.rng.choice(['a', 'b', '1', '2', 'k']) for _ in range(ncols)] for _ in range(nrows)]


QUERIES = ['select *', 'select a1, a2 where a1 != "a"', 'update a1 = a2, a2 = a1', 'update set a2 = a1 + "x" where a1 == "a"',
           'select distinct a1 order by a2 desc', 'select a1, count(*) group by a1', 'select top 2 * , NR', 'select a1, b2 join b on a1 == b1',
           'update a2 = b2 join b on a1 == b1', 'select a.* , b.* left join b on a1 == b1 where b2 != None', 'select int(a1)', 'select * except a1',
           'select a1 select a2', 'select a1, unnest([a1, a2])']


def other_cases(ctx, n):
    r = ctx.rng
    out = []
    for _ in range(n):
        A = rect(ctx, r.randint(0, 5), 2)
        B = rect(ctx, r.randint(0, 4), 2)
        q = r.choice(QUERIES)
        for mode in ('pandas', 'csv'):
            out.append({'mode': mode, 'q': q, 'A': A, 'B': B if ' join ' in q else (B if mode == 'csv' else None), 'hdr': ['c1', 'c2'], 'hdrB': ['d1', 'd2'], 'tags': [mode]})
    # sqlite: benign and hostile identifiers, in the table_name argument and in the query text
    for name in HOSTILE:
        A = rect(ctx, 3, 2)
        B = rect(ctx, 2, 2)
        out.append({'mode': 'sqlite', 'q': 'select a1, a2', 'A': A, 'B': B, 'hdr': ['c1', 'c2'], 'hdrB': ['d1', 'd2'], 'table_name': name, 'join_name': None, 'tags': ['sqlite', 'input_name']})
        if not any(ch in name for ch in ' \n\t') and name != '':     # whitespace cannot be part of an identifier taken from query text
            out.append({'mode': 'sqlite', 'q': 'select a1, b.d2 join %s on a1 == b1' % name, 'A': A, 'B': B, 'hdr': ['c1', 'c2'], 'hdrB': ['d1', 'd2'], 'table_name': 't1', 'join_name': name, 'tags': ['sqlite', 'join_name']})
    # the command line, interactive and not: default output paths are derived from the input path - never the input path itself
    for file_name, delim in (('t.csv', ','), ('t.tsv', 'TAB'), ('t.txt', ','), ('data', ','), ('t.csv', ';')):
        for interactive in (True, False):
            out.append({'mode': 'cli', 'q': r.choice(['select a2, a1', 'select * where NR > 1', 'update a1 = a2']), 'A': rect(ctx, 3, 2), 'B': None,
                        'file_name': file_name, 'delim': delim, 'interactive': interactive, 'tags': ['cli', 'interactive' if interactive else 'batch']})
    for q in QUERIES:
        out.append({'mode': 'sqlite', 'q': q, 'A': rect(ctx, 4, 2), 'B': rect(ctx, 3, 2), 'hdr': ['c1', 'c2'], 'hdrB': ['d1', 'd2'], 'table_name': 't1', 'join_name': 'b' if ' join b ' in q else None, 'tags': ['sqlite', 'benign']})
    out += identifier_cases(ctx, 40 if ctx.tier == 'quick' else 1500)
    out += cli_path_cases(ctx)
    return out


def join_id_args(cases):
    return [lib.enc([0, c['q']]) for c in cases if c['join_name'] is not None]


def sqlite_model(ctx, sq):
    """the statements the model sends (entry 600) for the table_name argument and the JOIN identifier AS THE TABLE REGISTRY RECEIVES IT:
    the identifier the parser model (entry 503: cleanup, string literals replaced by placeholders, parse_join_expression) finds in
    the query text - `join "b" on` reaches the registry as ___RBQL_STRING_LITERAL0___, an identifier of letters, digits and underscores"""
    jq = [c for c in sq if c['join_name'] is not None]
    pargs = join_id_args(jq)
    pres = lib.run_model(503, pargs)
    for c, m in zip(jq, pres):
        jd = m[5][2] if len(m) > 5 and len(m[5]) > 2 else []
        c['_join_id'] = lib.dec_str(jd[0][1][0]) if (jd and jd[0][0] == 0) else None
    margs = [lib.enc([c['table_name'], lib.Opt(c['_join_id'] if c['join_name'] is not None else None)]) for c in sq]
    mres = lib.run_model(600, margs)
    for c, m in zip(sq, mres):
        c['_sql'] = [lib.dec_str(s) for s in m]
    if ctx is not None and pargs:
        ctx.cross_check_vm(503, pargs, pres, n=5)
    return margs, mres


def other_rel(c, e, g):
    """dataframe / file / sqlite / command line sources: unchanged; sqlite: the statements prepared and the statements handed over are the model's"""
    if not isinstance(g, dict) or g.get('sources_ok') is not e['sources_ok']:
        return False
    if c['mode'] == 'sqlite':
        sent = [s for s in g['sql'] if not s.upper().startswith(('BEGIN', 'COMMIT'))]
        # the trace callback only reports statements that sqlite could prepare: a statement naming a table that
        # does not exist fails in prepare (and ends the query), so the expectation stops before it
        # (`handed`: every statement handed to a cursor, prepared or not - it includes that failing statement, and nothing after it)
        tables = {t.lower() for t in g.get('tables', ['t1', 'b'])}
        reach, handed = [], []
        for st in (e['sql'] or []):
            name = st[len('SELECT * FROM '):-1]
            handed.append(st)
            if name.lower() not in tables:
                break
            reach.append(st)
        if sent != reach or g.get('handed') != handed:
            return False
        if len(e['sql']) < (2 if c['join_name'] is not None else 1) and (g['error'] is None):
            return False          # a rejected identifier must surface as an error
    return True


def run(ctx):
    heap_clause(ctx)             # the list clause over the heap IR: generated obligations + concrete search (self-contained)
    cases = list_cases(ctx, 500 if ctx.tier == 'quick' else 60000)
    # (a defect that makes a query loop / grow a list for ever must end as a failing case, not exhaust the machine)
    got = lib.run_impl_py('c06', cases, timeout=300 if ctx.tier == 'quick' else 1800, mem_limit=6 << 30)
    exp = [{'sources_ok': True, 'alias': False} for _ in cases]
    ctx.compare(cases, exp, got, THEOREM,
                rel=lambda c, e, g: isinstance(g, dict) and g.get('sources_ok') is e['sources_ok'] and g.get('alias') is e['alias']
                and ('table' not in g or g['table'].get('sources_ok') is True),
                describe=lambda c, e, g: 'query %r modified or aliased its sources: A=%s B=%s -> %s' % (c['q'], json.dumps(c['A']), json.dumps(c['B']), json.dumps({k: g.get(k) for k in ('sources_ok', 'alias', 'error')} if isinstance(g, dict) else g)),
                corrupt=lambda e: {'sources_ok': False, 'alias': False})
    for c, g in zip(cases, got):
        ctx.count()
        kind = c['qa']['kind'][0]
        ctx.stat('list_' + kind)
        if isinstance(g, dict) and (g.get('error') is not None):
            ctx.stat('list_failing_query')
        if c['A']:
            ctx.nontriv(('list', c['q'], json.dumps(c['A'])))
    # list sources with list-valued / None cells handed to the CSV writers of both ports (the writers normalise in place)
    importlib.import_module('props.c06n').run(ctx, THEOREM)
    oc = other_cases(ctx, 60 if ctx.tier == 'quick' else 1500)
    # model side for sqlite: the statements the model sends
    sq = [c for c in oc if c['mode'] == 'sqlite']
    margs, mres = sqlite_model(ctx, sq)
    ogot = lib.run_impl_py('c06', oc, shards=8, extra_env={'VERIF_SCRATCH': lib.BUILD})
    oexp = [{'sources_ok': True, 'sql': c.get('_sql')} for c in oc]

    ctx.compare(oc, oexp, ogot, THEOREM, rel=other_rel,
                describe=lambda c, e, g: '%s source: query %r table_name=%r: expected %s, implementation %s' % (c['mode'], c['q'], c.get('table_name'), json.dumps(e), json.dumps(g)[:300]),
                corrupt=lambda e: {'sources_ok': False, 'sql': ['x']})
    ctx.cross_check_vm(600, margs, mres, n=20)
    for c, g in zip(oc, ogot):
        ctx.count()
        ctx.stat('%s_%s' % (c['mode'], (g.get('error') or ['ok'])[0] if isinstance(g, dict) else 'x'))
        if c['mode'] == 'cli' and isinstance(g, dict):
            # (how many command line runs really wrote a result: stdout of a batch run, one new file beside the input of an interactive run)
            ctx.stat('cli_%s_%s_%s' % (c.get('lang', 'py'), 'interactive' if c['interactive'] else 'batch', 'result_written' if g.get('rc') == 0 and (g.get('new_files') or not c['interactive']) else 'no_result'))
        if 'existing_odd_table' in c['tags'] and isinstance(g, dict):
            ctx.stat('sqlite_odd_identifier_%s' % ('accepted_by_model' if len(c['_sql']) > (1 if c['join_name'] is not None else 0) else 'refused_by_model'))
        ctx.nontriv((c['mode'], c['q'], json.dumps(c['A']), c.get('table_name')))
    ctx.sample_safe(lambda: {'kind': 'sqlite', 'table_name': sq[0]['table_name'], 'model_sql': sq[0]['_sql'], 'implementation': ogot[oc.index(sq[0])]})
    ctx.sample_safe(lambda: {'kind': 'list', 'query': cases[0]['q'], 'A': cases[0]['A'], 'implementation': {k: got[0].get(k) for k in ('sources_ok', 'alias', 'error')}})
    ctx.rule = ('heap obligations regenerated from the source and re-proved (see notes); ' + str(len(HEAP_QUERIES)) + ' query shapes x {user writer that rewrites its argument, CSVWriter, caller rewriting the output table} x both ports over random tables (non-trivial = at least one row emitted); '
                'every generated query of C01-C05 (succeeding and failing) over Python lists: deep snapshot + id() identity of input/join rows after the run, no output row is an input row object; '
                'pandas dataframes (equals + dtypes), CSV input/join files (sha256 + mtime), sqlite file (sha256 + trace of every SQL statement = model sql_of_query) over 14 query shapes; '
                '21 benign/hostile table identifiers in the table_name argument and in JOIN text, and identifiers with non-ASCII letters / digits / numbers / marks / connectors inserted (and the hostile ones again) '
                'over a database that HAS a table of that name (statements prepared = trace, statements handed to a cursor = recording connection, both = model); '
                'the command lines of both ports, interactive without --output, for 7 spellings of the --input path x 5 file name / delimiter combinations; non-trivial = distinct case with a non-empty source')
    # rbql-js/rbql.js is an anchor of this property too: the JavaScript leg runs language-neutral queries of this shape through rbql-js
    importlib.import_module('props.c19').js_leg(ctx, THEOREM, None, 600 if ctx.tier == 'quick' else 60000)


def heap_clause(ctx):
    """translation + compilation of the generated obligations runs beside the concrete search (it only spawns processes);
    a concrete failing input takes precedence, otherwise the broken obligation is named (no-failing-input-found)"""
    box = {}

    def bg():
        try:
            box['heap'] = heap_step(ctx)
        except Exception as e:                               # noqa: BLE001
            box['heap'] = {'ok': False, 'failed': ['heap_step'], 'detail': 'heap step raised %r' % e, 'dir': '', 'theorems': [], 'facts': None, 'stage': 'harness'}
    th = threading.Thread(target=bg)
    th.start()
    nviol0 = len(ctx.violations)
    failure = None
    try:
        run_heap_cases(ctx, heap_cases(ctx, 3 if ctx.tier == 'quick' else 40))
    except lib.CheckFailure as e:
        failure = e              # e.g. a driver that does not terminate: still report the obligations, then re-raise
    th.join()
    report_heap(ctx, box['heap'], found_concrete=len(ctx.violations) > nviol0)
    if failure is not None:
        raise failure


def report_heap(ctx, heap, found_concrete):
    facts = heap.get('facts') or {}
    ctx.stat('heap_programs_translated', len(facts.get('programs', [])))
    ctx.stat('heap_writers_translated', len(facts.get('writers', [])))
    ctx.stat('heap_ir_statements', sum(p['statements'] for p in facts.get('programs', []) + facts.get('writers', [])))
    ctx.notes.append({'heap_translation': {'ok': heap['ok'], 'stage': heap['stage'], 'failed': heap['failed'], 'translate_s': heap.get('translate_s'),
                                           'coqc_s': heap.get('coqc_s'), 'generated_theorems': heap['theorems'],
                                           'programs': [{k: p[k] for k in ('name', 'query', 'chain', 'statements')} for p in facts.get('programs', [])]}})
    if heap['ok']:
        if facts.get('programs'):
            ctx.sample({'kind': 'generated obligation', 'theorem': 'gen_%s_safe' % facts['programs'][0]['name'], 'query': facts['programs'][0]['query'],
                        'ir_statements': facts['programs'][0]['statements']})
        return
    if found_concrete:
        ctx.notes.append('heap obligations broken (%s); a concrete failing input was found and reported above' % ', '.join(heap['failed']))
        return
    ctx.obligation_failed(heap['failed'], heap['detail'], HEAP_THEOREM, case={'heap_obligation': heap['failed'], 'generated_dir': heap['dir'], 'repo': lib.REPO})


def replay(ctx, case):
    if case.get('part') == 'csvwriter_sources':
        return importlib.import_module('props.c06n').replay(ctx, case, THEOREM)
    if case.get('impl') == 'js':
        return importlib.import_module('props.c19').replay(ctx, case)
    if 'heap_obligation' in case:
        heap = heap_step(ctx, keep=True)
        ctx.count()
        report_heap(ctx, heap, found_concrete=False)
        return
    if case.get('mode') == 'heap':
        runner = lib.run_impl_js if case.get('lang') == 'js' else lib.run_impl_py
        g = runner('c06h', [case], shards=1)[0]
        ctx.count()
        ctx.compare([case], [{'sources_ok': True, 'alias': False}], [g], HEAP_THEOREM,
                    rel=lambda c, e, g_: isinstance(g_, dict) and g_.get('sources_ok') is e['sources_ok'] and g_.get('alias') is e['alias'],
                    corrupt=lambda e: {'sources_ok': False, 'alias': False},
                    describe=lambda c, e, g_: 'rbql-%s query %r with a %s writer modified or aliased its sources -> %s' % (c.get('lang'), c['q'], c['writer'], json.dumps(g_)[:200]))
        return
    g = lib.run_impl_py('c06', [case], shards=1, extra_env={'VERIF_SCRATCH': lib.BUILD})[0]
    ctx.count()
    if case.get('mode') in ('sqlite', 'pandas', 'csv', 'cli'):
        e = {'sources_ok': True, 'sql': None}
        if case['mode'] == 'sqlite':
            sqlite_model(None, [case])
            e['sql'] = case['_sql']
        return ctx.compare([case], [e], [g], THEOREM, rel=other_rel,
                           describe=lambda c, e_, g_: '%s source: query %r table_name=%r: expected %s, implementation %s' % (c['mode'], c['q'], c.get('table_name'), json.dumps(e_), json.dumps(g_)[:300]))
    ok = isinstance(g, dict) and g.get('sources_ok') is True and g.get('alias', False) is False
    ctx.compare([case], [{'sources_ok': True}], [g], THEOREM, rel=lambda c, e, g_: ok)
