# cov_static.py - C14 helper (coverage gaps of the correspondence runs, notes/covgap.md): "mistakes detectable from the query text are
# reported as parsing errors before any record is written, ... inconsistent input as IO-handling errors" - the static and
# configuration error paths of BOTH ports, through public entry points, with objects that log every call they receive.
#
#   static2 : requests (which clauses, which names resolve, what the caller handed over) with 0-3 mistakes -> query text + tables;
#             expectation = Static2.static2 (entry 330; theorems C14_static2_* in Props/C14.v): the failing check's class (and B
#             record number) and the exact sequence of calls up to the failure - registry lookups, get_variables_map, B records
#             pulled - with NO set_header / write / finish and NO input record pulled; a request that passes must reach set_header
#             after exactly the model's calls and then run without error.
#   late    : mistakes of the query text the code can only see when the first record is evaluated (aggregate inside an expression,
#             DISTINCT with aggregates): harness-side specification - parsing error at the first record that passes WHERE, after
#             set_header, before any write / finish.
#   syntax  : text the host language rejects: a syntax error before any record is pulled, set_header already called, nothing written;
#             the advice lines (HAVING / LIKE / FROM; and / or in rbql-js) as an enum, per port.
#   ambig   : query_table / query_pandas_dataframe in direct mode with a column name present in both tables: parsing error, nothing written.
#   config  : query_csv / query_sqlite_to_csv with an inconsistent configuration: IO-handling error, empty or absent output file.
#   cli     : the command lines on refused queries: non-zero exit, empty stdout, `Error [<class label>]` on stderr, no output data.
import json
import lib

CODE = 330
PART = 'cov_static'
STMT = {'select': 0, 'update': 1, 'both_su': 2, 'both_us': 3, 'neither': 4}
EVN = {1: 'LA', 2: 'VA', 3: 'LB', 4: 'VB', 5: 'PB', 6: 'H'}
CLS = {0: 'P', 1: 'R', 2: 'IO', 3: 'O', 4: 'U'}
LABEL = {'py': {'P': 'query parsing', 'IO': 'IO handling', 'R': 'query execution', 'S': 'syntax error'},
         'js': {'P': 'query parsing', 'IO': 'IO handling', 'R': 'query execution', 'S': 'JS syntax error'}}


# ------------------------------------------------------------------ static2: request -> model argument, query text, tables

def enc_req(q):
    ob = lambda v: [] if v is None else [1 if v else 0]
    j = q['join']
    jn = [] if j is None else [[int(j['registry']), int(j['found']), int(j['vars_ok']), int(j['hdr']), int(j['keys_ok']), j['nb'],
                                 [] if j['short'] is None else [j['short']]]]
    return lib.enc([0 if q['port'] == 'py' else 1, int(q['bound']), ob(q['from']), STMT[q['stmt']], int(q['vars_ok']), int(q['names_ok']),
                    int(q['hdr']), int(q['order']), int(q['group']), jn, int(q['where_assign']), int(q['upd_unknown']), int(q['limit_bad']),
                    ob(q['except'])])


def gen_req(r, port, force=None):
    """a realisable request; `force` = one mistake that must be present (every check is reached in every run)"""
    q = {'port': port, 'bound': True, 'from': None, 'stmt': 'select', 'vars_ok': True, 'names_ok': True, 'hdr': r.random() < 0.4,
         'order': False, 'group': False, 'join': None, 'where_assign': False, 'upd_unknown': False, 'limit_bad': False, 'except': None,
         'where': r.random() < 0.4, 'limit': r.random() < 0.2}
    p_mist = 0.18      # probability of each further mistake
    if port == 'py' and force != 'no_registry' and (r.random() < 0.3 or force in ('from_missing', 'no_from')):
        q['bound'] = False
        q['from'] = True
        if force == 'from_missing' or (force is None and r.random() < p_mist):
            q['from'] = False
        elif force == 'no_from' or (force is None and r.random() < p_mist):
            q['from'] = None
    if force in ('both_su', 'both_us', 'neither'):
        q['stmt'] = force
    elif force in ('order_update', 'group_update', 'upd_unknown') or (force in (None, 'where_assign', 'vars_bad', 'names_bad', 'short', 'hdr_mismatch', 'no_registry', 'join_missing', 'keys_bad', 'jvars_bad') and r.random() < 0.3):
        q['stmt'] = 'update'
    elif force is None and r.random() < 0.06:
        q['stmt'] = r.choice(['both_su', 'both_us', 'neither'])
    upd = q['stmt'] == 'update'
    if force == 'order_update' or (force in ('group_order',) or r.random() < 0.15):
        q['order'] = True
    if force in ('group_order', 'group_update') or r.random() < 0.15:
        q['group'] = True
    if force in ('except_join', 'except_unknown') or (not upd and not q['group'] and force is None and r.random() < 0.25):
        q['except'] = True
        q['group'] = False
        q['stmt'] = 'select'
        upd = False
        if force == 'except_unknown' or (force is None and r.random() < p_mist):
            q['except'] = False
    if force in ('no_registry', 'join_missing', 'jvars_bad', 'hdr_mismatch', 'keys_bad', 'short', 'except_join') or r.random() < 0.45:
        nb = r.randint(1, 4)
        j = {'registry': True, 'found': True, 'vars_ok': True, 'hdr': q['hdr'], 'keys_ok': True, 'nb': nb, 'short': None}
        if force == 'no_registry' or (force is None and r.random() < p_mist / 2):
            j['registry'] = False
        if force == 'join_missing' or (force is None and r.random() < p_mist / 2):
            j['found'] = False
        if force == 'hdr_mismatch' or (force is None and r.random() < p_mist):
            j['hdr'] = not q['hdr']
        if force == 'keys_bad' or (force is None and r.random() < p_mist / 2):
            j['keys_ok'] = False
        if force == 'short' or (force is None and r.random() < p_mist):
            j['short'] = r.randint(1, nb)
        if (force == 'jvars_bad' or (force is None and r.random() < p_mist)):
            j['hdr'] = True
            if force == 'jvars_bad':
                q['hdr'] = True
            j['vars_ok'] = False
        q['join'] = j
    if force == 'vars_bad' or (force is None and r.random() < p_mist):
        q['hdr'] = True
        if q['join'] is not None and force == 'vars_bad':
            q['join']['hdr'] = True
        q['vars_ok'] = False
    elif force == 'names_bad' or (force is None and r.random() < p_mist / 2 and (q['join'] is None or q['join']['vars_ok'])):
        q['hdr'] = True
        if q['join'] is not None:
            q['join']['hdr'] = True if force == 'names_bad' else q['join']['hdr']
        q['names_ok'] = False
    if force == 'where_assign' or (force is None and r.random() < p_mist):
        q['where_assign'] = True
    if upd and (force == 'upd_unknown' or (force is None and r.random() < p_mist)):
        q['upd_unknown'] = True
    if not upd and (force == 'limit_bad' or (force is None and r.random() < p_mist)):
        q['limit_bad'] = True
    if upd:
        q['limit'] = False
        q['limit_bad'] = False
        q['except'] = None
    j = q['join']
    if j is not None and not q['bound']:
        j['registry'] = True          # (a query without bound input has a registry by construction: FROM is looked up in it)
    if j is not None and j['hdr'] and j['short'] == 1:
        # (a list table whose FIRST record is shorter than its column-name list is refused earlier, by TableIterator itself)
        j['short'] = 2 if j['nb'] >= 2 else None
        if j['short'] is None and force == 'short':
            j['nb'], j['short'] = 2, 2
    return q


def render(r, q):
    """request -> (query text, A, B, input header, join header, normalize); the text is valid apart from the flagged mistakes"""
    ncol = 3
    A = [[r.choice(['k', 'm', 'z']), str(r.randint(1, 9)), r.choice(['p', 'q'])] for _ in range(r.randint(1, 4))]
    hdrA = ['ka', 'na', 'pa'] if q['hdr'] else None
    normalize = True
    if not q['names_ok']:
        normalize = False
        hdrA = ['ka', r.choice(['n a', '2na', 'n-a', 'n.a']), 'pa']      # not an identifier: unusable as a variable in direct mode
    j = q['join']
    B, hdrB = None, None
    if j is not None:
        B = [[['k', 'm', 'y', 'x'][i], 'w%d' % i] for i in range(j['nb'])]      # distinct keys: UPDATE needs at most one match per record
        if j['short'] is not None:
            B[j['short'] - 1] = []
        hdrB = ['kb', 'wb'] if j['hdr'] else None
    where = []
    if not q['vars_ok']:
        where.append('a.zz != "?"')
    if j is not None and not j['vars_ok']:
        where.append('b.zz != "?"')
    if q['where_assign']:
        where.append('a2 = "1"')
    elif q.get('where') and not where:
        where.append('a2 != "0"')
    wtxt = (' where ' + ' && '.join(where)) if where and q['port'] == 'js' else ((' where ' + ' and '.join(where)) if where else '')
    jtxt = ''
    if j is not None:
        jtxt = ' %s %s on %s' % (r.choice(['join', 'inner join', 'left join']), 'b' if j['found'] else 'c',
                                 ('a1 == b1' if j['found'] else 'a1 == c1') if j['keys_ok'] else 'a1 == a2')
    ftxt = ''
    if not q['bound']:
        ftxt = '' if q['from'] is None else (' from a' if q['from'] else ' from zz')
    gtxt = ' group by a1' if q['group'] else ''
    otxt = ' order by a1' if q['order'] else ''
    st = q['stmt']
    if st == 'update':
        target = 'a["zz"]' if q['upd_unknown'] else 'a2'
        text = 'update%s set %s = "w"%s%s%s%s%s' % (' a' if (ftxt == '' and r.random() < 0.3) else '', target, ftxt, jtxt, wtxt, gtxt, otxt)
    else:
        if q['except'] is not None:
            sel = 'select * except %s' % ('a2' if q['except'] else r.choice(['a["zz"]', 'foo']))
        elif q['group']:
            sel = 'select a1, COUNT(*)'
        else:
            sel = 'select a1' + (', b2' if (j is not None and j['found'] and j['keys_ok']) else '')
        ltxt = ' limit x' if q['limit_bad'] else (' limit 5' if q.get('limit') else '')
        text = sel + ftxt + jtxt + wtxt + gtxt + otxt + ltxt
        if st == 'both_su':
            text = sel + ftxt + ' update a2 = "w"' + wtxt
        elif st == 'both_us':
            text = 'update a2 = "w"' + ftxt + ' ' + sel + wtxt
        elif st == 'neither':
            text = 'a1' + ftxt + wtxt
    return text, A, B, hdrA, hdrB, normalize


FORCED = ['both_su', 'both_us', 'neither', 'from_missing', 'no_from', 'vars_bad', 'names_bad', 'order_update', 'group_order', 'group_update',
          'no_registry', 'join_missing', 'jvars_bad', 'hdr_mismatch', 'keys_bad', 'short', 'where_assign', 'upd_unknown', 'limit_bad',
          'except_join', 'except_unknown']


def static2_cases(ctx, n):
    r = ctx.rng
    out = []
    for port in ('py', 'js'):
        forced = [f for f in FORCED if not (port == 'js' and f in ('from_missing', 'no_from'))]
        plan = [f for f in forced for _ in range(3)] + [None] * n
        for force in plan:
            q = gen_req(r, port, force)
            text, A, B, hdrA, hdrB, normalize = render(r, q)
            c = {'part': PART, 'kind': 'static2', 'port': port, 'req': q, 'q': text, 'A': A, 'B': B, 'hdrA': hdrA, 'hdrB': hdrB,
                 'bound': q['bound'], 'registry': (not q['bound']) or (q['join'] is not None and q['join']['registry']), 'normalize': normalize,
                 'forced': force}
            out.append(c)
    return out


def static2_expected(cases):
    res = lib.run_model(CODE, [enc_req(c['req']) for c in cases])
    exp = []
    for m in res:
        tr = [EVN[x] for x in m[0]]
        err = None if not m[1] else [CLS[m[1][0][0]], m[1][0][2], m[1][0][1]]       # class, record number, tag
        exp.append({'trace': tr, 'error': err})
    return res, exp


def static2_rel(c, e, g):
    if not isinstance(g, dict) or 'log' not in g:
        return False
    if e['error'] is None:
        # the static phase passes: exactly the model's calls up to and including set_header, then the run - which must not fail
        return g['error'] is None and g['log'][:len(e['trace'])] == e['trace'] and g['log'][-1:] == ['F']
    if g['error'] is None or g['error'][0] != e['error'][0]:
        return False
    if e['error'][0] == 'R' and (g['error'][1] != e['error'][1] or g['error'][2] != 'B'):
        return False
    # before the writer sees anything and before any input record is pulled: the log is the model's trace, nothing more
    return g['log'] == e['trace'] and g.get('label') == LABEL[c['port']][e['error'][0]]


# ------------------------------------------------------------------ late / syntax (harness-side specification)

LATE = ['select MAX(a2) + 1', 'select a1, "x" + MAX(a2)', 'select MIN(a2), a1 + MAX(a2)', 'select COUNT(*) + 1', 'select distinct a1, COUNT(*) group by a1',
        'select distinct count a1, MAX(a2) group by a1', 'select SUM(a2) + SUM(a2)', 'select [MAX(a2)]', 'select (MAX(a2), 1)', 'select MAX(a2), [MIN(a2)]']
LATE_PORT = {'py': ['select str(MAX(a2))', 'select len([MIN(a2)])'], 'js': ['select typeof MAX(a2)', 'select Buffer.byteLength(MAX(a2))', 'select `${MAX(a2)}`']}
# (text, advice kinds, {port: (class, log)} where it is not the default ('S', ['VA', 'H'])): rbql-py parses the SELECT list with ast.parse
# for the output header BEFORE set_header (the syntax error of a broken select list is raised there), rbql-js scans it by hand (a parsing
# error for unbalanced brackets); everything else is rejected when the generated loop is compiled, after set_header
SYNTAX = [('select a1 where a1 )', [], {}), ('select a1 where a1 having 3', ['having'], {}), ('select a1 where a1 like "x"', ['like'], {}),
          ('select a1, a2 where a1 like "x" having 3', ['having', 'like'], {}), ('select (a1', [], {'py': ('S', ['VA']), 'js': ('P', ['VA'])}),
          ('select a1 order by a1 +', [], {}), ('update set a1 = )', [], {}),
          ('select a1 from zz where )', ['from'], {'py': ('S', ['VA'])}), ('select a1 where a1 == "k" having 1 from t', ['from', 'having'], {})]
SYNTAX_JS = [('select a1 where a1 and a2', ['and'], {}), ('select a1 where a1 or a2', ['or'], {}), ('select a1 where a1 or a2 and a3', ['and', 'or'], {})]


def late_cases(ctx):
    r = ctx.rng
    out = []
    for port in ('py', 'js'):
        for text in LATE + LATE_PORT[port]:
            for _ in range(3):
                A = [[r.choice(['k', 'm']), str(r.randint(1, 9)), r.choice(['p', 'q'])] for _ in range(r.randint(1, 5))]
                q = text
                first = 1
                if r.random() < 0.6:
                    v = r.choice(['p', 'q'])
                    passing = [i for i, row in enumerate(A) if row[2] == v]
                    if not passing:
                        A[r.randrange(len(A))][2] = v
                        passing = [i for i, row in enumerate(A) if row[2] == v]
                    first = passing[0] + 1
                    if ' group by' in q:
                        q = q.replace(' group by', ' where a3 == "%s" group by' % v)
                    else:
                        q += ' where a3 == "%s"' % v
                out.append({'part': PART, 'kind': 'late', 'port': port, 'q': q, 'A': A, 'B': None, 'hdrA': None, 'hdrB': None, 'bound': True,
                            'registry': False, 'first_passing': first})
    return out


def late_expected(c):
    return {'error': ['P', 0, None], 'log': ['VA', 'H'] + ['PA'] * c['first_passing']}


def syntax_cases(ctx):
    r = ctx.rng
    out = []
    for port in ('py', 'js'):
        for text, hints, special in SYNTAX + (SYNTAX_JS if port == 'js' else []):
            A = [[r.choice(['k', 'm']), str(r.randint(1, 9)), 'p'] for _ in range(r.randint(1, 3))]
            if port == 'js':
                # rbql-js gives one piece of advice, the first that applies: HAVING, LIKE, FROM, then (identifier errors) and, or
                for k in ('having', 'like', 'from', 'and', 'or'):
                    if k in hints:
                        hints = [k]
                        break
            out.append({'part': PART, 'kind': 'syntax', 'port': port, 'q': text, 'A': A, 'B': None, 'hdrA': None, 'hdrB': None, 'bound': True,
                        'registry': False, 'hints': sorted(hints), 'expect': list(special.get(port, ('S', ['VA', 'H'])))})
    return out


def syntax_expected(c):
    e = {'error': [c['expect'][0], 0, None], 'log': c['expect'][1]}
    if c['expect'][0] == 'S':
        e['hints'] = c['hints']
    return e


def obs_rel(c, e, g):
    if not isinstance(g, dict) or 'log' not in g:
        return False
    if g['error'] != e['error'] or g['log'] != e['log']:
        return False
    if g.get('label') != LABEL[c['port']][e['error'][0]]:
        return False
    return 'hints' not in e or g.get('hints') == e['hints']


# ------------------------------------------------------------------ ambig / config / cli

def ambig_cases(ctx):
    r = ctx.rng
    out = []
    for port in ('py', 'js'):
        for _ in range(12):
            shared = r.choice(['key', 'name', 'val'])
            hdrA = [shared, 'xa', 'ya']
            hdrB = ['kb', shared]
            r.shuffle(hdrA)
            A = [[r.choice(['k', 'm']), str(r.randint(1, 9)), 'p'] for _ in range(r.randint(1, 3))]
            B = [[r.choice(['k', 'm']), 'w%d' % i] for i in range(r.randint(1, 3))]
            used = r.random() < 0.6
            # the shared name is used as a variable, or does not occur in the query text at all
            q = 'select %s, xa join b on ya == kb' % shared if used else 'select xa, kb join b on ya == kb'
            out.append({'part': PART, 'kind': 'ambig', 'port': port, 'q': q, 'A': A, 'B': B, 'hdrA': hdrA, 'hdrB': hdrB, 'used': used,
                        'pandas': port == 'py'})
    return out


def ambig_expected(c):
    return {'error': ['P', 0, None] if c['used'] else None, 'rows': 0 if c['used'] else None}


def ambig_rel(c, e, g):
    if not isinstance(g, dict) or 'rows' not in g:
        return False
    for part in [g] + ([g['pandas']] if 'pandas' in g else []):
        if part['error'] != e['error']:
            return False
        if e['rows'] is not None and part['rows'] not in (e['rows'], None):
            return False
    return True


def config_cases(ctx):
    r = ctx.rng
    out = []
    lines = ['k,1', 'm,2']
    for port in ('py', 'js'):
        base = {'part': PART, 'kind': 'config', 'port': port, 'q': 'select a1', 'in_lines': lines, 'delim': ',', 'policy': 'quoted', 'out_delim': ',',
                'out_policy': 'quoted', 'encoding': 'utf-8', 'expect_error': True}
        out.append(dict(base, delim='"', policy='quoted', what='quote_delim'))
        out.append(dict(base, q='select a1, "é"', encoding='latin-1', what='non_ascii_query', sqlite=(port == 'py')))
        out.append(dict(base, delim='§', policy='simple', encoding='latin-1', what='non_ascii_delim'))
        out.append(dict(base, out_delim='§', out_policy='simple', encoding='latin-1', what='non_ascii_out_delim', sqlite=(port == 'py')))
        if port == 'py':
            out.append(dict(base, delim=r.choice([',', ';', '\t']), policy='whitespace', what='whitespace_delim'))
        # the same settings where they ARE consistent: no error (the check reads its expectation both ways)
        out.append(dict(base, delim='"', policy='simple', what='quote_delim_simple', expect_error=False))
        out.append(dict(base, q='select a1, "é"', encoding='utf-8', what='non_ascii_query_utf8', expect_error=False))
    return out


def config_expected(c):
    return {'error': ['IO', 0, None] if c['expect_error'] else None}


def config_rel(c, e, g):
    if not isinstance(g, dict) or 'out_size' not in g:
        return False
    parts = [g] + ([g['sqlite']] if 'sqlite' in g else [])
    for p in parts:
        if p['error'] != e['error']:
            return False
        if e['error'] is not None and p['out_size'] not in (None, 0):
            return False          # nothing written before the refusal
        if e['error'] is None and not p['out_size']:
            return False
    return g.get('input_intact') is True


def cli_cases(ctx):
    out = []
    lines = ['ka,na', 'k,1', 'm,2']
    jl = ['kb,wb', 'k,w1']
    for port in ('py', 'js'):
        base = {'part': PART, 'kind': 'cli', 'port': port, 'in_lines': lines, 'join_lines': jl, 'delim': ',', 'policy': 'simple', 'with_headers': False}
        for q, cls in (('select a1 where a2 = "1"', 'P'), ('select a1 limit x', 'P'), ('select * except foo', 'P'), ('update set a["zz"] = 1', 'P'),
                       ('select a1 order by a1 group by a2', 'P'), ('select a1 join nosuch.csv on a1 == b1', 'IO'), ('select a1 where a1 )', 'S'),
                       ('select a1 where a1 having 3', 'S'), ('select MAX(a2) + 1', 'P')):
            out.append(dict(base, q=q, cls=cls))
        out.append(dict(base, q='select a.zz', cls='P', with_headers=True))
        out.append(dict(base, q='select a1', cls='IO', delim='"', policy='quoted'))
        out.append(dict(base, q='select a1 where a2 = "1"', cls='P', with_output=False))
        # usage mistakes of the command line itself: refused with an Error [...] line (the label is the port's own: generic / unexpected)
        out.append(dict(base, q='select a1', cls='*', omit_delim=True))
        out.append(dict(base, q='select a1', cls='*', omit_delim=True, omit_policy=True))
    return out


def cli_expected(c):
    return {'label': '*' if c['cls'] == '*' else LABEL[c['port']][c['cls']]}


def cli_rel(c, e, g):
    if not isinstance(g, dict) or 'rc' not in g:
        return False
    label_ok = (g['label'] is not None) if e['label'] == '*' else (g['label'] == e['label'])
    return g['rc'] not in (0, None) and g['stdout_len'] == 0 and label_ok and g['out_size'] in (None, 0)


# ------------------------------------------------------------------ run / replay

def describe(c, e, g):
    return 'rbql-%s %s scenario: query %r A=%s B=%s headers %s / %s%s: expected %s, implementation %s' % (
        c['port'], c['kind'], c.get('q'), json.dumps(c.get('A')), json.dumps(c.get('B')), c.get('hdrA'), c.get('hdrB'),
        (' request %s' % json.dumps(c['req'])) if 'req' in c else '', json.dumps(e), json.dumps(g)[:500])


def impl(cases):
    got = [None] * len(cases)
    env = {'VERIF_SCRATCH': lib.BUILD}
    for port, runner in (('py', lib.run_impl_py), ('js', lib.run_impl_js)):
        idx = [i for i, c in enumerate(cases) if c['port'] == port]
        if idx:
            res = runner('cov_static', [cases[i] for i in idx], shards=min(8, max(1, len(idx) // 20)), extra_env=env)
            for i, x in zip(idx, res):
                got[i] = x
    return got


GROUPS = [
    ('static2', static2_rel, lambda e: dict(e, error=['CANARY', 0, 0], trace=['CANARY'])),
    ('late', obs_rel, lambda e: dict(e, error=['CANARY', 0, None])),
    ('syntax', obs_rel, lambda e: dict(e, error=['CANARY', 0, None])),
    ('ambig', ambig_rel, lambda e: {'error': ['CANARY', 0, None], 'rows': None}),
    ('config', config_rel, lambda e: {'error': ['CANARY', 0, None]}),
    ('cli', cli_rel, lambda e: {'label': 'CANARY'}),
]


def expected_for(cases):
    """expectations by kind; returns (exp, model_args, model_raw) - the latter two for the static2 cases only"""
    exp = [None] * len(cases)
    s2 = [i for i, c in enumerate(cases) if c['kind'] == 'static2']
    raw, e2 = static2_expected([cases[i] for i in s2]) if s2 else ([], [])
    for i, e in zip(s2, e2):
        exp[i] = e
    f = {'late': late_expected, 'syntax': syntax_expected, 'ambig': ambig_expected, 'config': config_expected, 'cli': cli_expected}
    for i, c in enumerate(cases):
        if c['kind'] != 'static2':
            exp[i] = f[c['kind']](c)
    return exp, [enc_req(cases[i]['req']) for i in s2], raw


def run(ctx, theorem):
    n = 150 if ctx.tier == 'quick' else 6000
    cases = static2_cases(ctx, n) + late_cases(ctx) + syntax_cases(ctx) + ambig_cases(ctx) + config_cases(ctx) + cli_cases(ctx)
    exp, margs, mraw = expected_for(cases)
    got = impl(cases)
    th = theorem + ' ; C14_static2_before_output / _pass_header_last / _ports_agree / _refines_static_check (Static2.v, entry 330)'
    for kind, rel, corrupt in GROUPS:
        idx = [i for i, c in enumerate(cases) if c['kind'] == kind]
        ctx.compare([cases[i] for i in idx], [exp[i] for i in idx], [got[i] for i in idx],
                    th if kind == 'static2' else theorem + ' (static / configuration error paths, harness-side specification: %s)' % kind,
                    rel=rel, describe=describe, corrupt=corrupt)
        ctx.stat('covstatic_%s_cases' % kind, len(idx))
    ctx.cross_check_vm(CODE, margs, mraw, n=40)
    ctx.count(len(cases))
    for c, e in zip(cases, exp):
        if c['kind'] == 'static2':
            ctx.stat('covstatic_tag_%s' % (e['error'][2] if e['error'] else 'pass'))
        ctx.nontriv((PART, c['port'], c['kind'], c.get('q'), json.dumps(c.get('A')), json.dumps(c.get('B')), json.dumps(c.get('req'), sort_keys=True), c.get('what'), c.get('delim')))
    ctx.rule += ('; static / configuration error paths of both ports (props/cov_static.py): requests with 0-3 mistakes (each of 21 mistakes forced 3x per port) rendered to '
                 'query text + tables, through rbql.query with logging iterators / writer / registry: error class (and B record number) and the exact call sequence up to the '
                 'failure == Static2.static2 (no set_header / write / finish, no input record pulled); aggregate inside an expression and DISTINCT + aggregates: parsing error at '
                 'the first record passing WHERE, nothing written; host-language syntax errors with their advice lines; ambiguous direct-mode names (query_table, pandas); '
                 'inconsistent query_csv / sqlite configuration: IO error, no output; both command lines: non-zero exit, empty stdout, Error [label]')


def replay(ctx, case, theorem):
    exp, _a, _r = expected_for([case])
    got = impl([case])
    rel = [g for g in GROUPS if g[0] == case['kind']][0][1]
    ctx.count()
    ctx.compare([case], exp, got, theorem, rel=rel, describe=describe)
