# cov_csvmisc.py - C13 helper (coverage gaps of the correspondence runs, notes/covgap.md; harness-side specifications, no Coq model):
#   head          : CSVRecordIterator.get_all_records(n) of both ports over a CSV file: exactly the first n records; over a file much
#                   larger than one read, a bounded read must not consume the file (rbql-js: the stream is destroyed - stop()).
#   sqlite_head   : SqliteRecordIterator.get_all_records(n): the first n rows.
#   write_all     : CSVWriter._write_all(table) (when present) == write() per record + finish(); the table is not modified.
#   pandas_join   : an unknown JOIN table / a JOIN without a join dataframe through query_pandas_dataframe: parsing error, as query_table.
#   jswriter      : rbql-js CSVWriter over a stream that fails from its k-th write: once the failure has been signalled every later
#                   write() and finish() reject with it; jswriter_query: a query from a CSV file into such a writer does not report success.
#   jspolicy      : rbql-js query_csv with an unknown output policy: IO-handling error, nothing written.
import json
import lib

PART = 'cov_csvmisc'


def gen_cases(ctx):
    r = ctx.rng
    out = []
    for port in ('py', 'js'):
        for big in (False, False, False, True):
            for _ in range(3 if not big else 2):
                nl = r.randint(1, 12) if not big else r.randint(60000, 90000)
                lines = ['r%d,%s' % (i, r.choice(['x', 'y', 'zz'])) for i in range(nl)]
                with_header = r.random() < 0.3
                n = r.choice([None, 1, 2, 3, nl, nl + 5]) if not big else r.choice([1, 2, 5, 40])
                out.append({'part': PART, 'kind': 'head', 'port': port, 'lines': lines, 'n': n, 'with_header': with_header, 'big': big})
    for i in range(6):
        rows = [['k%d' % j, r.choice(['x', 'y'])] for j in range(r.randint(0 if i else 2, 8))]
        out.append({'part': PART, 'kind': 'sqlite_head', 'port': 'py', 'rows': rows, 'n': [len(rows) + 2, None, 1, 2, 3, len(rows)][i]})      # (more rows asked for than there are: first)
    for _ in range(8):
        table = [[r.choice(['a', 'b c', 'x,y', 'q"r', '']) for _ in range(r.randint(1, 3))] for _ in range(r.randint(0, 5))]
        out.append({'part': PART, 'kind': 'write_all', 'port': 'py', 'table': table, 'delim': r.choice([',', ';', '\t']), 'policy': r.choice(['simple', 'quoted', 'quoted_rfc'])})
    A, B = [['k', '1'], ['m', '2']], [['k', 'w1']]
    for q, withB in (('select a1, c2 join c on a1 == c1', True), ('select a1 join zz on a1 == zz1', True), ('select a1, b2 join b on a1 == b1', False),
                     ('select a1, b2 join b on a1 == b1', True)):
        out.append({'part': PART, 'kind': 'pandas_join', 'port': 'py', 'q': q, 'A': A, 'B': B if withB else None, 'hdrA': ['ka', 'na'], 'hdrB': ['kb', 'wb'] if withB else None,
                    'ok': q.startswith('select a1, b2') and withB})
    for _ in range(10):
        table = [['r%d' % i, 'x'] for i in range(r.randint(1, 5))]
        fail_at = r.choice([None, 1, 2, 3, 4, 5, 2 * len(table) + 3])
        out.append({'part': PART, 'kind': 'jswriter', 'port': 'js', 'table': table, 'fail_at': fail_at, 'close': r.random() < 0.5})
    for q in ('select a1', 'select a2, a1 where a1 == "abc"'):
        out.append({'part': PART, 'kind': 'jswriter_query', 'port': 'js', 'qjs': q, 'nlines': r.randint(40000, 60000), 'fail_at': r.choice([1, 2, 7])})
    for port in ('py', 'js'):
        for _ in range(6):
            # DISTINCT through the CSV writer with values the writer has to turn into text / quote (numbers, cells with the delimiter):
            # duplicates are removed by VALUE whatever the writer does to the record it is handed (seeded change C13-9)
            vals = r.sample(['x,y', 'ab', 'q"r', 'k', 'zz z'], 3)
            rows = [[r.choice(vals), r.choice(['u', 'vv', 'w,w'])] for _ in range(r.randint(4, 9))]
            top = r.choice([None, None, 2])
            q = 'select %sdistinct a1, %s' % ('top %d ' % top if top else '', 'len(a2)' if port == 'py' else 'a2.length')
            out.append({'part': PART, 'kind': 'distinct_csv', 'port': port, 'q': q, 'qjs': q, 'rows': rows, 'top': top})
    for pol in ('bogus', 'Quoted', ''):
        out.append({'part': PART, 'kind': 'jspolicy', 'port': 'js', 'out_policy': pol})
    return out


def expected(c):
    k = c['kind']
    if k == 'head':
        recs = [l.split(',') for l in c['lines']]
        if c['with_header']:
            recs = recs[1:]
        return {'records': recs if c['n'] is None else recs[:c['n']]}
    if k == 'sqlite_head':
        return {'records': c['rows'] if c['n'] is None else c['rows'][:c['n']]}
    if k == 'write_all':
        return {'same_as_write': True}
    if k == 'pandas_join':
        return {'error': None if c['ok'] else ['P', 0, None]}
    if k == 'distinct_csv':
        seen, res = set(), []
        for a1, a2 in c['rows']:
            if (a1, len(a2)) not in seen:
                seen.add((a1, len(a2)))
                res.append([a1, str(len(a2))])
        return {'rows': res if c['top'] is None else res[:c['top']]}
    if k == 'jswriter':
        nrec = len(c['table'])
        f = c['fail_at']
        if f is None or f > 2 * nrec:
            return {'writes': ['ok'] * nrec, 'finish': 'ok', 'text': ''.join(','.join(r) + '\n' for r in c['table'])}
        i_f = (f - 1) // 2           # the record whose stream write fails still resolves (the failure is signalled asynchronously)
        return {'writes': ['ok'] * (i_f + 1) + ['rej'] * (nrec - i_f - 1), 'finish': 'rej', 'text': None}
    if k == 'jswriter_query':
        return {'outcome': 'failed'}
    if k == 'jspolicy':
        return {'error': 'IO'}
    raise ValueError(k)


def rel(c, e, g):
    if not isinstance(g, dict) or 'driver_exception' in g:
        return False
    k = c['kind']
    if k == 'head':
        if g['records'] != e['records']:
            return False
        if c['big']:
            # a bounded read over a file of several hundred KB: the reader stops (rbql-js: stream destroyed; both: most of the file unread)
            if g['consumed'] * 2 > g['size']:
                return False
            if c['port'] == 'js' and not g['destroyed']:
                return False
        return True
    if k == 'sqlite_head':
        return g['records'] == e['records']
    if k == 'write_all':
        if g.get('absent'):
            return e.get('same_as_write') is True          # a private helper: its absence is not a disagreement (but the canary still must flag)
        return e.get('same_as_write') is True and g['text'] == g['text_by_write'] and g['table_intact'] and g['warnings']
    if k == 'pandas_join':
        for part in ('pandas', 'table'):
            if g[part]['error'] != e['error']:
                return False
        return e['error'] is not None or g['pandas']['rows'] == g['table']['rows']
    if k == 'distinct_csv':
        return g.get('error') is None and g.get('rows') == e['rows']
    if k == 'jswriter':
        return g['writes'] == e['writes'] and g['finish'] == e['finish'] and (e['text'] is None or g['text'] == e['text'])
    if k == 'jswriter_query':
        return g['outcome'] == e['outcome']
    if k == 'jspolicy':
        return g['error'] == e['error'] and g['out_size'] in (None, 0)
    return False


def describe(c, e, g):
    cc = dict(c)
    if 'lines' in cc and len(cc['lines']) > 12:
        cc['lines'] = cc['lines'][:3] + ['... %d lines' % len(c['lines'])]
    gg = dict(g) if isinstance(g, dict) else g
    if isinstance(gg, dict) and isinstance(gg.get('records'), list) and len(gg['records']) > 12:
        gg['records'] = gg['records'][:3] + ['... %d records' % len(g['records'])]
    ee = dict(e)
    if isinstance(ee.get('records'), list) and len(ee['records']) > 12:
        ee['records'] = ee['records'][:3] + ['... %d records' % len(e['records'])]
    return 'rbql-%s %s: %s: expected %s, implementation %s' % (c['port'], c['kind'], json.dumps(cc)[:600], json.dumps(ee)[:300], json.dumps(gg)[:400])


def impl(cases):
    got = [None] * len(cases)
    env = {'VERIF_SCRATCH': lib.BUILD}
    for port, runner in (('py', lib.run_impl_py), ('js', lib.run_impl_js)):
        idx = [i for i, c in enumerate(cases) if c['port'] == port]
        if idx:
            res = runner('cov_csvmisc', [cases[i] for i in idx], shards=min(4, len(idx)), extra_env=env)
            for i, x in zip(idx, res):
                got[i] = x
    return got


CORRUPT = {'distinct_csv': lambda e: {'rows': [['CANARY']]}, 'head': lambda e: {'records': [['CANARY']]}, 'sqlite_head': lambda e: {'records': [['CANARY']]}, 'write_all': lambda e: {'same_as_write': False},
           'pandas_join': lambda e: {'error': ['CANARY', 0, None]}, 'jswriter': lambda e: {'writes': ['CANARY'], 'finish': 'CANARY', 'text': None},
           'jswriter_query': lambda e: {'outcome': 'CANARY'}, 'jspolicy': lambda e: {'error': 'CANARY'}}


def run(ctx, theorem):
    cases = gen_cases(ctx)
    exp = [expected(c) for c in cases]
    got = impl(cases)
    for kind in CORRUPT:
        idx = [i for i, c in enumerate(cases) if c['kind'] == kind]
        ctx.compare([cases[i] for i in idx], [exp[i] for i in idx], [got[i] for i in idx],
                    theorem + ' (CSV / sqlite / pandas adapters, harness-side specification: %s)' % kind, rel=rel, describe=describe, corrupt=CORRUPT[kind])
        ctx.stat('covcsvmisc_%s_cases' % kind, len(idx))
    ctx.count(len(cases))
    for c in cases:
        ctx.nontriv((PART, c['port'], c['kind'], c.get('n'), len(c.get('lines', [])), json.dumps(c.get('table')), c.get('fail_at'), c.get('q'), c.get('out_policy')))
    ctx.rule += ('; adapter paths no other run reaches (props/cov_csvmisc.py, harness-side specifications): get_all_records(n) of the CSV readers of both ports (first n records; a bounded read '
                 'over a 500 KB file leaves most of it unread, rbql-js destroys the stream) and of the sqlite iterator, CSVWriter._write_all == write* + finish, unknown JOIN table through pandas '
                 '(parsing error, as query_table), rbql-js CSVWriter over a failing stream (later write / finish reject; a file query into it does not report success), unknown output policy (IO error)')


def replay(ctx, case, theorem):
    ctx.count()
    ctx.compare([case], [expected(case)], impl([case]), theorem, rel=rel, describe=describe)
