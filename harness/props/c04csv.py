# C04 helper: the pairing through the CSV front-end - query_csv with a JOIN file and a comment prefix, comment lines in the input
# file and in the JOIN file: both tables are the non-comment records (bNR counts those), and the result is the engine model's.
import json
import lib
import qmodel
import enginecheck as ec


def gen_cases(ctx):
    r = ctx.rng
    out = []
    for _ in range(60 if ctx.tier == 'quick' else 6000):
        A = [[r.choice(['k', 'm', 'z']), str(r.randint(1, 9))] for _ in range(r.randint(1, 4))]
        B = [[r.choice(['k', 'm', 'y']), 'w%d' % i] for i in range(r.randint(1, 4))]
        kind = r.choice(['inner', 'left', 'strict'])
        spelling = {'inner': 'join', 'left': 'left join', 'strict': 'strict left join'}[kind]
        items = [('expr', ('fld', 'a', 1)), ('expr', ('fld', 'b', 1))] + ([('expr', ('bNR',))] if r.random() < 0.6 else [])
        qa = {'kind': ('select', items), 'where': None, 'join': {'kind': kind, 'spelling': spelling, 'lhs': [0], 'rhs': [0]}}
        q = 'select a2, b2%s %s jt.csv on a1 == b1' % (', bNR' if len(items) == 3 else '', spelling)

        def with_comments(rows, keys):
            lines = []
            for row in rows:
                if r.random() < 0.4:
                    lines.append('#' + r.choice(keys) + ',' + r.choice(['old', 'x']))      # a commented-out record whose key would match
                lines.append(','.join(row))
            if r.random() < 0.3:
                lines.append('#' + r.choice(keys) + ',end')
            return lines
        out.append({'q': q, 'qa': qa, 'A': A, 'B': B, 'comment': '#', 'part': 'c04csv',
                    'in_lines': with_comments(A, ['k', 'm']), 'join_lines': with_comments(B, ['k', 'm', 'z'])})
    return out


def expected(cases):
    res = lib.run_model(300, [qmodel.enc_run(0, c['qa'], None, c['A'], c['B'], None) for c in cases])
    exp = []
    for m in res:
        o = ec.canon_model(m)
        if o['error'] is not None:
            exp.append({'rows': None, 'error': o['error']})
        else:
            exp.append({'rows': [['' if v is None else str(v) for v in e[1]] for e in o['events'] if e[0] == 'W'], 'error': None})
    return exp


def rel(c, e, g):
    if not isinstance(g, dict) or 'error' not in g:
        return False
    if e['error'] is not None:
        return g['error'] is not None and g['error'][0] == e['error'][0]
    return g['error'] is None and g['rows'] == e['rows']


def describe(c, e, g):
    return 'query_csv %r with comment prefix %r over input lines %s and JOIN file lines %s: model (non-comment records) %s, implementation %s' % (
        c['q'], c['comment'], json.dumps(c['in_lines']), json.dumps(c['join_lines']), json.dumps(e), json.dumps(g))


def run(ctx, theorem):
    cases = gen_cases(ctx)
    exp = expected(cases)
    got = lib.run_impl_py('c04csv', cases, shards=8, extra_env={'VERIF_SCRATCH': lib.BUILD})
    ctx.compare(cases, exp, got, theorem + ' (CSV front-end, comment prefix)', rel=rel, describe=describe,
                corrupt=lambda e: {'rows': [['CANARY']], 'error': None})
    ctx.count(len(cases))
    ctx.stat('csv_join_comment_cases', len(cases))
    for c in cases:
        ctx.nontriv(('c04csv', c['q'], json.dumps(c['in_lines']), json.dumps(c['join_lines'])))


def replay(ctx, case, theorem):
    got = lib.run_impl_py('c04csv', [case], shards=1, extra_env={'VERIF_SCRATCH': lib.BUILD})
    ctx.count()
    ctx.compare([case], expected([case]), got, theorem, rel=rel, describe=describe)
