# C07 - Output header always matches output records and follows the naming rules.
# Model: Header.v (column infos per item shape, select_output_header, EXCEPT/UPDATE/DISTINCT COUNT headers); theorems: Props/C07.v.
# Correspondence: select lists over all item kinds x {header, no header} x {join, no join} x {DISTINCT, DISTINCT COUNT, TOP, GROUP BY}
# through rbql.query_table (Python) and rbql-js query_table: output_column_names = model header; every row as wide as the header.
import json
import lib
from props import hdrjs

THEOREM = 'C07_names / C07_width_select / C07_header_matches_rows / C07_headerless (Props/C07.v)'
NAMES = ['id', 'name', 'x1', 'Val', '_u', "driver's", 'q"r', 'two words', 'Last, First',      # incl. names only a["..."] / a['...'] can spell
         'docs\\new', 'tab\there', 'two\nlines', 'c\rr', 'back\\', 'q\\"r\'s', '\\t']      # backslashes, and characters the engines spell with an escape (finding D24)
USER_VARS = ['a1c', 'b2b', 'a3_total', 'zz9', 'NRx']
INIT_PY = '\n'.join('%s = %d' % (v, i + 7) for i, v in enumerate(USER_VARS))
INIT_JS = ' '.join('var %s = %d;' % (v, i + 7) for i, v in enumerate(USER_VARS))


def gen_item(r, cx, lang_pair=True):
    """returns (hitem sexp, python text, js text)"""
    x = r.random()
    t = 'b' if (cx['nb'] and r.random() < 0.3) else 'a'
    tn = 0 if t == 'a' else 1
    n = cx['na'] if t == 'a' else cx['nb']
    hdr = cx['hdrA'] if t == 'a' else cx['hdrB']
    if x < 0.2:
        i = r.randint(0, n - 1 + (1 if r.random() < 0.1 else 0))
        txt = '%s%d' % (t, i + 1) if r.random() < 0.6 else '%s[%d]' % (t, i + 1)
        return '(0 %d %d)' % (tn, i), txt, txt
    idents = [n for n in (hdr or []) if n.replace('_', 'a').isalnum()]
    if x < 0.3 and idents:
        nm = r.choice(idents)
        txt = '%s.%s' % (t, nm)
        return '(1 %d %s)' % (tn, lib.enc(nm)), txt, txt
    if x < 0.4 and hdr:
        nm = r.choice(hdr)
        q = r.choice(['"', "'"])
        esc = nm.replace('\\', '\\\\').replace('\n', '\\n').replace('\r', '\\r').replace('\t', '\\t').replace(q, '\\' + q)          # the name as a string literal of either language
        txt = '%s[%s%s%s]' % (t, q, esc, q)
        return '(2 %d %s)' % (tn, lib.enc(nm)), txt, txt
    if x < 0.48:
        # bare variables: NR / NF and identifiers defined by the user's init code, some of which only LOOK like aN / bN at the start
        v = r.choice(['NR', 'NF'] + USER_VARS)
        return '(3 %s)' % lib.enc(v), v, v
    if x < 0.54 and not cx['agg']:
        return '(4)', '*', '*'
    if x < 0.58 and not cx['agg']:
        return '(5)', 'a.*', 'a.*'
    if x < 0.62 and cx['nb'] and not cx['agg']:
        return '(6)', 'b.*', 'b.*'
    if x < 0.8:
        alias = r.choice(['total', 'x', 'Zz9', 'a_b', 'NRx'])
        kw = r.choice(['as', 'AS'])
        inner = r.choice([('a1', 'a1'), ('a1 + "x"', 'a1 + "x"'), ('NR + 1', 'NR + 1'), ('"lit, with comma"', '"lit, with comma"'), ('[a1, a2][0]', '[a1, a2][0]'),
                          ('len(a1)', 'a1.length'), ('max(NR, 2)', 'Math.max(NR, 2)'), ('a1 or a2', 'a1 || a2'), ('a1 and a2', 'a1 && a2'), ('not a1', '!a1'),
                          ('a1 if NR > 1 else a2', 'NR > 1 ? a1 : a2'), ('a1 == a2', 'a1 == a2'), ('a1 < a2', 'a1 < a2')])
        return '(8 %s)' % lib.enc(alias), '%s %s %s' % (inner[0], kw, alias), '%s %s %s' % (inner[1], kw, alias)
    if cx['agg']:
        o = r.choice([('count(*)', 'count(*)'), ('MAX(a1)', 'MAX(a1)'), ('ARRAY_AGG(a2)', 'ARRAY_AGG(a2)'), ('COUNT( * )', 'COUNT( * )')])
        return '(7)', o[0], o[1]
    o = r.choice([('a1 + "x"', 'a1 + "x"'), ('"lit"', '"lit"'), ('NR + 1', 'NR + 1'), ('[a1, a2][0]', '[a1, a2][0]'), ('"a,b" + a1', '"a,b" + a1'),
                  ('len(a1)', 'a1.length'), ('max(NR, 2)', 'Math.max(NR, 2)'), ('(a1 + a2)', '(a1 + a2)'), ('{"k": [1, 2]}["k"][0]', '({"k": [1, 2]})["k"][0]'), ('12', '12'),
                  ('(a1, a2)', '[a1, a2]'), ('(a1, a2)', '[a1, a2]')])      # ONE item whose value is a tuple / an array
    return '(7)', o[0], o[1]


def gen_case(r):
    c = gen_case0(r)
    c['init_py'], c['init_js'] = INIT_PY, INIT_JS
    return c


def gen_case0(r):
    na = r.randint(2, 3)
    with_hdr = r.random() < 0.6
    hdrA = r.sample(NAMES, na) if with_hdr else None
    join = r.random() < 0.3
    nb = 2 if join else 0
    hdrB = (['k', 'w'] if with_hdr else None) if join else None
    A = [[r.choice(['1', '2', 'k']) for _ in range(na)] for _ in range(r.randint(1, 3))]
    # (the join table with a header and NO records included: the output header lists its columns all the same, and since fix c71773a -
    # finding D27 - the null record of LEFT JOIN has one field per join column name; C07_left_join_width)
    B = [[r.choice(['1', '2', 'k', 'zz']), 'w%d' % i] for i in range(r.choice([0, 0, 1, 2, 3]))] if join else None
    shape = r.random()
    agg = shape < 0.15 and not join
    cx = {'na': na, 'nb': nb, 'hdrA': hdrA, 'hdrB': hdrB, 'agg': agg}
    mode = 'select'
    dc = 0
    pre = ''
    tail = ''
    if join:
        # inner and LEFT joins: an unmatched record of a LEFT JOIN gets a null B record as wide as the B table, so star items
        # still fill every header column
        tail += r.choice([' join b on a1 == b1', ' left join b on a1 == b1', ' left outer join b on a1 == b1'])
    if shape < 0.15:
        pass
    elif shape < 0.3:
        pre = r.choice(['distinct count ', 'DISTINCT COUNT '])
        dc = 1
    elif shape < 0.4:
        pre = 'distinct '
    elif shape < 0.5:
        pre = 'top 1 '
    if 0.5 <= shape < 0.58 and not join:
        mentions = [r.randint(0, na - 1) for _ in range(r.randint(1, 3))]       # the same column possibly mentioned twice, in any spelling
        idxs = sorted(set(mentions))
        dcx = r.random() < 0.3

        def spell(i):
            nm = hdrA[i] if hdrA else None
            opts = ['a%d' % (i + 1), 'a[%d]' % (i + 1)]
            if nm is not None and nm.replace('_', 'a').isalnum():
                opts.append('a.%s' % nm)
            if nm is not None:
                opts.append('a["%s"]' % nm.replace('\\', '\\\\').replace('\n', '\\n').replace('\r', '\\r').replace('\t', '\\t').replace('"', '\\"'))
            return r.choice(opts)
        q = 'select %s* except %s' % ('distinct count ' if dcx else r.choice(['', 'distinct ', 'top 2 ']), ', '.join(spell(i) for i in mentions))
        return {'q': q, 'qjs': q, 'A': A, 'B': B, 'hdrA': hdrA, 'hdrB': hdrB, 'hq': '(1 (%s) %d)' % (' '.join(map(str, idxs)), 1 if dcx else 0), 'kind': 'except'}
    if 0.58 <= shape < 0.64:
        q = 'update a1 = a2' + tail
        return {'q': q, 'qjs': q, 'A': A, 'B': B, 'hdrA': hdrA, 'hdrB': hdrB, 'hq': '(2)', 'kind': 'update'}
    items = [gen_item(r, cx) for _ in range(r.randint(1, 4))]
    if join and not agg and r.random() < 0.4:
        items.insert(r.randint(0, len(items)), r.choice([('(6)', 'b.*', 'b.*'), ('(4)', '*', '*'), ('(0 1 1)', 'b2', 'b2')]))
    sel_py = ', '.join(i[1] for i in items)
    sel_js = ', '.join(i[2] for i in items)
    q = 'select %s%s%s' % (pre, sel_py, tail)
    qjs = 'select %s%s%s' % (pre, sel_js, tail)
    if agg and r.random() < 0.5:
        q += ' group by a1'
        qjs += ' group by a1'
    return {'q': q, 'qjs': qjs, 'A': A, 'B': B, 'hdrA': hdrA, 'hdrB': hdrB, 'hq': '(0 (%s) %d)' % (' '.join(i[0] for i in items), dc), 'kind': 'agg' if agg else 'select'}


def model_header(cases):
    args = []
    for c in cases:
        ih = '()' if c['hdrA'] is None else '((%s))' % ' '.join(lib.enc(s) for s in c['hdrA'])
        jh = '()' if c['hdrB'] is None else '((%s))' % ' '.join(lib.enc(s) for s in c['hdrB'])
        args.append('(%s %s %s)' % (ih, jh, c['hq']))
    res = lib.run_model(550, args)
    out = []
    for m in res:
        if m[0] == 0:
            out.append({'header': None, 'perr': False})
        elif m[0] == 1:
            out.append({'header': [lib.dec_str(s) for s in m[1]], 'perr': False})
        else:
            out.append({'header': None, 'perr': True})
    return args, res, out


def rel(c, e, g):
    if not isinstance(g, dict) or 'header' not in g:
        return False
    if e['header'] == []:
        e = dict(e, header=None)      # query_table cannot show the difference between an empty header and no header
    if e['perr']:
        return g['error'] is not None and g['error'][0] == 'P'
    if g['error'] is not None:
        # a runtime error of the data (e.g. non-constant group column) does not concern the header: it is set before the loop
        return g['error'][0] == 'R' and (g['header'] == e['header'] or g['header'] is None)
    if g['header'] != e['header']:
        return False
    if e['header'] is not None and any(w != len(e['header']) for w in g['widths']):
        return False
    return True


def run(ctx):
    r = ctx.rng
    n = 3000 if ctx.tier == 'quick' else 300000
    cases = [gen_case(r) for _ in range(n)]
    args, raw, exp = model_header(cases)
    for name in ('py', 'js'):
        got = lib.run_impl_py('c07', cases) if name == 'py' else lib.run_impl_js('c07', cases, shards=8)
        tagged = [dict(c, impl=name) for c in cases]
        ctx.compare(tagged, exp, got, THEOREM, rel=rel,
                    describe=lambda c, e, g: '%s: query %r (input header %s, join header %s): model header %s, implementation %s' % (
                        c['impl'], c['q'] if c['impl'] == 'py' else c['qjs'], c['hdrA'], c['hdrB'], json.dumps(e), json.dumps(g)),
                    corrupt=lambda e: {'header': ['CANARY'], 'perr': False})
        for c, e, g in zip(cases, exp, got):
            ctx.count()
            ctx.stat('%s_%s_%s' % (name, c['kind'], 'hdr' if e['header'] is not None else ('perr' if e['perr'] else 'nohdr')))
            if e['header'] is not None:
                ctx.nontriv((name, c['q'], json.dumps(c['hdrA']), json.dumps(c['hdrB'])))
            if c['B'] is not None and not c['B'] and ' left ' in c['q'] and e['header'] is not None and isinstance(g, dict) and g.get('nrows'):
                ctx.stat('%s_left_join_header_only_table_rows' % name)
        ctx.sample_safe(lambda: {'impl': name, 'query': cases[0]['q'] if name == 'py' else cases[0]['qjs'], 'input_header': cases[0]['hdrA'], 'model': exp[0], 'implementation': got[0]})
    ctx.cross_check_vm(550, args, raw, n=60)
    hdrjs.run(ctx, cases[:3000])      # HeaderJs.v (character-level model of the JS derivation) against rbql-js on the same select lists
    ctx.rule = ('select lists of 1-4 items over {aN, a[N], a.name, a["name"], NR/NF, *, a.*, b.*, other expressions with nested brackets and commas inside calls/literals, aliases as/AS, '
                'aggregates} x {header, no header} x {join 30%, join table of 0-3 records: a join table with a header and no records included} x {DISTINCT, DISTINCT COUNT, TOP, GROUP BY, EXCEPT, UPDATE}; Python and JS renderings of the same item list; '
                'observed: output_column_names and the width of every output row; non-trivial = distinct case with an output header')


def replay(ctx, case):
    if case.get('probe') == 'hdrjs':
        return hdrjs.replay(ctx, case)
    args, raw, exp = model_header([case])
    got = lib.run_impl_py('c07', [case]) if case.get('impl', 'py') == 'py' else lib.run_impl_js('c07', [case])
    ctx.count()
    ctx.compare([case], exp, got, THEOREM, rel=rel)
