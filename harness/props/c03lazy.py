# c03lazy.py - C03 helper (not a property of its own): "lower-case min/max/sum called with several arguments OR AN ITERABLE keep their
# Python builtin meaning".  The model's builtin forms with one argument (`bmaxl` / `bminl` / `bsuml`, Mad.v + C03_builtin_forms) take a
# list VALUE; in query text that value used to be spelled as a list display only.  Here the SAME model expression is rendered with its
# argument spelled as any other kind of Python iterable over the same elements in the same order - a tuple, and the LAZY ones that have
# no __len__ and are not sequences: iter(), a generator expression, map(), filter(), reversed(), zip(), enumerate().  The expectation
# stays the extracted Coq model's (engine entry 300 on the unchanged `qa`); the only harness-side assumption is CPython's (DESIGN 6.1):
# max / min / sum consume any iterable the way they consume the list of its elements.  A dispatcher that decides "builtin or aggregate"
# by looking at the argument's TYPE (has a length? is a list?) instead of trying the builtin is what this spelling class is for.
# Called from c03.gen_case; a respelled case is an ordinary engine case (`qa` + `q`), so enginecheck.replay replays it unchanged.
import qmodel

FN = {'bmaxl': 'max', 'bminl': 'min', 'bsuml': 'sum'}


class LazyRenderer(qmodel.Renderer):
    """Renderer whose single-iterable builtin calls are spelled with a random kind of iterable"""

    def __init__(self, lang, rng):
        qmodel.Renderer.__init__(self, lang, rng)
        self.used = []

    def expr(self, e):
        if e[0] in FN and e[1][0] == 'list' and self.lang == 'py':
            fn = FN[e[0]]
            L = qmodel.Renderer.expr(self, e[1])             # '[x1, x2, ...]'
            inner = L[1:-1]
            forms = ['list', 'tuple', 'tuple_display', 'iter', 'genexp', 'genexp_if', 'map', 'filter', 'reversed', 'zip', 'enumerate', 'iter_tuple']
            k = self.rng.choice(forms)
            self.used.append(k)
            if k == 'list':
                return '%s(%s)' % (fn, L)
            if k == 'tuple':
                return '%s(tuple(%s))' % (fn, L)
            if k == 'tuple_display':
                return '%s((%s,))' % (fn, inner) if inner else '%s(())' % fn
            if k == 'iter':
                return '%s(iter(%s))' % (fn, L)
            if k == 'iter_tuple':
                return '%s(iter(tuple(%s)))' % (fn, L)
            if k == 'genexp':
                return '%s(v for v in %s)' % (fn, L)
            if k == 'genexp_if':
                return '%s(v for v in %s if v is not None)' % (fn, L)      # (the generated elements are strings / ints, never None)
            if k == 'map':
                return '%s(map(lambda v: v, %s))' % (fn, L)
            if k == 'filter':
                return '%s(filter(lambda v: True, %s))' % (fn, L)
            if k == 'reversed':
                return '%s(reversed(%s[::-1]))' % (fn, L)                  # same elements, same order
            if k == 'zip':
                # zip(L) yields 1-tuples: their max / min is the 1-tuple of the max / min (same error on an empty one); sum over the unpacked items
                if fn == 'sum':
                    return 'sum(v[0] for v in zip(%s))' % L
                return '%s(zip(%s))[0]' % (fn, L)
            if k == 'enumerate':
                return '%s(v for _i, v in enumerate(%s))' % (fn, L)
        return qmodel.Renderer.expr(self, e)


def has_single_iterable_form(e):
    if not isinstance(e, tuple):
        return False
    if e and e[0] in FN:
        return True
    return any(has_single_iterable_form(x) for x in e[1:]) or any(isinstance(x, list) and any(has_single_iterable_form(y) for y in x) for x in e[1:])


def query_has_form(qa):
    k = qa['kind']
    if k[0] != 'select':
        return False
    for it in k[1]:
        if it[0] == 'expr' and has_single_iterable_form(it[1]):
            return True
        if it[0] == 'agg' and len(it) > 3 and has_single_iterable_form(it[3]):
            return True
    return False


def respell(ctx, case):
    """re-render the query text of an engine case with its single-iterable builtin calls spelled as random iterables"""
    if not query_has_form(case['qa']):
        return case
    rend = LazyRenderer('py', ctx.rng)
    case['q'] = rend.query(case['qa'])
    for k in rend.used:
        ctx.stat('builtin_single_iterable_spelled_' + k)
    return case
