# C04 helper: the pairing when BOTH tables are FILES (query_csv of both ports, the JOIN table located by path) and the files carry what
# real files carry: a UTF-8 byte order mark at the start of either file, LF / CRLF / CR line ends, a missing final line end, quoted
# fields, comment lines, utf-8 or latin-1 bytes - with the key in the first or in a later column.
#
# Why this module exists (mutation rehearsal, notes/s3.md, seed C04-13): every other leg of C04 hands the engine LISTS, and the one CSV
# leg (props/c04csv.py) writes both files itself as plain "a,b\n" lines. The JOIN file is opened by a different piece of code
# (the table registry) than the input file; nothing ever gave that path a file whose bytes differ from its records - a BOM in front of
# the first key, CRLF behind the last one - so a registry that decodes the JOIN file differently from the input file paired every
# record correctly in all generated cases.
#
# Expected value, from the Coq models only:
#   records of file A, records of file B  =  reader specification records_of_text over the splitter model (entry 250; what both ports'
#                                            readers compute by C12_records / C20_stream_is_bulk / C18_readers_agree): the BOM is not data,
#                                            CR / LF / CRLF end a line, comment lines are not records
#   result                                =  engine model (entry 300: Join.v pairing, C04_paired / C04_downstream) over these two tables
# compared with the output file of query_csv (simple policy, TAB separated: no cell contains a TAB): same rows, or the same error class.
import json
import lib
import qmodel
import enginecheck as ec
from props import c12

POLCODE = {'simple': 0, 'quoted': 1, 'quoted_rfc': 2, 'whitespace': 3, 'monocolumn': 4}
BOM = b'\xef\xbb\xbf'
SUFFIX = ' (both tables as files: BOM / line ends / quoting / comments / encoding of the JOIN file; reader spec entry 250 + engine model)'


def render_file(r, rows, pol, dlm, enc, comment):
    """a table as file bytes; the harness does not need to be right about the dialect: what the bytes MEAN is decided by entry 250"""
    eol = r.choice(['\n', '\n', '\r\n', '\r\n', '\r'])
    lines = []
    for row in rows:
        if comment and r.random() < 0.3:
            lines.append(comment + r.choice(['k', 'm', 'x']) + dlm + 'old')        # a commented-out record whose key would match
        cells = []
        for cell in row:
            if pol != 'simple' and (dlm in cell or '"' in cell or r.random() < 0.1):
                cell = '"' + cell.replace('"', '""') + '"'
            cells.append(cell)
        lines.append(dlm.join(cells))
    text = eol.join(lines)
    if lines and r.random() < 0.75:
        text += eol
    data = text.encode(enc)
    bom = r.random() < 0.4
    return (BOM if bom else b'') + data, bom


def gen_case(ctx, lang):
    r = ctx.rng
    enc = r.choice(['utf-8', 'utf-8', 'latin-1'])
    pol, dlm = r.choice([('simple', ','), ('simple', ';'), ('quoted', ','), ('quoted_rfc', ',')])
    comment = '#' if r.random() < 0.2 else None
    keys = ['k', 'm', 'z', '1', 'é', 'K'] + (['a,b', 'q"r', ' k'] if pol != 'simple' else ['k k'])
    keys = r.sample(keys, r.randint(2, 4))
    na, nb = r.randint(1, 3), r.randint(1, 3)
    ka, kb = r.randrange(na), (0 if r.random() < 0.6 else r.randrange(nb))           # the key of B often in its FIRST column (next to a BOM)
    A = [[r.choice(keys) for _ in range(na)] for _ in range(r.randint(0, 5))]
    B = [[r.choice(keys) if j == kb else 'w%d%s' % (i, r.choice(['', 'é'])) for j in range(nb)] for i in range(r.randint(0, 4))]
    if B and r.random() < 0.5:
        B[0][kb] = r.choice([row[ka] for row in A] or keys)                           # the FIRST record of B has a partner in A
    kind, spelling = r.choice([('inner', 'join'), ('inner', 'inner join'), ('left', 'left join'), ('left', 'left outer join'), ('strict', 'strict left join')])
    join = {'kind': kind, 'spelling': spelling, 'lhs': [ka], 'rhs': [kb]}
    if r.random() < 0.2:
        join['lhs'].append(None)
        join['rhs'].append(None)                                                      # ... and NR == bNR
    x = r.random()
    if x < 0.6:
        items = [('expr', ('fld', 'a', r.randrange(na))), ('expr', ('fld', 'b', r.randrange(nb))), ('expr', ('bNR',))]
        qa = {'kind': ('select', items), 'where': None, 'join': join}
    elif x < 0.8:
        qa = {'kind': ('select', [('expr', ('NR',)), ('starb',)]), 'where': None, 'join': join}
    else:
        qa = {'kind': ('select', [('expr', ('fld', 'a', ka)), ('agg', 'COUNT', 'COUNT', ('lit', 1), 'star')]), 'where': None, 'join': join, 'group': [('fld', 'a', ka)]}
    qa['join_table'] = 'JOINFILE'
    qa['shuffle_clauses'] = True
    fa, bom_a = render_file(r, A, pol, dlm, enc, comment)
    fb, bom_b = render_file(r, B, pol, dlm, enc, comment)
    return {'part': 'c04file', 'impl': lang, 'qa': qa, 'q': qmodel.Renderer(lang, r).query(qa), 'enc': enc, 'pol': pol, 'dlm': dlm, 'comment': comment,
            'file_a': list(fa), 'file_b': list(fb), 'bom': [bom_a, bom_b], 'bulk': lang == 'js' and r.random() < 0.4}


def expected(cases):
    rargs = []
    for c in cases:
        for f in ('file_a', 'file_b'):
            cfg = c12.cfg_sx({'policy': c['pol'], 'comment': c['comment'], 'header': False}, c['enc'])
            rargs.append(lib.enc([cfg, POLCODE[c['pol']], c['dlm'], bytes(c[f]).decode(c['enc'])]))
    reads = [c12.dec_result(m) for m in lib.run_model(250, rargs)]
    exp = [None] * len(cases)
    jobs = []
    for i, c in enumerate(cases):
        ra, rb = reads[2 * i], reads[2 * i + 1]
        if ra[0] != 'ok' or rb[0] != 'ok':
            exp[i] = {'rows': None, 'error': ['IO'], 'tables': None} if 'err' in (ra[0], rb[0]) else {'model': [ra, rb]}
            continue
        jobs.append((i, ra[1], rb[1]))
    res = lib.run_model(300, [qmodel.enc_run(0 if cases[i]['impl'] == 'py' else 1, cases[i]['qa'], None, ta, tb, None) for i, ta, tb in jobs])
    for (i, ta, tb), m in zip(jobs, res):
        o = ec.canon_model(m)
        if o is None:
            exp[i] = {'unmodelled': True}
        elif o['error'] is not None:
            exp[i] = {'rows': None, 'error': [o['error'][0]], 'tables': [ta, tb]}
        else:
            exp[i] = {'rows': [['' if v is None else str(v) for v in e[1]] for e in o['events'] if e[0] == 'W'], 'error': None, 'tables': [ta, tb]}
    return exp, rargs


def rel(c, e, g):
    if e.get('unmodelled'):
        return True
    if 'error' not in e or not isinstance(g, dict) or 'error' not in g:
        return False
    if e['error'] is not None:
        return g['error'] is not None and g['error'][0] == e['error'][0]
    return g['error'] is None and g['rows'] == e['rows']


def describe(c, e, g):
    return ('query_csv (%s%s) %r, %s %s %r comment %r; input file bytes %r, JOIN file bytes %r: the files denote the tables %s (reader spec), so the pairing is %s; implementation %s'
            % (c['impl'], ', bulk_read' if c.get('bulk') else '', c['q'], c['enc'], c['pol'], c['dlm'], c['comment'], bytes(c['file_a']), bytes(c['file_b']),
               json.dumps(e.get('tables'), ensure_ascii=False), json.dumps({k: e.get(k) for k in ('rows', 'error')}, ensure_ascii=False)[:400], json.dumps(g, ensure_ascii=False)[:400]))


def evaluate(cases):
    exp, rargs = expected(cases)
    got = [None] * len(cases)
    for lang, runner in (('py', lib.run_impl_py), ('js', lib.run_impl_js)):
        idx = [i for i, c in enumerate(cases) if c['impl'] == lang]
        if idx:
            for i, g in zip(idx, runner('c04file', [cases[i] for i in idx], shards=8, extra_env={'VERIF_SCRATCH': lib.BUILD})):
                got[i] = g
    return exp, got, rargs


def run(ctx, theorem):
    n = 150 if ctx.tier == 'quick' else 12000
    cases = [gen_case(ctx, lang) for _ in range(n) for lang in ('py', 'js')]
    exp, got, rargs = evaluate(cases)
    ctx.compare(cases, exp, got, theorem + SUFFIX, rel=rel, describe=describe, corrupt=lambda e: {'rows': [['CANARY']], 'error': None, 'tables': None})
    ctx.count(len(cases))
    for c, e in zip(cases, exp):
        ctx.stat('file_join_%s' % c['impl'])
        if c['bom'][1]:
            ctx.stat('file_join_bom_in_join_file')
        if c['bom'][0]:
            ctx.stat('file_join_bom_in_input_file')
        if e.get('error'):
            ctx.stat('file_join_error_' + e['error'][0])
        if e.get('rows'):
            ctx.nontriv(('c04file', c['impl'], c['q'], bytes(c['file_a']), bytes(c['file_b'])))
    ctx.rule += ('; file level: %d query_csv runs (both ports; rbql-js also with bulk_read) over an input file and a JOIN file located by path, each with / without a UTF-8 BOM, LF / CRLF / CR line ends, '
                 'with / without a final line end, simple / quoted / quoted_rfc fields, comment lines, utf-8 / latin-1, the key in the first or a later column, 5 join spellings, 1-2 key pairs, '
                 'select / b.* / GROUP BY downstream: tables = reader specification (entry 250) of the bytes, result = engine model over them' % len(cases))


def replay(ctx, case, theorem):
    exp, got, _a = evaluate([case])
    ctx.count()
    ctx.compare([case], exp, got, theorem + SUFFIX, rel=rel, describe=describe)
