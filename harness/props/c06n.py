# C06 helper (not a property of its own): list sources whose cells may themselves be lists (and None), handed to the CSV writers
# of both ports. The writers normalise the record they are given IN PLACE, so the engine must hand them fresh lists only and the
# writers must not rewrite list-valued cells they did not create. Expected: sources deep-equal and object-identical afterwards.
import json
import lib

QUERIES = [('select *', 'select *'), ('select a1, a2', 'select a1, a2'), ('select a.*', 'select a.*'), ('update a2 = a1', 'update a2 = a1'),
           ('update a1 = a2 where NR > 1', 'update a1 = a2 where NR > 1'), ('select * except a1', 'select * except a1'),
           ('select distinct a1', 'select distinct a1'), ('select top 1 *', 'select top 1 *'), ('select a1 order by NR desc', 'select a1 order by NR desc'),
           ('select a.*, b.* join b on NR == bNR', 'select a.*, b.* join b on NR == bNR'), ('select b1, a2 left join b on NR == bNR', 'select b1, a2 left join b on NR == bNR'),
           ('update a1 = b1 join b on NR == bNR', 'update a1 = b1 join b on NR == bNR'), ('select a2, count(*) group by a2', 'select a2, count(*) group by a2')]


def gen_cell(r, depth=0):
    x = r.random()
    if x < 0.45 or depth >= 2:
        return r.choice(['x', 'y', '1', 'a b', ''])
    if x < 0.6:
        return None
    return [gen_cell(r, depth + 1) for _ in range(r.randint(0, 3))]


def gen_cases(ctx):
    r = ctx.rng
    n = 300 if ctx.tier == 'quick' else 30000
    out = []
    for _ in range(n):
        q, qjs = r.choice(QUERIES)
        A = [[gen_cell(r) for _ in range(2)] for _ in range(r.randint(0, 4))]
        B = [[gen_cell(r) for _ in range(2)] for _ in range(r.randint(0, 3))] if ' join ' in q else None
        pol, dlm = r.choice([('simple', ','), ('quoted', ','), ('quoted_rfc', ';'), ('simple', '|')])
        if 'group by' in q or 'distinct' in q:
            A = [[c if not isinstance(c, list) else 'l' for c in row] for row in A]     # list cells are not hashable keys
        names = None
        if r.random() < 0.5 and ' join ' not in q:
            # the caller's column-name list (with names the writer has to quote / normalise): also a source, also left alone
            names = r.choice([['n1', 'n2'], ['a,b', 'c'], ['x;y', 'q"r'], ['p|q', 'r']])
        out.append({'q': q, 'qjs': qjs, 'A': A, 'B': B, 'names': names, 'pol': pol, 'dlm': dlm, 'part': 'csvwriter_sources'})
    return out


def rel(c, e, g):
    return isinstance(g, dict) and g.get('sources_ok') is True


def describe(c, e, g):
    return ('%s: query %r over list source A=%s B=%s written through CSVWriter(%s, %r): sources must be unchanged and identical objects; implementation: %s'
            % (c.get('impl'), c['q'], json.dumps(c['A']), json.dumps(c['B']), c['pol'], c['dlm'], json.dumps(g)[:500]))


def run(ctx, theorem):
    cases = gen_cases(ctx)
    exp = [{'sources_ok': True} for _ in cases]
    corrupt = lambda e: {'sources_ok': 'CANARY'}
    relc = lambda c, e, g: rel(c, e, g) and e.get('sources_ok') is True
    gp = lib.run_impl_py('c06n', cases)
    gj = lib.run_impl_js('c06n', cases, shards=8)
    ctx.compare([dict(c, impl='py') for c in cases], exp, gp, theorem, rel=relc, describe=describe, corrupt=corrupt)
    ctx.compare([dict(c, impl='js') for c in cases], exp, gj, theorem, rel=relc, describe=describe, corrupt=corrupt)
    ctx.count(2 * len(cases))
    ctx.stat('csvwriter_source_cases', len(cases))
    for c in cases:
        if any(isinstance(x, list) or x is None for row in c['A'] for x in row):
            ctx.nontriv(('csvwriter_sources', c['q'], json.dumps(c['A']), c['pol']))


def replay(ctx, case, theorem):
    impl = case.get('impl', 'py')
    c = {k: v for k, v in case.items() if k != 'impl'}
    g = (lib.run_impl_py if impl == 'py' else lib.run_impl_js)('c06n', [c], shards=1)
    ctx.count()
    ctx.compare([dict(c, impl=impl)], [{'sources_ok': True}], g, theorem, rel=rel, describe=describe)
