# C14, CSV-level warnings and IO errors (helper of props/c14.py, not a property of its own).
# "Warnings are exact: ... None written to CSV, the delimiter inside simple-policy output, a BOM, and malformed quoting are each
#  reported if and only if the condition occurred; undecodable or inconsistent input [is reported] as IO-handling errors."
# Every case is a byte string fed file to file through query_csv of BOTH ports. Expected, from the models:
#   input side : reader specification records_of_text over the splitter model (entry 250; = both stream readers by
#                C12_records / C20_stream_is_bulk / C18_readers_agree): records, BOM / defective-line / field-count warnings, rfc error
#   output side: the writer model (entry 120): written lines, None / delimiter flags, writer error
# so the set of warning kinds must be EXACTLY the union of the two, the output text exactly the model's lines, and an
# undecodable (utf-8) input an IO-handling error.
import importlib
import json
import lib

c10 = importlib.import_module('props.c10')
c12 = importlib.import_module('props.c12')
POLCODE = {'simple': 0, 'quoted': 1, 'quoted_rfc': 2, 'whitespace': 3, 'monocolumn': 4}
IN_CFG = [('simple', ','), ('quoted', ','), ('quoted_rfc', ','), ('quoted', ';'), ('whitespace', ' '), ('monocolumn', ''), ('simple', '::')]
OUT_CFG = [('simple', ','), ('simple', ';'), ('quoted', ','), ('quoted_rfc', ','), ('simple', '\t'), ('quoted', '::'), ('monocolumn', '')]
QUERIES = [('select *', 'select *', 'star'), ('select *, None', 'select *, null', 'star_none'), ('select [a1, None], NR', 'select [a1, null], NR', 'list_none'), ("select 'x'", "select 'x'", 'const'), ('select NR', 'select NR', 'nr')]
INVALID = [[0x61, 0x2C, 0xC3], [0xC3, 0x28, 0x0A], [0x61, 0x0A, 0xE2, 0x82], [0xFF, 0x0A, 0x61], [0xED, 0xA0, 0x80], [0x80, 0x0A], [0x61, 0x2C, 0x62, 0x0A, 0xF0, 0x9D, 0x84],
           [0xF0, 0x9F, 0x98], [0x61, 0x0A, 0xF0, 0x9F, 0x98, 0x0A], [0xE2, 0x82, 0x2C, 0x61], [0xF0, 0x9F, 0x98, 0x2C, 0xF0, 0x9F, 0x98]]      # incl. characters cut after their last-but-one byte


def gen_cases(ctx):
    r = ctx.rng
    n = 1200 if ctx.tier == 'quick' else 60000
    toks = ['a', 'b', '"', ',', ';', ' ', '\n', '\r\n', '\r', '﻿', 'é', '::', '""', '"a"', 'a,b', '\t']
    cases = []
    for i in range(n):
        in_pol, in_dlm = r.choice(IN_CFG)
        out_pol, out_dlm = r.choice(OUT_CFG)
        q, qjs, qk = r.choice(QUERIES[:3])
        if out_pol == 'monocolumn':
            q, qjs, qk = r.choice(QUERIES[3:])            # one output column; with NR a NUMBER is the single field
        enc = r.choice(['utf-8', 'utf-8', 'latin-1'])
        text = ''.join(r.choice(toks) for _ in range(r.randint(0, 10)))
        if r.random() < 0.25:
            text = '﻿' + text                          # encoded as EF BB BF: a BOM for both encodings
        if r.random() < 0.3 and not text.endswith('\n'):
            text += '\n'
        data = list(text.encode('utf-8'))
        cases.append({'data': data, 'enc': enc, 'in_pol': in_pol, 'in_dlm': in_dlm, 'out_pol': out_pol, 'out_dlm': out_dlm,
                      'query': q, 'queryjs': qjs, 'qk': qk, 'bulk': r.random() < 0.3, 'part': 'csvwarn'})
    for b in INVALID:
        for in_pol, in_dlm in IN_CFG[:3]:
            for bulk in (False, True):         # rbql-js: the stream decoder and the bulk path's own validity check
                cases.append({'data': b, 'enc': 'utf-8', 'in_pol': in_pol, 'in_dlm': in_dlm, 'out_pol': 'simple', 'out_dlm': ',',
                              'query': 'select *', 'queryjs': 'select *', 'qk': 'star', 'bulk': bulk, 'part': 'csvwarn'})
    return cases


def expected(cases):
    """model side: reader spec (250) then writer (120), per port"""
    texts = []
    for c in cases:
        try:
            texts.append(bytes(c['data']).decode(c['enc']))
        except UnicodeDecodeError:
            texts.append(None)
    idx = [i for i, t in enumerate(texts) if t is not None]
    rargs = [lib.enc([c12.cfg_sx({'policy': cases[i]['in_pol'], 'comment': None, 'header': False}, cases[i]['enc']),
                      POLCODE[cases[i]['in_pol']], cases[i]['in_dlm'], texts[i]]) for i in idx]
    rres = lib.run_model(250, rargs)
    reads = {i: c12.dec_result(m) for i, m in zip(idx, rres)}
    exp = {'py': [None] * len(cases), 'js': [None] * len(cases)}
    wjobs = []
    for i, c in enumerate(cases):
        if texts[i] is None or reads[i][0] == 'err':
            for impl in ('py', 'js'):
                exp[impl][i] = {'out': None, 'warnings': None, 'error': ['IO', 0, None]}
            continue
        d = reads[i]
        if d[0] != 'ok':
            for impl in ('py', 'js'):
                exp[impl][i] = {'model': d}
            continue
        recs = d[1]
        if c['qk'] == 'star':
            rows = recs
        elif c['qk'] == 'star_none':
            rows = [r + [None] for r in recs]
        elif c['qk'] == 'list_none':
            rows = [[[(r[0] if r else None), None], k + 1] for k, r in enumerate(recs)]      # a None INSIDE a list cell is a None written too
        elif c['qk'] == 'nr':
            rows = [[k + 1] for k, _r in enumerate(recs)]
        else:
            rows = [['x'] for _ in recs]
        for impl in ('py', 'js'):
            wjobs.append((i, impl, {'impl': impl, 'pol': c['out_pol'], 'dlm': c['out_dlm'], 'enc': c['enc'] if impl == 'py' or c['enc'] == 'utf-8' else 'binary', 'header': None, 'rows': rows}))
    wres = lib.run_model(120, [c10.model_arg(j[2]) for j in wjobs])
    for (i, impl, job), m in zip(wjobs, wres):
        lines, err, nonef, delimf, _rb, _exact = m
        d = reads[i]
        if err:
            exp[impl][i] = {'out': None, 'warnings': None, 'error': ['IO', 0, None] if err[0][1] in (1, 2) else ['O', 0, 'writer']}
            continue
        kinds = (['bom'] if d[3][0] else []) + (['quoting'] if d[3][1] is not None else []) + (['num_fields'] if d[3][2] is not None else [])
        kinds += (['none'] if nonef else []) + (['separator'] if delimf else [])
        exp[impl][i] = {'out': ''.join(lib.dec_str(l) + '\n' for l in lines), 'warnings': sorted(kinds), 'error': None}
    return exp, rargs, rres


def rel(c, e, g):
    if not isinstance(g, dict) or not isinstance(e, dict) or 'error' not in g or 'error' not in e:
        return False
    if e['error'] is not None or g['error'] is not None:
        return e['error'] is not None and g['error'] is not None and e['error'][0] == g['error'][0]
    return e['warnings'] == g['warnings'] and e['out'] == g['out']


def describe(c, e, g):
    return ('query_csv (%s) on input bytes %r (%s, %s %r) -> (%s %r), query %r: model (reader spec + writer) expects %s, implementation gives %s'
            % (c.get('impl'), bytes(c['data']), c['enc'], c['in_pol'], c['in_dlm'], c['out_pol'], c['out_dlm'], c['query'], json.dumps(e), json.dumps(g)))


def run(ctx, theorem):
    cases = gen_cases(ctx)
    exp, rargs, rres = expected(cases)
    gp = lib.run_impl_py('c14w', cases)
    gj = lib.run_impl_js('c14w', cases)
    corrupt = lambda e: dict(e, warnings=(e.get('warnings') or []) + ['CANARY'], error=None, out=e.get('out') or '')
    ctx.compare([dict(c, impl='py') for c in cases], exp['py'], gp, theorem, rel=rel, describe=describe, corrupt=corrupt)
    ctx.compare([dict(c, impl='js') for c in cases], exp['js'], gj, theorem, rel=rel, describe=describe, corrupt=corrupt)
    ctx.cross_check_vm(250, rargs, rres, n=30)
    run_color(ctx, theorem)
    ctx.count(2 * len(cases))
    for c, e in zip(cases, exp['py']):
        if e.get('error'):
            ctx.stat('csv_io_error_expected')
            ctx.nontriv(('csvwarn', 'err', bytes(c['data']), c['in_pol']))
        else:
            for k in e.get('warnings') or []:
                ctx.stat('csv_warning_' + k)
            if e.get('warnings'):
                ctx.nontriv(('csvwarn', tuple(e['warnings']), bytes(c['data']), c['in_pol'], c['out_pol'], c['out_dlm']))
            else:
                ctx.stat('csv_no_warning')
    for c, e, g in zip(cases, exp['py'], gp):
        if e.get('warnings') and len(e['warnings']) >= 2:
            ctx.sample({'kind': 'csv warnings', 'input_bytes': repr(bytes(c['data'])), 'encoding': c['enc'], 'input': [c['in_pol'], c['in_dlm']], 'output': [c['out_pol'], c['out_dlm']],
                        'query': c['query'], 'model': e, 'python': g})
            break


def run_color(ctx, theorem):
    """colour output (an option of the Python writer): the colour codes prepended to the fields must not be taken for field content -
    the separator warning iff some field contains the delimiter, the None warning iff a None was written (harness-side specification)"""
    r = ctx.rng
    cases = []
    for _ in range(150 if ctx.tier == 'quick' else 20000):
        pol, dlm = r.choice([('simple', ';'), ('simple', ','), ('simple', '['), ('simple', 'm'), ('simple', '1'), ('whitespace', ' '), ('quoted', ';'), ('simple', '\t')])
        ncol = r.choice([1, 2, 3, 9, 10, 12])
        cells = ['a', 'b', 'x y', '', 'q;r', 'u,v', '3', 'm1', None]
        rows = [[r.choice(cells) for _ in range(ncol)] for _ in range(r.randint(1, 3))]
        lossy = pol in ('simple', 'whitespace')
        exp = sorted((['separator'] if lossy and any(x is not None and dlm in x for row in rows for x in row) else [])
                     + (['none'] if any(x is None for row in rows for x in row) else []))
        cases.append({'pol': pol, 'dlm': dlm, 'rows': rows, 'exp': exp, 'part': 'csvcolor'})
    got = lib.run_impl_py('c14color', cases, shards=4)
    ctx.compare(cases, [{'warnings': c['exp'], 'error': None} for c in cases], got, theorem + ' (colour output: supplementary specification)',
                describe=lambda c, e, g: 'CSVWriter(colorize_output=True, %s, %r) over rows %s: expected warnings %s, implementation %s' % (
                    c['pol'], c['dlm'], json.dumps(c['rows']), json.dumps(e), json.dumps(g)))
    ctx.count(len(cases))
    ctx.stat('colour_output_cases', len(cases))


def replay(ctx, case, theorem):
    if case.get('part') == 'csvcolor':
        got = lib.run_impl_py('c14color', [case], shards=1)
        ctx.count()
        ctx.compare([case], [{'warnings': case['exp'], 'error': None}], got, theorem)
        return
    c = {k: v for k, v in case.items() if k != 'impl'}
    exp, _a, _r = expected([c])
    impl = case.get('impl', 'py')
    got = (lib.run_impl_py if impl == 'py' else lib.run_impl_js)('c14w', [c], shards=1)
    ctx.count()
    ctx.compare([dict(c, impl=impl)], exp[impl], got, theorem, rel=rel, describe=describe)
