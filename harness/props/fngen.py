# fngen.py - the "regenerated from the source" tie (props/csvgen.py, task csvgen11) for further small pure functions of the engines
# (task gen2): harness/translate_fn.py <job> cuts the named functions out of rbql-py/rbql/rbql_engine.py / rbql-js/rbql.js on
# every run, translates them into Gallina (gen_py_<name> / gen_js_<name>), appends the committed obligations
# gen_<name>_eq : forall args, gen_.. = <index model> and the transferred property theorems (harness/gen_<job>_tie*.v.tmpl), and
# this module compiles the files beside the correspondence run and reads every Print Assumptions.  Same reporting as
# csvgen.py (its helpers are reused): a refused translation / failing obligation => the caller's correspondence run is the
# search for a failing input, then its extended search, then VIOLATION ... no-failing-input-found.
#   start(ctx, job) -> handle;  finish(ctx, handle, search_more=None);  replay(ctx, case)
import json
import os
import shutil
import threading
import time
import lib
from props import csvgen

JOBS = {
    'like': {
        'parts': {'py': ('GenLike', 'rbql-py/rbql/rbql_engine.py'), 'js': ('GenLikeJs', 'rbql-js/rbql.js')},
        'theorem': ('gen_like_to_regex_eq / gen_js_like_to_regex_eq / gen_js_regexp_escape_eq (generated: the translations of like_to_regex of '
                    'rbql_engine.py and of like_to_regex + regexp_escape of rbql.js = the index models LikeIx.v) + C17_index_model_* / C17_pattern_text_read_back_* '
                    '(Props/C17.v: the index models write the text of Like.like_to_regex, and that text is read back as the same token list) => '
                    'gen_C17_like_correct, gen_js_C17_like_correct, gen_C17_meta_literal ...'),
        'sample': {'theorem': 'gen_C17_like_correct',
                   'statement': 'forall t p, single_line Py t -> (regex_like Py (gen_py_like_to_regex p) t = true <-> SqlLike t p)',
                   'source': 'like_to_regex of rbql-py/rbql/rbql_engine.py translated on this run'},
    },
    'vars': {
        'parts': {'py': ('GenVars', 'rbql-py/rbql/rbql_engine.py'), 'js': ('GenVarsJs', 'rbql-js/rbql.js')},
        'theorem': ('gen_<name>_eq (generated: the translations of python_string_escape_column_name / query_probably_has_dictionary_variable of rbql_engine.py and of '
                    'js_string_escape_column_name / query_probably_has_dictionary_variable / unquote_string of rbql.js = the index models VarsIx.v) + '
                    'C09_index_model_* / C18_index_model_* (the index models = ParserVars.v / HeaderJs.v) => gen_C09_escape_roundtrip, gen_C09_prefilter_sound, '
                    'gen_C18_header_unquote_escaped ...'),
        'sample': {'theorem': 'gen_C09_escape_roundtrip',
                   'statement': 'forall name qc, (qc = QT or qc = APOS) -> name without NUL / lone surrogates -> exists e, gen_py_python_string_escape_column_name name [qc] = Some e /\\ py_literal_value (qc :: e ++ [qc]) = Some name',
                   'source': 'python_string_escape_column_name of rbql-py/rbql/rbql_engine.py translated on this run'},
    },
}


def checker(job):
    bases = ','.join(b for b, _r in JOBS[job]['parts'].values())
    return ('python3 harness/translate_fn.py build/gen/%s_<pid> %s py|js (VERIF_REPO); coqc -Q coq/theories RBQL -Q build/gen/%s_<pid> RBQLGen build/gen/%s_<pid>/{%s}.v '
            '(every run; every Print Assumptions parsed)' % (job, job, job, job, bases))


def part(job, lang, d):
    base, rel = JOBS[job]['parts'][lang]
    res = {'lang': lang, 'ok': False, 'failed': [], 'detail': '', 'theorems': [], 'closed': [], 'facts': None, 'stage': 'translate'}
    t0 = time.time()
    env = dict(os.environ)
    env['VERIF_REPO'] = lib.REPO
    env['PYTHONDONTWRITEBYTECODE'] = '1'
    try:
        rc, out = lib.sh(['timeout', '60', 'python3', os.path.join(lib.VERIF, 'harness', 'translate_fn.py'), d, job, lang], env=env, timeout=90)
    except Exception as e:                                   # noqa: BLE001
        rc, out = 99, 'translator did not finish: %r' % e
    res['translate_s'] = round(time.time() - t0, 2)
    if rc != 0:
        res['failed'] = ['translate_fn(%s,%s)' % (job, lang)]
        res['detail'] = 'the translator refused %s (rc=%d): %s' % (rel, rc, out.strip()[-800:])
        return res
    facts = json.load(open(os.path.join(d, base + '.json')))
    res['facts'] = facts
    res['theorems'] = thms = facts['theorems']
    res['stage'] = 'coqc'
    t1 = time.time()
    rc, out = csvgen._coqc(d, base)
    res['coqc_s'] = round(time.time() - t1, 2)
    blocks, closed = csvgen._closed_blocks(out, thms)
    res['closed'] = [n for n in thms if closed.get(n)]
    if rc == 0 and len(blocks) == len(thms) and all(closed.get(n) for n in thms):
        res['ok'] = True
        return res
    import re
    m = re.search(r'\(in proof ([A-Za-z0-9_\']+)\)', out)
    first = m.group(1) if m else next((n for n in thms if not closed.get(n)), base + '.v')
    res['failed'] = [first]
    res['not_checked'] = [n for n in thms if n not in closed and n != first]
    tail = '\n'.join(l for l in out.split('\n') if l.strip() and not l.startswith('Closed under'))
    res['detail'] = ('the translation of %s no longer equals the hand model: obligation %s fails (coqc rc=%d; the obligations after it were not checked: %s): %s'
                     % (rel, first, rc, ', '.join(res['not_checked']) or '-', tail.strip()[-600:]))
    return res


def step(ctx, job, keep=False):
    d = os.path.join(lib.BUILD, 'gen', '%s_%d' % (job, os.getpid()))
    shutil.rmtree(d, ignore_errors=True)
    os.makedirs(d)
    parts = {}
    langs = list(JOBS[job]['parts'])

    def run(lang):
        try:
            parts[lang] = part(job, lang, d)
        except Exception as e:                               # noqa: BLE001
            parts[lang] = {'lang': lang, 'ok': False, 'failed': ['fngen.part(%s,%s)' % (job, lang)], 'detail': 'fngen part raised %r' % e, 'theorems': [], 'closed': [], 'facts': None, 'stage': 'harness'}
    ths = [threading.Thread(target=run, args=(lang,)) for lang in langs]
    for th in ths:
        th.start()
    for th in ths:
        th.join()
    res = {'job': job, 'dir': d, 'parts': parts, 'theorems': [], 'closed': [], 'failed': [], 'detail': ''}
    for lang in langs:
        res['theorems'] += parts[lang]['theorems']
        res['closed'] += parts[lang]['closed']
        res['failed'] += parts[lang]['failed']
        if parts[lang]['detail']:
            res['detail'] += ('; ' if res['detail'] else '') + parts[lang]['detail']
    res['ok'] = not res['failed']
    res['failed_langs'] = [lang for lang in langs if not parts[lang]['ok']]
    if res['ok'] and not keep:
        shutil.rmtree(d, ignore_errors=True)
    return res


def start(ctx, job):
    """run step() beside the correspondence run (it only spawns processes)"""
    box = {}

    def bg():
        try:
            box['res'] = step(ctx, job)
        except Exception as e:                               # noqa: BLE001
            box['res'] = {'job': job, 'ok': False, 'failed': ['fngen.step(%s)' % job], 'detail': 'fngen step raised %r' % e, 'dir': '', 'theorems': [], 'closed': [], 'parts': {},
                          'failed_langs': list(JOBS[job]['parts'])}
    th = threading.Thread(target=bg)
    th.start()
    return th, box, len(ctx.violations), job


def finish(ctx, handle, search_more=None):
    th, box, nviol0, job = handle
    th.join()
    report(ctx, box['res'], nviol0, search_more)


def report(ctx, res, nviol0=None, search_more=None):
    job = res['job']
    ctx.generated_checker = ((ctx.generated_checker + '; ') if ctx.generated_checker else '') + checker(job)
    for n in res['theorems']:
        ctx.generated_obligations[n] = n in res['closed']
    summary = {}
    for lang, pr in res.get('parts', {}).items():
        facts = pr.get('facts') or {}
        if not pr['theorems']:
            ctx.generated_obligations['translate_fn(%s,%s)' % (job, lang)] = False
        ctx.stat('fngen_%s_%s_functions_translated' % (job, lang), len(facts.get('functions', [])))
        ctx.stat('fngen_%s_%s_ast_nodes' % (job, lang), sum(f['ast_nodes'] for f in facts.get('functions', [])))
        summary[lang] = {'ok': pr['ok'], 'stage': pr['stage'], 'failed': pr['failed'], 'translate_s': pr.get('translate_s'), 'coqc_s': pr.get('coqc_s'),
                         'functions': facts.get('functions'), 'generated_theorems': pr['theorems']}
    ctx.notes.append({'fn_translation_' + job: summary})
    if res['ok']:
        ctx.sample(dict(JOBS[job]['sample'], kind='generated theorem', closed_under_the_global_context=True))
        return
    found = nviol0 is not None and len(ctx.violations) > nviol0
    if not found and search_more is not None:
        try:
            search_more(res.get('failed_langs') or list(JOBS[job]['parts']))
        except lib.CheckFailure as e:
            ctx.notes.append('extended search after a broken obligation could not complete: %s' % str(e)[-300:])
        found = len(ctx.violations) > nviol0
    if found:
        ctx.notes.append('%s translation obligations broken (%s); a concrete failing input was found and reported above' % (job, ', '.join(res['failed'])))
        return
    ctx.obligation_failed(res['failed'], res['detail'], JOBS[job]['theorem'], case={'fngen_obligation': res['failed'], 'fngen_job': job, 'generated_dir': res['dir'], 'repo': lib.REPO})


def replay(ctx, case):
    res = step(ctx, case['fngen_job'], keep=True)
    ctx.count()
    report(ctx, res, nviol0=len(ctx.violations))
