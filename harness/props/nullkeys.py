# Known finding F4 (helper of props/c02.py and props/c03.py, not a property of its own): rbql-js ORDER BY / GROUP BY over a key that
# is null on some records (a field missing on a short record). `null < 'x'` and `'x' < null` are both false in JavaScript, so
# stable_compare / compare_aggregation_keys answer 1 in both directions and Array.prototype.sort leaves an order that is not even
# sorted among the NON-null keys - silently. (rbql-py fails: '<' not supported between NoneType and str.)
# Oracle, independent of where nulls should go (first, last, or an error): the run fails, or the non-null keys come out
# non-decreasing (C02) / ascending (C03). Reported as KNOWN-FINDING while it reproduces (known_findings.json).
import json
import lib

PROBES = {
    'C02': [('F4-js-null-sort-key', 'select a1, a2 order by a2', [['a', 'x'], ['b'], ['c', 'y'], ['d'], ['e', 'a']], 1)],
    'C03': [('F4-js-null-group-key', 'select a2, count(*) group by a2', [['a', 'x'], ['b'], ['c', 'y'], ['d'], ['e', 'a']], 0)],
}


def ok(c, g):
    if not isinstance(g, dict):
        return False
    if g.get('error') is not None:
        return True
    keys = [r[c['keycol']] for r in g['rows'] if r[c['keycol']] is not None]
    return all(x <= y for x, y in zip(keys, keys[1:]))


def run(ctx, theorem, pid):
    cases = [{'qjs': q, 'q': q, 'A': A, 'B': None, 'fid': fid, 'keycol': kc, 'part': 'nullkeys', 'impl': 'js'} for fid, q, A, kc in PROBES[pid]]
    got = lib.run_impl_js('engine', cases, shards=1)
    ctx.compare(cases, [{'nonnull_keys_in_order_or_error': True} for _ in cases], got, theorem,
                rel=lambda c, e, g: e == {'nonnull_keys_in_order_or_error': ok(c, g)}, classify=lambda c, e, g: c['fid'],
                describe=lambda c, e, g: 'rbql-js: %r over %s: the non-null keys are not in order and no error is raised: %s' % (c['q'], json.dumps(c['A']), json.dumps(g)[:300]))
    ctx.count(len(cases))


def replay(ctx, case, theorem, pid):
    run(ctx, theorem, pid)
