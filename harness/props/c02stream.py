# c02stream.py - the early-stop clause of C02 ("a bounded query that needs no buffering stops pulling input once the bound is reached, so it
# terminates on unbounded input") for rbql-js over a STREAM: its CSV reader is push-based, so "stops pulling" means that the engine stops the
# iterator - otherwise the reader keeps reading and queueing an input that never ends (finding D26: `yes a,b | rbql-js --query "select top 2 a1"`
# printed two lines and never terminated).  Expected rows from the engine model (entry 300) over a finite prefix of the stream.  Called from c02.run.
import json
import lib
import qmodel
import enginecheck as ec

THEOREM = 'C02_early_stop (Props/C02.v): a bounded streaming query stops its input (rbql-js stream reader)'


def gen(ctx):
    r = ctx.rng
    cases = []
    for _ in range(6 if ctx.tier == 'quick' else 80):
        top = r.randint(0, 5)
        cells = r.sample(['a', 'b', 'k', 'zz', 'm'], r.randint(1, 3))
        where = r.random() < 0.4
        distinct = (not where) and r.random() < 0.3
        q = 'select %s%sa1, NR%s %s' % ('distinct ' if distinct else '', '' , '', '')
        q = 'select %s%sa1%s%s' % ('top %d ' % top if r.random() < 0.5 else '', 'distinct ' if distinct else '', '' if distinct else ', NR',
                                   (" where a1 != '%s'" % cells[0]) if where and len(cells) > 1 else '')
        if 'top' not in q:
            q += ' limit %d' % top
        items = [('expr', ('fld', 'a', 0))] + ([] if distinct else [('expr', ('NR',))])
        qa = {'kind': ('select', items), 'where': ('ne', ('fld', 'a', 0), ('lit', cells[0])) if (where and len(cells) > 1) else None, 'join': None,
              'order': None, 'distinct': 1 if distinct else 0, 'top': top}
        cases.append({'part': 'c02stream', 'q': q, 'qa': qa, 'cells': cells, 'sep': r.choice(['\n', '\r\n']), 'policy': r.choice(['simple', 'quoted']),
                      'lines_per_chunk': r.choice([1, 3, 50, 2000]), 'cap': 40000000, 'time_limit_ms': 4000, 'header': False})
    return cases


def expected(cases):
    args = []
    for c in cases:
        # the first 60 records of the stream (record n holds cells[n % len], n; n from 1)
        A = [[c['cells'][n % len(c['cells'])], str(n)] for n in range(1, 61)]
        args.append(qmodel.enc_run(1, c['qa'], None, A, None, None))
    out = []
    for m in lib.run_model(300, args):
        o = qmodel.dec_outcome(m)
        rows = [e[1] for e in o['events'] if e[0] == 'W' and e[2]]
        out.append({'rows': rows, 'complete': o['pulls'] < 60})
    return out


def rel(c, e, g):
    if not isinstance(g, dict) or 'resolved' not in g:
        return False
    if not e['complete']:
        return True          # (e.g. DISTINCT over fewer distinct rows than the bound: the model's finite prefix never reaches the bound - nothing to compare)
    return (g['resolved'] and g['error'] is None and g['stopped'] and not g['hit_cap']
            and [[str(x) for x in row] for row in g['rows']] == [[str(x) for x in row] for row in e['rows']])


def run(ctx, theorem=THEOREM):
    cases = gen(ctx)
    exp = expected(cases)
    got = lib.run_impl_js('c02stream', cases, shards=6)
    ctx.compare(cases, exp, got, theorem, rel=rel,
                describe=lambda c, e, g: 'rbql-js %r over an endless stream (%d lines per chunk): expected rows %s and a stopped input, got %s' % (
                    c['q'], c['lines_per_chunk'], json.dumps(e)[:200], json.dumps({k: v for k, v in g.items() if k != 'rows'} if isinstance(g, dict) else g)[:300]),
                corrupt=lambda e: {'rows': e['rows'] + [['CANARY']], 'complete': True})
    ctx.count(len(cases))
    ctx.stat('js_endless_stream_cases', len(cases))
    for c, e in zip(cases, exp):
        if e['complete']:
            ctx.nontriv(('c02stream', c['q'], c['lines_per_chunk']))
    ctx.rule += '; rbql-js over an endless byte stream: %d bounded queries through CSVRecordIterator, the query must resolve with the model rows AND leave its input stopped' % len(cases)


def replay(ctx, case, theorem=THEOREM):
    exp = expected([case])
    got = lib.run_impl_js('c02stream', [case], shards=1)
    ctx.count()
    ctx.compare([case], exp, got, theorem, rel=rel)
