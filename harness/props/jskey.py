# jskey.py - correspondence of JsKey.v (the JSON text rbql-js uses as the identity of records and keys) and Utf16.v (the order of
# JavaScript strings) with node / rbql-js / CPython.  Called from c19.run.  Entries (EntryJsKey.v):
#   560 js_stringify      <-> JSON.stringify of node on arrays of null / booleans / integers / strings / arrays / NaN / undefined / infinities
#                         <-> the key texts at work inside rbql-js: SELECT DISTINCT *, SELECT DISTINCT COUNT *, GROUP BY a1, a2 and a JOIN on
#                             two columns over tables of such values, predicted from the model texts alone (same text = same key)
#   561 units_ltb (utf16_encode s) (utf16_encode t), str_ltb s t, the code units   <-> node a < b and charCodeAt, /venv/bin/python a < b
# A JSON value travels as a tagged list (see impl/jskey.js) so that no string crosses the JSON transport.
import json
import lib

THEOREM = 'C19_js_key_faithful / C19_js_key_nan_refuted / C19_utf16_order_agree / C19_utf16_order_refuted (Props/C19.v): JsKey.v = JSON.stringify, Utf16.v = JS string order'

# code units for strings: the characters QuoteJSONString treats specially and their neighbours
UNITS = [34, 92, 47, 8, 9, 10, 11, 12, 13, 0, 1, 0x1f, 0x20, 0x7f, 0x80, 0x2028, 0x2029, 0xe9, 0x4e2d, 0xfeff, 0xffff, 0xd7ff, 0xe000,
         0xd800, 0xd83d, 0xdbff, 0xdc00, 0xde00, 0xdfff, 48, 49, 57, 45, 97, 98, 110, 117, 44, 91, 93, 58]
PAIRS = [[0xd83d, 0xde00], [0xd800, 0xdc00], [0xdbff, 0xdfff]]
INTS = [0, 1, -1, 7, 10, -10, 12, 100, 2 ** 31 - 1, 2 ** 31, -2 ** 31, -2 ** 31 - 1, 2 ** 32, 2 ** 53 - 1, -(2 ** 53 - 1), 2 ** 53, -2 ** 53, 10 ** 15, 123456789012]
# code points for the order probe
CPS = [0x61, 0x62, 0x7a, 0x30, 0xe9, 0x4e2d, 0xd7ff, 0xe000, 0xff01, 0xffff, 0x10000, 0x1f600, 0x10ffff]


def gen_str(r):
    s = []
    for _ in range(r.choice([0, 1, 1, 2, 3, 5])):
        if r.random() < 0.15:
            s += r.choice(PAIRS)
        else:
            s.append(r.choice(UNITS))
    return ['s', s]


def gen_int(r):
    return ['i', r.choice(INTS) if r.random() < 0.7 else r.randint(-2 ** 53, 2 ** 53)]


def gen_val(r, depth, unfaithful):
    x = r.random()
    if unfaithful and x < 0.12:
        return r.choice([['nan'], ['undef'], ['inf', 1], ['inf', -1]])
    if x < 0.2:
        return ['n']
    if x < 0.3:
        return ['b', r.random() < 0.5]
    if x < 0.5:
        return gen_int(r) if r.random() < 0.95 else ['nz']
    if x < 0.85 or depth <= 0:
        return gen_str(r)
    return ['a', [gen_val(r, depth - 1, unfaithful) for _ in range(r.choice([0, 1, 2, 3]))]]


def gen_arr(r):
    unfaithful = r.random() < 0.4
    return ['a', [gen_val(r, 2, unfaithful) for _ in range(r.choice([0, 1, 1, 2, 3, 4]))]]


def gen_cell(r, pool):
    return r.choice(pool)


def gen_table_case(r):
    """tables whose cells come from a small pool with near-collisions: 1 / "1" / [1], null / "null" / NaN / undefined, "a,b" / "a","b" ..."""
    pool = [['i', 1], ['s', [49]], ['n'], ['s', [110, 117, 108, 108]], ['b', True], ['s', [116, 114, 117, 101]], ['s', []], ['i', 0], ['nz'],
            ['s', [97]], ['s', [97, 34, 44, 34, 98]], ['s', [98]], ['s', [0xd83d]], ['s', [0xd83d, 0xde00]], ['s', [92, 117, 100, 56, 51, 100]],
            ['a', [['i', 1]]], ['a', []], ['s', [91, 93]], ['s', [10]], ['s', [92, 110]]]
    if r.random() < 0.4:
        pool = pool + [['nan'], ['undef'], ['inf', 1], ['inf', -1]]
    pool = r.sample(pool, r.choice([3, 4, 6]))
    mode = r.choice(['distinct', 'distinct_count', 'group', 'join'])
    w = 2 if mode in ('group', 'join') else r.choice([1, 2, 3])
    c = {'probe': 'jskey', 'mode': mode, 'A': [[r.choice(pool) for _ in range(w)] for _ in range(r.randint(0, 7))]}
    if mode == 'join':
        c['B'] = [[r.choice(pool) for _ in range(2)] for _ in range(r.randint(0, 5))]
    return c


def gen_order_case(r):
    def s():
        return [r.choice(CPS) for _ in range(r.choice([0, 1, 1, 2, 2, 3]))]
    a = s()
    b = s()
    if r.random() < 0.3 and a:
        b = a[:r.randint(0, len(a))] + b       # common prefix
    return {'probe': 'jskey', 'mode': 'order', 's': a, 't': b}


def enc_jv(x):
    t = x[0]
    if t == 'n':
        return '(0)'
    if t == 'b':
        return '(1 %d)' % (1 if x[1] else 0)
    if t == 'i':
        return '(2 %s)' % lib.enc(lib.Z(x[1]))
    if t == 'nz':
        return '(2 (0 0))'            # -0 prints as 0: the model has JInt 0 only
    if t == 's':
        return '(3 (%s))' % ' '.join(str(u) for u in x[1])
    if t == 'a':
        return '(4 (%s))' % ' '.join(enc_jv(y) for y in x[1])
    return {'nan': '(5)', 'undef': '(6)', 'inf': '(7)'}[t]


def is_faithful(x):
    if x[0] in ('nan', 'undef', 'inf'):
        return False
    return all(is_faithful(y) for y in x[1]) if x[0] == 'a' else True


def norm(x):
    """the value as the model sees it (-0 is 0)"""
    if x[0] == 'nz':
        return ['i', 0]
    if x[0] == 'a':
        return ['a', [norm(y) for y in x[1]]]
    return x


def show(x):
    return json.dumps(x)


def check_text(ctx, cases, theorem):
    if not cases:
        return
    args = [enc_jv(c['v']) for c in cases]
    raw = lib.run_model(560, args)
    exp = [{'text': m} for m in raw]
    got = lib.run_impl_js('jskey', cases, shards=8)
    ctx.compare(cases, exp, got, theorem,
                describe=lambda c, e, g: 'JSON.stringify of %s: model text %r, node %r' % (
                    show(c['v']), lib.dec_str(e['text']), lib.dec_str(g['text']) if isinstance(g, dict) and 'text' in g else g),
                corrupt=lambda e: {'text': e['text'] + [33]})
    ctx.cross_check_vm(560, args, raw, n=25)
    # the theorem at work on the sample: among faithful values equal texts only for equal values; collisions need an unfaithful one
    seen = {}
    for c, m in zip(cases, raw):
        ctx.count()
        f = is_faithful(c['v'])
        ctx.stat('jskey_text_' + ('faithful' if f else 'unfaithful'))
        if any(m[i:i + 3] == [92, 117, 100] for i in range(len(m) - 2)):
            ctx.stat('jskey_text_lone_surrogate_escaped')
        if any(0xd800 <= u <= 0xdfff for u in m):
            ctx.stat('jskey_text_surrogate_pair_copied')
        ctx.nontriv(('jskey', show(c['v'])))
        k = tuple(m)
        v = json.dumps(norm(c['v']))
        if k in seen and seen[k][0] != v:
            if f and seen[k][1]:
                ctx.violation(dict(c, other=json.loads(seen[k][0])), None, None, theorem,
                              'two different faithful values with the same model text (contradicts C19_js_key_faithful): %s and %s' % (v, seen[k][0]))
            else:
                ctx.stat('jskey_text_collision_unfaithful')
        elif k not in seen:
            seen[k] = (v, f)


def model_texts(rows_list):
    """key text (tuple of code units) of every row of every table"""
    flat = [enc_jv(['a', row]) for rows in rows_list for row in rows]
    raw = lib.run_model(560, flat)
    out, k = [], 0
    for rows in rows_list:
        out.append([tuple(raw[k + i]) for i in range(len(rows))])
        k += len(rows)
    return out, flat, raw


def check_tables(ctx, cases, theorem):
    if not cases:
        return
    ta, flat, raw = model_texts([c['A'] for c in cases])
    tb, _f, _r = model_texts([c.get('B') or [] for c in cases])
    exp = []
    for c, ka, kb in zip(cases, ta, tb):
        first, count = {}, {}
        for i, k in enumerate(ka):
            first.setdefault(k, i)
            count[k] = count.get(k, 0) + 1
        order = sorted(first, key=lambda k: first[k])
        if c['mode'] == 'distinct':
            exp.append({'rows': [list(k) for k in order]})
        elif c['mode'] == 'distinct_count':
            exp.append({'rows': [[count[k], list(k)] for k in order]})
        elif c['mode'] == 'group':
            exp.append({'groups': [[first[k] + 1, count[k]] for k in order]})
        else:
            exp.append({'pairs': [[i + 1, j + 1] for i, k in enumerate(ka) for j, k2 in enumerate(kb) if k == k2]})
    got = lib.run_impl_js('jskey', cases, shards=8)
    ctx.compare(cases, exp, got, theorem,
                describe=lambda c, e, g: 'rbql-js %s over A=%s%s: predicted from the model key texts %s, rbql-js %s' % (
                    c['mode'], show(c['A']), (' B=' + show(c['B'])) if 'B' in c else '', json.dumps(e)[:300], json.dumps(g)[:300]),
                corrupt=lambda e: {'rows': [['CANARY']]})
    ctx.cross_check_vm(560, flat, raw, n=15)
    for c, e, ka in zip(cases, exp, ta):
        ctx.count()
        ctx.stat('jskey_' + c['mode'])
        merged = len(set(ka)) < len(set(json.dumps([norm(x) for x in row]) for row in c['A']))
        if merged:
            ctx.stat('jskey_table_unfaithful_rows_merged')      # different records, one key: only with NaN / undefined / infinity cells
            if all(is_faithful(x) for row in c['A'] for x in row):
                ctx.violation(c, None, None, theorem, 'different faithful records with one model key text (contradicts C19_js_key_faithful)')
        if c['A']:
            ctx.nontriv(('jskey', c['mode'], show(c['A']), show(c.get('B'))))


def hyp_agree(s):
    return all(x < 0xd800 or x >= 0x10000 for x in s)


def check_order(ctx, cases, theorem):
    if not cases:
        return
    args = ['(%s %s)' % (lib.enc(c['s']), lib.enc(c['t'])) for c in cases]
    raw = lib.run_model(561, args)
    exp_js = [{'lt': bool(m[0]), 'ua': m[2], 'ub': m[3]} for m in raw]
    got_js = lib.run_impl_js('jskey', cases, shards=8)
    ctx.compare(cases, exp_js, got_js, theorem,
                describe=lambda c, e, g: 'node: strings of code points %s < %s: model (code units) %s, node %s' % (c['s'], c['t'], json.dumps(e), json.dumps(g)),
                corrupt=lambda e: dict(e, lt=not e['lt']))
    exp_py = [{'lt': bool(m[1]), 'eq': m[2] == m[3]} for m in raw]
    got_py = lib.run_impl_py('jskey', cases, shards=4)
    ctx.compare([dict(c, impl='py') for c in cases], exp_py, got_py, theorem,
                describe=lambda c, e, g: 'CPython: strings of code points %s < %s: model (code points; == from equality of the encodings) %s, python %s' % (c['s'], c['t'], json.dumps(e), json.dumps(g)),
                corrupt=lambda e: dict(e, lt=not e['lt']))
    ctx.cross_check_vm(561, args, raw, n=25)
    for c, m in zip(cases, raw):
        ctx.count()
        ctx.nontriv(('jskey-order', tuple(c['s']), tuple(c['t'])))
        h = (hyp_agree(c['s']) and hyp_agree(c['t'])) or all(x < 0x10000 for x in c['s'] + c['t'])
        ctx.stat('jskey_order_' + ('hyp' if h else 'nohyp') + ('_agree' if m[0] == m[1] else '_DIFFER'))
        if h and m[0] != m[1]:
            ctx.violation(c, None, None, theorem, 'model orders differ under the hypothesis of C19_utf16_order_agree: %s %s' % (c['s'], c['t']))


def run(ctx, theorem=THEOREM):
    r = ctx.rng
    n = 1500 if ctx.tier == 'quick' else 150000
    check_text(ctx, [{'probe': 'jskey', 'part': 'jskey', 'mode': 'text', 'v': gen_arr(r)} for _ in range(n)], theorem)
    check_tables(ctx, [dict(gen_table_case(r), part='jskey') for _ in range(n // 2)], theorem)
    fixed = [{'probe': 'jskey', 'mode': 'order', 's': [0xff01], 't': [0x1f600]}, {'probe': 'jskey', 'mode': 'order', 's': [0x1f600], 't': [0xff01]}]
    check_order(ctx, [dict(c, part='jskey') for c in fixed + [gen_order_case(r) for _ in range(n)]], theorem)
    ctx.rule += ('; JS keys (JsKey.v): %d random arrays (depth <= 2) of null / booleans / integers up to +-2^53 / -0 / strings over quote, backslash, control characters, U+007F, U+2028, '
                 'lone and paired surrogates, BMP, digits / NaN, undefined, infinities: JSON.stringify of node against the model text, code unit by code unit; '
                 '%d tables of such cells through rbql-js SELECT DISTINCT *, DISTINCT COUNT *, GROUP BY a1, a2 and JOIN on two columns, the result predicted from the model key texts alone; '
                 'JS string order (Utf16.v): %d pairs of strings over ASCII, low BMP, U+D7FF, U+E000, U+FF01, U+FFFF, U+10000, U+1F600, U+10FFFF: node a < b and code units against units_ltb / utf16_encode, '
                 '/venv/bin/python a < b and == against str_ltb / equality of the encodings' % (n, n // 2, n + 2))


def replay(ctx, case, theorem=THEOREM):
    c = {k: v for k, v in case.items() if k not in ('impl', 'other')}
    if c['mode'] == 'text':
        return check_text(ctx, [c], theorem)
    if c['mode'] == 'order':
        return check_order(ctx, [c], theorem)
    return check_tables(ctx, [c], theorem)
