# C04 - JOIN pairs each A record with exactly its key-equal B records.
# Model: Join.v (HashJoinMap, joiners) + Engine.v (per-match loop, UPDATE join); theorems: Props/C04.v.
import itertools
import importlib
import lib
import qgen
import enginecheck as ec

THEOREM = 'C04_matches / C04_paired / C04_downstream (Props/C04.v): get_rhs = key-equal B records in B order; run = run over the paired records'
KEYS = ['1', '2', 'k']


def gen_case(ctx, g):
    r = ctx.rng
    na, nb = r.randint(1, 3), r.randint(1, 3)
    A = [[r.choice(KEYS) if r.random() < 0.9 else r.choice(qgen.CELLS) for _ in range(na)] for _ in range(r.randint(0, 5))]
    B = [[r.choice(KEYS) if r.random() < 0.9 else r.choice(qgen.CELLS) for _ in range(nb)] for _ in range(r.randint(0, 5))]
    if r.random() < 0.25 and B:      # ragged B: a record lacking a key field -> runtime error naming the B record
        i = r.randrange(len(B))
        B[i] = B[i][:r.randint(0, len(B[i]))]
    if r.random() < 0.2 and len(B) >= 2:
        # ragged B whose FIRST record is not the widest (every key field still there): the all-None record of LEFT JOIN is as wide as
        # the WIDEST join record, wherever it stands (seeded change C04-2: width taken from the first record)
        i = r.randrange(1, len(B))
        B[i] = B[i] + [r.choice(KEYS) for _ in range(r.randint(1, 2))]
    if r.random() < 0.2 and A:
        i = r.randrange(len(A))
        A[i] = A[i][:r.randint(0, len(A[i]))]
    nkeys = r.choice([1, 1, 2, 3])
    join = g.join({'na': na, 'nb': nb}, nkeys=nkeys)
    cx = {'na': na, 'nb': nb}
    shape = r.random()
    qa = {'join': join, 'where': g.bool_expr(cx, 1) if r.random() < 0.3 else None}
    tags = []
    if shape < 0.45:
        qa['kind'] = ('select', g.items(cx, max_items=3))
    elif shape < 0.6:
        qa['kind'] = ('select', [('expr', ('fld', 'a', 0)), ('expr', ('fld', 'b', 0)), ('expr', ('bNR',))])
        qa['order'] = ([('fld', 'a', 0)] if all(len(x) > 0 for x in A) else [('NR',)], r.random() < 0.5)
        qa['distinct'] = r.choice([0, 1, 2])
        qa['top'] = r.choice([None, 1, 3])
    elif shape < 0.8:
        kind = r.choice(['COUNT', 'ARRAY_AGG', 'MAX', 'SUM'])
        arg = ('fld', 'b', nb - 1) if kind in ('ARRAY_AGG',) else (('bNR',) if kind in ('MAX', 'SUM') else ('lit', 1))
        qa['kind'] = ('select', [('expr', ('fld', 'a', 0)), ('agg', kind, kind, arg)])
        qa['group'] = [('fld', 'a', 0)]
        A = [x if x else ['1'] for x in A]
        qa['where'] = None
    else:
        cx2 = dict(cx, update=True)
        qa['kind'] = ('update', [(r.randint(0, na - 1), g.str_expr(cx2, 1) if r.random() < 0.6 else ('fld', 'b', r.randint(0, nb - 1)))])
        qa['update_set'] = r.random() < 0.5
    hdrA = hdrB = None
    also_table = True
    if r.random() < 0.3:
        # both tables with a HEADER (column names change nothing in aN / bN queries but one thing: after build() the engines raise
        # max_record_len to the number of join column names, so the all-None record of LEFT JOIN has one field per join column -
        # fix c71773a, finding D27; model: Join.widen). The join header is as wide as the join records or wider; and the join
        # table with a header and NO records is drawn on purpose
        if r.random() < 0.3:
            B = []
        if r.random() < 0.5 and qa['kind'][0] == 'select' and shape < 0.45:
            join['kind'], join['spelling'] = 'left', r.choice(['left join', 'left outer join'])
            qa['kind'] = ('select', [('expr', ('fld', 'a', 0))] + r.sample([('starb',), ('star',), ('expr', ('fld', 'b', r.randint(0, nb + 1))), ('expr', ('bNF',))], r.randint(1, 3)))
            A = [x if x else ['1'] for x in A]
        # query_table wants a header exactly as wide as the FIRST record of a non-empty table ("List of column names and table records
        # have different lengths" otherwise); rbql.query over a caller's iterator does not: a wider join header goes through that leg only
        wide = r.choice([0, 0, 0, 1, 2])
        if A and not A[0]:
            A[0] = ['1']
        if B and not B[0]:
            B[0] = ['1']
        hdrA = ['ha%d' % (i + 1) for i in range(len(A[0]) if A else na)]
        hdrB = ['hb%d' % (i + 1) for i in range((len(B[0]) if B else nb) + wide)]
        also_table = not (B and wide)
        join['hw'] = len(hdrB)
        tags.append('headers')
    c = ec.make_case(r, qa, A, B, hdrA=hdrA, hdrB=hdrB, also_table=also_table, tags=tags)
    if hdrB is not None:
        # with a header `a.NR` / `b.NR` name a COLUMN called NR (observation O33, DESIGN 11.1): the record number is spelled NR / aNR / bNR here
        c['q'] = c['q'].replace('a.NR', 'aNR').replace('b.NR', 'bNR')
    return c


def header_only_cases(ctx):
    """bounded enumeration for finding D27: LEFT / INNER / STRICT LEFT JOIN against a join table that has a header of 1-3 names and
    0-2 records no wider than the header, x select lists over b.* / * / bN / bNF"""
    out = []
    brows = [[], [['1', 'p']], [['2']], [['1', 'p'], ['1']], [['1', 'p', 'q']]]
    lists = [[('expr', ('fld', 'a', 0)), ('starb',)], [('star',)], [('expr', ('fld', 'b', 0)), ('expr', ('fld', 'b', 1))], [('starb',), ('expr', ('bNF',)), ('expr', ('bNR',))],
             [('expr', ('fld', 'b', 2))]]
    for kind, sp in (('inner', 'join'), ('left', 'left join'), ('left', 'left outer join'), ('strict', 'strict left join')):
        for hw in (None, 1, 2, 3):
            for B in brows:
                if hw is not None and any(len(x) > hw for x in B):
                    continue
                for items in lists:
                    for A in ([['1']], [['1'], ['2']], []):
                        qa = {'join': {'kind': kind, 'spelling': sp, 'lhs': [0], 'rhs': [0]}, 'where': None, 'kind': ('select', list(items))}
                        if hw is not None:
                            qa['join']['hw'] = hw
                        out.append(ec.make_case(None, qa, [list(x) for x in A], [list(x) for x in B], hdrA=None if hw is None else ['ha1'],
                                                hdrB=None if hw is None else ['hb%d' % (i + 1) for i in range(hw)],
                                                also_table=(hw is None or not B or len(B[0]) == hw), tags=['headers']))      # (query_table: header as wide as the first record)
    return out


def exhaustive_cases(ctx, limit):
    """all A, B with <= 2 rows over keys {1,2} (B rows [key, payload], one possibly short) x join kinds x downstream shapes"""
    arows = [['1'], ['2']]
    brows = [['1', 'p'], ['2', 'q'], ['1', 'r'], []]
    At = [list(t) for n in range(0, 3) for t in itertools.product(arows, repeat=n)]
    Bt = [list(t) for n in range(0, 3) for t in itertools.product(brows, repeat=n)]
    shapes = []
    for kind, sp in (('inner', 'join'), ('left', 'left join'), ('strict', 'strict left join')):
        for down in ('select', 'count', 'update'):
            shapes.append((kind, sp, down))
    allc = list(itertools.product(range(len(At)), range(len(Bt)), range(len(shapes))))
    if limit is not None and len(allc) > limit:
        allc = ctx.rng.sample(allc, limit)
    out = []
    for ai, bi, si in allc:
        kind, sp, down = shapes[si]
        qa = {'join': {'kind': kind, 'spelling': sp, 'lhs': [0], 'rhs': [0]}, 'where': None}
        if down == 'select':
            qa['kind'] = ('select', [('expr', ('fld', 'a', 0)), ('expr', ('fld', 'b', 1)), ('expr', ('bNR',)), ('expr', ('NR',))])
        elif down == 'count':
            qa['kind'] = ('select', [('expr', ('fld', 'a', 0)), ('agg', 'COUNT', 'COUNT', ('lit', 1), 'star')])
            qa['group'] = [('fld', 'a', 0)]
        else:
            qa['kind'] = ('update', [(0, ('fld', 'b', 1))])
        out.append(ec.make_case(None, qa, [list(x) for x in At[ai]], [list(x) for x in Bt[bi]]))
    return out


def run(ctx):
    g = qgen.Gen(ctx.rng)
    n = 4000 if ctx.tier == 'quick' else 500000
    cases = [gen_case(ctx, g) for _ in range(n)]
    cases += exhaustive_cases(ctx, 2500 if ctx.tier == 'quick' else None)
    cases += header_only_cases(ctx)
    ctx.rule = ('pairs of tables (empty, duplicate keys, ragged A and B) x all five join spellings x 1-3 key pairs (== or =, either side order, NR/aNR/a.NR and bNR/b.NR) '
                'x {no headers, headers on both tables with a join header as wide as the join records or wider, incl. the join table with a header and NO records (D27)} '
                'x downstream shapes: select lists with star/b.*/UNNEST, ORDER BY + DISTINCT + TOP, GROUP BY aggregates, UPDATE; bounded enumeration over A,B <= 2 rows (%s); '
                'non-trivial = distinct case with >= 1 output row or an error') % ('sampled' if ctx.tier == 'quick' else 'complete')
    exp, got = ec.evaluate(ctx, cases, THEOREM)
    for c, e in zip(cases, exp):
        if e is not None and c.get('hdrB') is not None and c['qa']['join']['kind'] == 'left':
            ctx.stat('left_join_with_header')
            if not c['B']:
                ctx.stat('left_join_header_only_table')
            if any(x[0] == 'W' for x in e['events']) and max([len(x) for x in c['B']] + [0]) < len(c['hdrB']):
                ctx.stat('left_join_header_wider_than_records_rows_written')
    for c, e, g_ in list(zip(cases, exp, got))[:3]:
        ctx.sample({'query': c['q'], 'A': c['A'], 'B': c['B'], 'model': e, 'implementation': {k2: g_.get(k2) for k2 in ('events', 'pulls', 'error')} if isinstance(g_, dict) else g_})
    # rbql-js/rbql.js is an anchor of this property too: the JavaScript leg runs language-neutral queries of this shape through rbql-js
    importlib.import_module('props.c19').js_leg(ctx, THEOREM, 'join', 600 if ctx.tier == 'quick' else 60000)
    # ... and over JavaScript VALUES as single-column keys (null / undefined / NaN / infinities / -0 / numbers / booleans / look-alike strings)
    importlib.import_module('props.c04jsval').run(ctx, THEOREM)
    # the pairing through the CSV front-end with a comment prefix (comment lines in the JOIN file are not records)
    importlib.import_module('props.c04csv').run(ctx, THEOREM)
    # ... and with what real files carry (BOM, CRLF, quoting, latin-1) in the input file AND in the JOIN file, through query_csv of both ports
    importlib.import_module('props.c04file').run(ctx, THEOREM)
    # the two sides of an ON condition: resolve_join_variables of both ports against JoinVars.v (the swap theorem's model)
    importlib.import_module('props.joinvars').run(ctx, THEOREM + ' ; C08_join_sides_swap (JoinVars.v)')
    # rbql-js: joins over ragged tables, and query_csv with a JOIN against a second CSV file - coverage gaps, notes/covgap.md
    importlib.import_module('props.cov_jsjoin').run(ctx, THEOREM)


def replay(ctx, case):
    if case.get('part') == 'cov_jsjoin':
        return importlib.import_module('props.cov_jsjoin').replay(ctx, case, THEOREM)
    if case.get('part') == 'c04csv':
        return importlib.import_module('props.c04csv').replay(ctx, case, THEOREM)
    if case.get('part') == 'joinvars':
        return importlib.import_module('props.joinvars').replay(ctx, case, THEOREM)
    if case.get('part') == 'c04jsval':
        return importlib.import_module('props.c04jsval').replay(ctx, case, THEOREM)
    if case.get('part') == 'c04file':
        return importlib.import_module('props.c04file').replay(ctx, case, THEOREM)
    if case.get('impl') == 'js':
        return importlib.import_module('props.c19').replay(ctx, case)
    ec.replay(ctx, case, THEOREM)
