# C04 - JOIN pairs each A record with exactly its key-equal B records.
# Model: Join.v (HashJoinMap, joiners) + Engine.v (per-match loop, UPDATE join); theorems: Props/C04.v.
import itertools
import importlib
import lib
import qgen
import enginecheck as ec

THEOREM = 'C04_matches / C04_paired / C04_downstream (Props/C04.v): get_rhs = key-equal B records in B order; run = run over the paired records'
KEYS = ['1', '2', 'k']


def gen_case(ctx, g):
    r = ctx.rng
    na, nb = r.randint(1, 3), r.randint(1, 3)
    A = [[r.choice(KEYS) if r.random() < 0.9 else r.choice(qgen.CELLS) for _ in range(na)] for _ in range(r.randint(0, 5))]
    B = [[r.choice(KEYS) if r.random() < 0.9 else r.choice(qgen.CELLS) for _ in range(nb)] for _ in range(r.randint(0, 5))]
    if r.random() < 0.25 and B:      # ragged B: a record lacking a key field -> runtime error naming the B record
        i = r.randrange(len(B))
        B[i] = B[i][:r.randint(0, len(B[i]))]
    if r.random() < 0.2 and A:
        i = r.randrange(len(A))
        A[i] = A[i][:r.randint(0, len(A[i]))]
    nkeys = r.choice([1, 1, 2, 3])
    join = g.join({'na': na, 'nb': nb}, nkeys=nkeys)
    cx = {'na': na, 'nb': nb}
    shape = r.random()
    qa = {'join': join, 'where': g.bool_expr(cx, 1) if r.random() < 0.3 else None}
    tags = []
    if shape < 0.45:
        qa['kind'] = ('select', g.items(cx, max_items=3))
    elif shape < 0.6:
        qa['kind'] = ('select', [('expr', ('fld', 'a', 0)), ('expr', ('fld', 'b', 0)), ('expr', ('bNR',))])
        qa['order'] = ([('fld', 'a', 0)] if all(len(x) > 0 for x in A) else [('NR',)], r.random() < 0.5)
        qa['distinct'] = r.choice([0, 1, 2])
        qa['top'] = r.choice([None, 1, 3])
    elif shape < 0.8:
        kind = r.choice(['COUNT', 'ARRAY_AGG', 'MAX', 'SUM'])
        arg = ('fld', 'b', nb - 1) if kind in ('ARRAY_AGG',) else (('bNR',) if kind in ('MAX', 'SUM') else ('lit', 1))
        qa['kind'] = ('select', [('expr', ('fld', 'a', 0)), ('agg', kind, kind, arg)])
        qa['group'] = [('fld', 'a', 0)]
        A = [x if x else ['1'] for x in A]
        qa['where'] = None
    else:
        cx2 = dict(cx, update=True)
        qa['kind'] = ('update', [(r.randint(0, na - 1), g.str_expr(cx2, 1) if r.random() < 0.6 else ('fld', 'b', r.randint(0, nb - 1)))])
        qa['update_set'] = r.random() < 0.5
    return ec.make_case(r, qa, A, B, also_table=True, tags=tags)


def exhaustive_cases(ctx, limit):
    """all A, B with <= 2 rows over keys {1,2} (B rows [key, payload], one possibly short) x join kinds x downstream shapes"""
    arows = [['1'], ['2']]
    brows = [['1', 'p'], ['2', 'q'], ['1', 'r'], []]
    At = [list(t) for n in range(0, 3) for t in itertools.product(arows, repeat=n)]
    Bt = [list(t) for n in range(0, 3) for t in itertools.product(brows, repeat=n)]
    shapes = []
    for kind, sp in (('inner', 'join'), ('left', 'left join'), ('strict', 'strict left join')):
        for down in ('select', 'count', 'update'):
            shapes.append((kind, sp, down))
    allc = list(itertools.product(range(len(At)), range(len(Bt)), range(len(shapes))))
    if limit is not None and len(allc) > limit:
        allc = ctx.rng.sample(allc, limit)
    out = []
    for ai, bi, si in allc:
        kind, sp, down = shapes[si]
        qa = {'join': {'kind': kind, 'spelling': sp, 'lhs': [0], 'rhs': [0]}, 'where': None}
        if down == 'select':
            qa['kind'] = ('select', [('expr', ('fld', 'a', 0)), ('expr', ('fld', 'b', 1)), ('expr', ('bNR',)), ('expr', ('NR',))])
        elif down == 'count':
            qa['kind'] = ('select', [('expr', ('fld', 'a', 0)), ('agg', 'COUNT', 'COUNT', ('lit', 1), 'star')])
            qa['group'] = [('fld', 'a', 0)]
        else:
            qa['kind'] = ('update', [(0, ('fld', 'b', 1))])
        out.append(ec.make_case(None, qa, [list(x) for x in At[ai]], [list(x) for x in Bt[bi]]))
    return out


def run(ctx):
    g = qgen.Gen(ctx.rng)
    n = 4000 if ctx.tier == 'quick' else 500000
    cases = [gen_case(ctx, g) for _ in range(n)]
    cases += exhaustive_cases(ctx, 2500 if ctx.tier == 'quick' else None)
    ctx.rule = ('pairs of tables (empty, duplicate keys, ragged A and B) x all five join spellings x 1-3 key pairs (== or =, either side order, NR/aNR/a.NR and bNR/b.NR) '
                'x downstream shapes: select lists with star/b.*/UNNEST, ORDER BY + DISTINCT + TOP, GROUP BY aggregates, UPDATE; bounded enumeration over A,B <= 2 rows (%s); '
                'non-trivial = distinct case with >= 1 output row or an error') % ('sampled' if ctx.tier == 'quick' else 'complete')
    exp, got = ec.evaluate(ctx, cases, THEOREM)
    for c, e, g_ in list(zip(cases, exp, got))[:3]:
        ctx.sample({'query': c['q'], 'A': c['A'], 'B': c['B'], 'model': e, 'implementation': {k2: g_.get(k2) for k2 in ('events', 'pulls', 'error')} if isinstance(g_, dict) else g_})
    # rbql-js/rbql.js is an anchor of this property too: the JavaScript leg runs language-neutral queries of this shape through rbql-js
    importlib.import_module('props.c19').js_leg(ctx, THEOREM, 'join', 600 if ctx.tier == 'quick' else 60000)
    # ... and over JavaScript VALUES as single-column keys (null / undefined / NaN / infinities / -0 / numbers / booleans / look-alike strings)
    importlib.import_module('props.c04jsval').run(ctx, THEOREM)
    # the pairing through the CSV front-end with a comment prefix (comment lines in the JOIN file are not records)
    importlib.import_module('props.c04csv').run(ctx, THEOREM)
    # ... and with what real files carry (BOM, CRLF, quoting, latin-1) in the input file AND in the JOIN file, through query_csv of both ports
    importlib.import_module('props.c04file').run(ctx, THEOREM)
    # the two sides of an ON condition: resolve_join_variables of both ports against JoinVars.v (the swap theorem's model)
    importlib.import_module('props.joinvars').run(ctx, THEOREM + ' ; C08_join_sides_swap (JoinVars.v)')
    # rbql-js: joins over ragged tables, and query_csv with a JOIN against a second CSV file - coverage gaps, notes/covgap.md
    importlib.import_module('props.cov_jsjoin').run(ctx, THEOREM)


def replay(ctx, case):
    if case.get('part') == 'cov_jsjoin':
        return importlib.import_module('props.cov_jsjoin').replay(ctx, case, THEOREM)
    if case.get('part') == 'c04csv':
        return importlib.import_module('props.c04csv').replay(ctx, case, THEOREM)
    if case.get('part') == 'joinvars':
        return importlib.import_module('props.joinvars').replay(ctx, case, THEOREM)
    if case.get('part') == 'c04jsval':
        return importlib.import_module('props.c04jsval').replay(ctx, case, THEOREM)
    if case.get('part') == 'c04file':
        return importlib.import_module('props.c04file').replay(ctx, case, THEOREM)
    if case.get('impl') == 'js':
        return importlib.import_module('props.c19').replay(ctx, case)
    ec.replay(ctx, case, THEOREM)
