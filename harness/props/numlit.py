# numlit.py - correspondence of NumLit.v (which strings are numbers: Python int(s) / float(s), JavaScript Number(s) with rbql-js
# parse_number's rejections) with CPython, node and both engines.  Called from c03.run.  Entry 570 (EntryNumLit.v):
#   which 0 py_int_lit     <-> int(s) of /venv/bin/python, exactly
#   which 1 py_float_lit   <-> float(s): the model's exact rational q against the double, float(Fraction(q)) == float(s) (correct
#                              rounding, overflow to an infinity included)
#   which 2 js_number_lit  <-> Number(s) of node, NaN or blank = error, the double compared bit for bit (-0 = 0)
#   which 3 common_notation: where it holds the REAL float(s) and the REAL Number(s) must agree (C03_numlit_py_js_agree at work)
#   engines: select MAX(a1) over the one-record table [[s]] through rbql-py query_table (NumHandler: int first, then float, then
#            the conversion error) and rbql-js query_table (parse_number) against py_int_lit-then-py_float_lit resp. js_number_lit
# Model results NLUnmodelled (non-ASCII, infinities / NaN spellings, exponents beyond +-400, more than 4300 digits for int) are
# skipped and counted.  Strings travel as lists of code points.
import itertools
import json
import struct
import sys
from fractions import Fraction
import lib

if hasattr(sys, 'set_int_max_str_digits'):
    sys.set_int_max_str_digits(0)      # the harness reads and prints model integers of any size (the processes under test keep their default)

THEOREM = ('C03_numlit_core_agree / C03_numlit_py_js_agree / C03_numlit_py_only_refuted / C03_numlit_js_only_refuted / C03_numlit_int_roundtrip '
           '(Props/C03.v): NumLit.v = int / float / Number on strings')

ALPHABET = '0123456789+-.eE_xb \t'
WS = [' ', '\t', '\n', '\r', '\x0b', '\x0c']
ODD_WS = ['\x1c', '\x1d', '\x1e', '\x1f', '\x00', '\x85', '\xa0', '\u2003', '\ufeff']     # not white space for an ASCII str / non-ASCII: unmodelled
FIXED = ['', ' ', '\t\n', '1_0', '0x10', '0X1f', '0b101', '0B2', '0o17', '0O8', '0x', '0b', '0o', '-0x10', '+0b1', ' 0x10 ', '0x1_0', '0xg',
         '007', '-0', '+0', '-0.0', '00', '1.', '.5', '.', '+', '-', '+.', '1e5', '1E5', '1e', '1e+', '1e-', 'e5', '.e5', '1.e5', '1e5.', '1e1e1',
         '1__0', '_1', '1_', '+_1', '1_.5', '1._5', '1_e5', '1e_5', '1e5_0', '1e+5_0', '1_0.0_1e1_0', '1 2', '1,2', '1\x002', '--1', '+-1', '- 1',
         'inf', '+inf', '-INF', 'Infinity', '-Infinity', '+infinity', 'iNfInItY', 'infinit', 'nan', 'NaN', '-nan', 'in_f', 'na_n', 'Infinity ', ' nan',
         '1e400', '1e401', '1e-400', '1e-401', '0e999', '1e0400', '1e0000401', '123456789012345678901234567890', '0.1', '0.30000000000000004',
         '9007199254740993', '9007199254740992.5', '4.9e-324', '2.4703282292062327e-324', '2.4703282292062328e-324', '1.7976931348623157e308',
         '1.7976931348623158e308', '1.7976931348623159e308', '179769313486231580793728971405303415079934132710037826936173778980444968292764750946649017977587207096330286416692887910946555547851940402630657488671505820681908902000708383676273854845817711531764475730270069855571366959622842914819860834936475292719074168444365510704342711559699508093042880177904174497791.9999999999999999999999999999999999999999',
         '\x1c1', '1\x1f', '\x0b1\x0c', '1' * 4300, '1' * 4301, '0' * 4301 + '.5', '\u0663', '1\xa0', '\uff11\uff12']


def gen_group(r, us):
    n = r.choice([0, 1, 1, 2, 3, 5, 20]) if r.random() < 0.9 else 0
    ds = [r.choice('0123456789') for _ in range(n)]
    if us and ds and r.random() < 0.35:
        k = r.random()
        if k < 0.6 and len(ds) > 1:
            i = r.randrange(1, len(ds))
            ds.insert(i, '_')                       # well placed
            if r.random() < 0.25:
                ds.insert(i, '_')                   # doubled
        elif k < 0.8:
            ds.insert(0, '_')
        else:
            ds.append('_')
    return ''.join(ds)


def gen_ws(r):
    if r.random() < 0.6:
        return ''
    return ''.join(r.choice(WS) if r.random() < 0.9 else r.choice(ODD_WS) for _ in range(r.choice([1, 1, 2, 3])))


def gen_structured(r):
    x = r.random()
    us = r.random() < 0.4
    if x < 0.62:
        s = r.choice(['', '', '+', '-']) + gen_group(r, us)
        if r.random() < 0.5:
            s += '.' + gen_group(r, us)
        if r.random() < 0.4:
            s += r.choice('eE') + r.choice(['', '', '+', '-']) + r.choice([gen_group(r, us), str(r.choice([0, 1, 5, 22, 308, 309, 323, 324, 399, 400, 401, 1000])),
                                                                           '0' * r.randint(0, 3) + str(r.randint(0, 30))])
    elif x < 0.78:
        s = r.choice(['', '', '', '+', '-']) + '0' + r.choice('xXoObB') + ''.join(r.choice('0123456789abcdefABCDEF01_g') for _ in range(r.choice([0, 1, 2, 4, 14])))
    elif x < 0.9:
        w = r.choice(['inf', 'infinity', 'nan', 'Infinity', 'infinit', 'in', 'nane'])
        if r.random() < 0.5:
            w = ''.join(ch.upper() if r.random() < 0.5 else ch.lower() for ch in w)
        s = r.choice(['', '', '+', '-']) + w
    else:
        s = r.choice(['', '', ' ', '\t', ' \n ', '1 2', '+ 1'])
    s = gen_ws(r) + s + gen_ws(r)
    if r.random() < 0.15 and s:
        i = r.randrange(len(s))
        k = r.random()
        c = r.choice(ALPHABET)
        s = s[:i] + c + s[i:] if k < 0.4 else (s[:i] + s[i + 1:] if k < 0.7 else s[:i] + c + s[i + 1:])
    return s


def gen_random(r):
    return ''.join(r.choice(ALPHABET) for _ in range(r.randint(0, 6)))


def exhaustive(maxlen):
    return [''.join(t) for n in range(maxlen + 1) for t in itertools.product(ALPHABET, repeat=n)]


def dbl(x):
    """canonical text of a double: -0 = 0"""
    return (x + 0.0).hex()


def dbl_of_q(q):
    try:
        return dbl(float(q))            # int / int true division: correctly rounded
    except OverflowError:
        return dbl(float('inf') if q > 0 else float('-inf'))


def dbl_of_bits(h):
    return dbl(struct.unpack('>d', int(h, 16).to_bytes(8, 'big'))[0])


def dec_model(m, rational):
    if m[0] == 1:
        return 'err'
    if m[0] == 2:
        return 'unm'
    return Fraction(lib.dec_Z(m[1]), m[2]) if rational else lib.dec_Z(m[1])


def show(c):
    return json.dumps(''.join(chr(x) for x in c['s']))


def bad(g):
    return not isinstance(g, dict) or 'driver_exception' in g


def check(ctx, cases, theorem):
    if not cases:
        return
    enc = [lib.enc(c['s']) for c in cases]
    args = ['(%d %s)' % (w, e) for e in enc for w in (0, 1, 2, 3)]
    raw = lib.run_model(570, args)
    gp = lib.run_impl_py('numlit', cases, shards=8)
    gj = lib.run_impl_js('numlit', cases, shards=8)
    legs = {k: ([], [], []) for k in ('py_int', 'py_float', 'js_number', 'py_engine', 'js_engine')}

    def put(leg, c, e, g):
        legs[leg][0].append(dict(c, leg=leg))
        legs[leg][1].append(e)
        legs[leg][2].append(g)

    for k, c in enumerate(cases):
        mi, mf, mj = dec_model(raw[4 * k], False), dec_model(raw[4 * k + 1], True), dec_model(raw[4 * k + 2], True)
        common = bool(raw[4 * k + 3])
        p, j = gp[k], gj[k]
        ctx.count()
        ctx.nontriv(('numlit', tuple(c['s'])))
        # ---- the literal functions
        if bad(p) or bad(j):
            ctx.violation(c, None, [p, j], theorem, 'numlit driver failed on %s: %s %s' % (show(c), json.dumps(p)[:200], json.dumps(j)[:200]))
            continue
        rf = p['float'] if p['float'][0] == 'err' else ['ok', dbl(float.fromhex(p['float'][1]))]
        jn = j['number']
        rj = ['err'] if (jn[0] == 'nan' or j['blank']) else ['ok', dbl_of_bits(jn[1])]
        if mi == 'unm':
            ctx.stat('numlit_py_int_unmodelled')
        else:
            ctx.stat('numlit_py_int_' + ('error' if mi == 'err' else 'ok'))
            put('py_int', c, ['err'] if mi == 'err' else ['ok', str(mi)], p['int'])
        if mf == 'unm':
            ctx.stat('numlit_py_float_unmodelled')
        else:
            ctx.stat('numlit_py_float_' + ('error' if mf == 'err' else 'ok'))
            put('py_float', c, ['err'] if mf == 'err' else ['ok', dbl_of_q(mf)], rf)
        if mj == 'unm':
            ctx.stat('numlit_js_number_unmodelled')
        else:
            ctx.stat('numlit_js_number_' + ('error' if mj == 'err' else 'ok'))
            put('js_number', c, ['err'] if mj == 'err' else ['ok', dbl_of_q(mj)], rj)
        # ---- the theorem at work on the implementations themselves: under common_notation float(s) and Number(s) are one function
        if common:
            ctx.stat('numlit_common_notation_' + ('number' if rf[0] == 'ok' else 'not_a_number'))
            if rf != rj:
                ctx.violation(dict(c, leg='common'), rf, rj, theorem,
                              'common_notation holds for %s but float(s) = %s and Number(s) = %s differ (contradicts C03_numlit_py_js_agree)' % (show(c), rf, rj))
            if mf != mj:
                ctx.violation(dict(c, leg='common'), str(mf), str(mj), theorem, 'common_notation holds for %s but the model results differ: %s %s' % (show(c), mf, mj))
        else:
            ctx.stat('numlit_outside_common_notation_' + ('agree' if rf == rj else 'DIFFER'))
        # ---- the engines: MAX(a1) over [[s]]
        pe, je = p['engine'], j['engine']
        gpe = pe[:2] if pe[0] in ('error', 'int', 'other') else ['float', dbl(float.fromhex(pe[1]))]
        gje = je[:2] if je[0] in ('error', 'other') else (['nan'] if je[0] == 'nan' else ['num', dbl_of_bits(je[1])])
        # the two engines against each other (an int result of rbql-py as the double nearest to it)
        ed = [('error:' + g[1]) if g[0] == 'error' else (dbl_of_q(Fraction(int(g[1]))) if g[0] == 'int' else (g[1] if g[0] in ('float', 'num') else json.dumps(g))) for g in (gpe, gje)]
        if common:
            if ed[0] != ed[1]:
                ctx.violation(dict(c, leg='common_engines'), gpe, gje, theorem,
                              'common_notation holds for %s but select MAX(a1) over [[s]] differs between the ports: rbql-py %s, rbql-js %s' % (show(c), gpe, gje))
        else:
            ctx.stat('numlit_engines_outside_common_notation_' + ('agree' if ed[0] == ed[1] else 'DIFFER'))
        if mi == 'unm' or (mi == 'err' and mf == 'unm'):
            ctx.stat('numlit_py_engine_unmodelled')
        else:
            e = ['int', str(mi)] if mi != 'err' else (['float', dbl_of_q(mf)] if mf != 'err' else ['error', 'convert'])
            ctx.stat('numlit_py_engine_' + e[0])
            put('py_engine', c, e, gpe)
        if mj == 'unm':
            ctx.stat('numlit_js_engine_unmodelled')
        else:
            e = ['num', dbl_of_q(mj)] if mj != 'err' else ['error', 'convert']
            ctx.stat('numlit_js_engine_' + e[0])
            put('js_engine', c, e, gje)
    what = {'py_int': 'int(s)', 'py_float': 'float(s) [double nearest to the model rational]', 'js_number': 'Number(s), NaN / blank = err',
            'py_engine': 'rbql-py select MAX(a1) over [[s]] against py_int_lit then py_float_lit', 'js_engine': 'rbql-js select MAX(a1) over [[s]] against js_number_lit'}
    for leg, (cs, es, gs) in legs.items():
        ctx.compare(cs, es, gs, theorem,
                    describe=lambda c, e, g: '%s on s = %s: model %s, implementation %s' % (what[c['leg']], show(c), json.dumps(e), json.dumps(g)),
                    corrupt=lambda e: ['CANARY'] + e)
    ctx.cross_check_vm(570, args, raw, n=40)


def mk(s):
    return {'probe': 'numlit', 'part': 'numlit', 's': [ord(ch) for ch in s]}


def run(ctx, theorem=THEOREM):
    r = ctx.rng
    quick = ctx.tier == 'quick'
    n = 2500 if quick else 250000
    maxlen = 2 if quick else 3
    strs = list(FIXED) + exhaustive(maxlen) + [gen_structured(r) for _ in range(n)] + [gen_random(r) for _ in range(n)]
    seen = set()
    cases = []
    for s in strs:
        if s not in seen:
            seen.add(s)
            cases.append(mk(s))
    check(ctx, cases, theorem)
    ctx.rule += ('; numeric literals (NumLit.v): %d distinct strings = %d fixed corners + all strings of length <= %d over the alphabet 0-9 + - . e E _ x b space TAB + %d structured '
                 '(optional blanks incl. 0x1C-0x1F / NUL / non-ASCII spaces, sign, digit groups of 0-20 digits with well and badly placed underscores, dot, fraction, exponent around +-308 / +-324 / +-400, '
                 '0x / 0o / 0b forms with and without sign, inf / infinity / nan / Infinity spellings in mixed case, empty, blank, 15%% mutated by one character) + %d random strings of length <= 6 over the alphabet: '
                 'int(s) exactly, float(s) and Number(s) against the double nearest to the model rational (bit for bit, -0 = 0), NaN / blank = error; where common_notation holds the real float(s) and Number(s) '
                 'compared with each other; every string also as the only cell of select MAX(a1) through rbql-py (int, else float, else the conversion error) and rbql-js query_table; model NLUnmodelled skipped and counted'
                 % (len(cases), len(FIXED), maxlen, n, n))


def replay(ctx, case, theorem=THEOREM):
    c = {k: v for k, v in case.items() if k != 'leg'}
    check(ctx, [c], theorem)
