# C16 - Queries are isolated: consecutive and thread-interleaved runs do not interfere.
# Model: Isolation.v (two step machines over disjoint state + read-only global; histories); theorems: Props/C16.v.
# The theorem is about the model's state partition; that the partition is the code's is what this run tests (partial):
# every interleaving / sequence result is compared with the SOLO result of the engine model.
import importlib
import itertools
import json
import re
import lib
import qmodel
import qgen
import enginecheck as ec

THEOREM = 'C16_interleaving / C16_history (Props/C16.v): each query in an interleaving or a history yields its solo result (solo result = engine model run)'


def scenario(r, kind):
    """a query of a given kind over a small table"""
    n = r.randint(1, 3)
    A = [[r.choice(['a', 'b', 'k']), str(r.randint(1, 9))] for _ in range(n)]
    B = None
    if kind in ('select', 'from_query'):
        qa = {'kind': ('select', [('expr', ('fld', 'a', 0)), ('expr', ('NR',))]), 'where': ('ne', ('fld', 'a', 0), ('lit', 'k')), 'join': None}
    elif kind == 'aggregate':
        qa = {'kind': ('select', [('expr', ('fld', 'a', 0)), ('agg', 'SUM', 'SUM', ('fld', 'a', 1)), ('agg', 'COUNT', 'count', ('lit', 1), 'star')]), 'where': None, 'join': None, 'group': [('fld', 'a', 0)]}
    elif kind in ('avg_native', 'avg_string'):
        # numeric aggregates over NATIVE numbers and over numeric STRINGS: whether strings need converting is decided per
        # aggregator and per query - a decision remembered across queries or threads breaks the later one
        vals = [r.randint(1, 9) for _ in range(n)]
        A = [[r.choice(['a', 'b']), (v if kind == 'avg_native' else str(v))] for v in vals]
        qa = {'kind': ('select', [('expr', ('fld', 'a', 0)), ('agg', 'AVG', 'AVG', ('fld', 'a', 1)), ('agg', 'MAX', 'max', ('fld', 'a', 1))]),
              'where': None, 'join': None, 'group': [('fld', 'a', 0)]}
    elif kind == 'distinct_order':
        qa = {'kind': ('select', [('expr', ('fld', 'a', 0))]), 'where': None, 'join': None, 'order': ([('fld', 'a', 0)], r.random() < 0.5), 'distinct': 1}
    elif kind == 'join':
        B = [[r.choice(['a', 'b']), 'w%d' % i] for i in range(r.randint(1, 2))]
        qa = {'kind': ('select', [('expr', ('fld', 'a', 0)), ('expr', ('fld', 'b', 1))]), 'where': None, 'join': {'kind': 'inner', 'spelling': 'join', 'lhs': [0], 'rhs': [0]}}
    elif kind == 'update':
        qa = {'kind': ('update', [(1, ('add', ('fld', 'a', 0), ('lit', '!'))), (0, ('NU',))]), 'where': ('ne', ('fld', 'a', 0), ('lit', 'b')), 'join': None}
    elif kind == 'like':
        qa = {'kind': ('select', [('expr', ('like', ('fld', 'a', 0), ('lit', r.choice(['a%', '_', '%k'])))), ('expr', ('like', ('fld', 'a', 1), ('lit', '_')))]), 'where': None, 'join': None}
    elif kind == 'unnest':
        qa = {'kind': ('select', [('expr', ('fld', 'a', 0)), ('unnest', ('list', [('fld', 'a', 1), ('lit', 'u')]), 'UNNEST')]), 'where': None, 'join': None, 'top': 3}
    elif kind in ('named', 'named_dc'):
        # column-name variables: the same query TEXT over tables whose headers are ordered differently
        hdr = r.choice([['name', 'score'], ['score', 'name']])
        i_name, i_score = hdr.index('name'), hdr.index('score')
        A = [[None, None] for _ in range(n)]
        for row in A:
            row[i_name] = r.choice(['a', 'b', 'k'])
            row[i_score] = str(r.randint(1, 9))
        qa = {'kind': ('select', [('expr', ('fld', 'a', i_name)), ('expr', ('fld', 'a', i_score))]), 'where': ('ne', ('fld', 'a', i_score), ('lit', '5')), 'join': None}
        if kind == 'named_dc':
            # the same select list under DISTINCT COUNT: its header has one more (unnamed) column - and only ITS header
            qa = {'kind': ('select', [('expr', ('fld', 'a', i_name)), ('expr', ('fld', 'a', i_score))]), 'where': None, 'join': None, 'distinct': 2}
            return {'q': 'select distinct count a.name, a.score', 'qa': qa, 'A': A, 'B': None, 'kind': kind, 'hdrA': hdr, 'exp_header': ['col1', 'name', 'score']}
        return {'q': 'select a.name, a.score where a.score != "5"', 'qa': qa, 'A': A, 'B': None, 'kind': kind, 'hdrA': hdr, 'exp_header': ['name', 'score']}
    elif kind == 'runtime_error':
        qa = {'kind': ('select', [('expr', ('int', ('fld', 'a', 0)))]), 'where': None, 'join': None}
    elif kind == 'parse_error':
        qa = {'kind': ('update', [(0, ('lit', 'z'))]), 'where': None, 'join': None, 'order': ([('fld', 'a', 0)], False)}
    else:
        raise ValueError(kind)
    c = ec.make_case(r, qa, A, B)
    if kind == 'from_query':
        # the query names its input table (FROM T, resolved through the table registry; no caller-bound input): the keyword
        # tables of the parser are shared by all queries of the process and must come through every earlier query unchanged
        q = re.sub(r'(?i)\s+where\s', ' from T where ', c['q'], count=1)
        assert q != c['q']
        return {'q': q, 'qa': qa, 'A': A, 'B': B, 'kind': kind, 'from': True}
    return {'q': c['q'], 'qa': qa, 'A': A, 'B': B, 'kind': kind}


KINDS = ['select', 'from_query', 'from_query', 'aggregate', 'avg_native', 'avg_string', 'named_dc', 'named_dc', 'distinct_order', 'join', 'update', 'like', 'unnest', 'named', 'named', 'runtime_error', 'parse_error']


def solo(queries):
    args = [qmodel.enc_run(0, q['qa'], None, q['A'], q['B'], None) for q in queries]
    res = lib.run_model(300, args)
    out = []
    for m in res:
        o = ec.canon_model(m)
        out.append({'events': o['events'], 'error': o['error'], 'pulls': o['pulls']})
    return args, res, out


def csv_expect(cases):
    flat = [q for c in cases for q in c['runs']]
    mres = lib.run_model(300, [qmodel.enc_run(0, q['qa'], None, q['A'], q['B'], None) for q in flat])
    k = 0
    exp = []
    for c in cases:
        rs = []
        for _q in c['runs']:
            o = ec.canon_model(mres[k])
            k += 1
            if o['error'] is not None:
                rs.append({'rows': None, 'error': o['error']})
            else:
                rs.append({'rows': [['' if v is None else str(v) for v in e[1]] for e in o['events'] if e[0] == 'W'], 'error': None})
        exp.append({'results': rs})
    return exp


def csv_rel(c, e, g):
    if not isinstance(g, dict) or 'results' not in g or len(g['results']) != len(e['results']):
        return False
    for x, y in zip(e['results'], g['results']):
        if y is None:
            return False
        if x['error'] is not None:
            if y['error'] is None or y['error'][0] != x['error'][0]:
                return False
        elif y['error'] is not None or y['rows'] != x['rows']:
            return False
    return True


def csv_sequences(ctx):
    """histories through the CSV front-end: each run has its own directory with in.csv and a join file of the SAME relative name"""
    r = ctx.rng
    n = 40 if ctx.tier == 'quick' else 3000
    cases = []
    flat = []
    for _ in range(n):
        runs = []
        for _k in range(r.randint(2, 4)):
            A = [[r.choice(['a', 'b', 'k']), str(r.randint(1, 9))] for _ in range(r.randint(1, 3))]
            B = [[key, 'w%d' % r.randint(0, 99)] for key in r.sample(['a', 'b', 'k'], r.randint(1, 3))]
            kind = r.random()
            if kind < 0.2:
                qa = {'kind': ('select', [('expr', ('int', ('fld', 'a', 0))), ('expr', ('fld', 'b', 1))]), 'where': None,
                      'join': {'kind': 'inner', 'spelling': 'join', 'lhs': [0], 'rhs': [0]}}
                q = 'select int(a1), b2 join jt.csv on a1 == b1'
            else:
                left = kind < 0.5
                qa = {'kind': ('select', [('expr', ('fld', 'a', 0)), ('expr', ('fld', 'b', 1))]), 'where': None,
                      'join': {'kind': 'left' if left else 'inner', 'spelling': 'left join' if left else 'join', 'lhs': [0], 'rhs': [0]}}
                q = 'select a1, b2 %s jt.csv on a1 == b1' % ('left join' if left else 'join')
            runs.append({'q': q, 'qa': qa, 'A': A, 'B': B})
            flat.append(runs[-1])
        cases.append({'mode': 'csvseq', 'runs': runs})
    exp = csv_expect(cases)
    got = lib.run_impl_py('c16', cases, extra_env={'VERIF_SCRATCH': lib.BUILD})
    ctx.compare(cases, exp, got, THEOREM + ' (CSV front-end histories)', rel=csv_rel,
                describe=lambda c, e, g: 'query_csv history %s with per-run directories: solo model results %s, implementation %s' % (
                    [(q['q'], q['A'], q['B']) for q in c['runs']], json.dumps(e)[:400], json.dumps(g)[:400]),
                corrupt=lambda e: {'results': e['results'] + [None]})
    ctx.count(len(flat))
    ctx.stat('csv_history_runs', len(flat))
    for c in cases:
        ctx.nontriv(('csvseq', json.dumps([(q['q'], q['A'], q['B']) for q in c['runs']])))


def rel_results(c, e, g):
    if not isinstance(g, dict) or 'results' not in g or len(g['results']) != len(e['results']):
        return False
    for x, y, q in zip(e['results'], g['results'], c['queries']):
        if y is None or ec.strip_header(x['events']) != ec.strip_header(y['events']) or x['error'] != y['error'] or x['pulls'] != y['pulls']:
            return False
        if 'exp_header' in q and x['error'] is None:
            # the output header of a query with column names is part of its result too (its derivation belongs to C07; here: that it
            # is the header of THIS query, whatever ran before or runs beside it)
            hev = [ev for ev in y['events'] if ev[0] == 'H']
            if not hev or hev[0][1] != q['exp_header']:
                return False
    return True


def nsteps(o):
    return o['pulls'] + 1 + len(o['events']) + 4


def run(ctx):
    r = ctx.rng
    cases = []
    # (a) interleavings of two queries of different kinds
    npairs = 40 if ctx.tier == 'quick' else 1500
    for _ in range(npairs):
        k1, k2 = r.sample(KINDS, 2)
        qs = [scenario(r, k1), scenario(r, k2)]
        _a, _m, so = solo(qs)
        m, n = min(nsteps(so[0]), 8), min(nsteps(so[1]), 8)
        if ctx.tier != 'quick' and m + n <= 12:
            scheds = [list(s) for s in set(itertools.permutations([0] * m + [1] * n))] if m + n <= 10 else None
        else:
            scheds = None
        if scheds is None:
            scheds = []
            for _ in range(12 if ctx.tier == 'quick' else 120):
                s = [0] * m + [1] * n
                r.shuffle(s)
                scheds.append(s)
            scheds.append([0] * m + [1] * n)
            scheds.append([1] * n + [0] * m)
            scheds.append([i % 2 for i in range(m + n)])
        for s in scheds:
            cases.append({'mode': 'inter', 'queries': qs, 'schedule': s, '_solo': so})
    # (b) histories of <= 6 queries drawn from success / parse-error / runtime-error scenarios
    nseq = 300 if ctx.tier == 'quick' else 30000
    for _ in range(nseq):
        qs = [scenario(r, r.choice(KINDS)) for _ in range(r.randint(2, 6))]
        cases.append({'mode': 'seq', 'queries': qs})
    seqs = [c for c in cases if c['mode'] == 'seq']
    flat = [q for c in seqs for q in c['queries']]
    args, mres, so = solo(flat)
    i = 0
    for c in seqs:
        c['_solo'] = so[i:i + len(c['queries'])]
        i += len(c['queries'])
    exp = [{'results': c['_solo']} for c in cases]
    send = [{k: v for k, v in c.items() if k != '_solo'} for c in cases]
    got = lib.run_impl_py('c16', send, timeout=3000)

    ctx.compare(send, exp, got, THEOREM, rel=rel_results,
                describe=lambda c, e, g: '%s of %s (schedule %s): solo model results %s, implementation %s' % (
                    c['mode'], [q['q'] for q in c['queries']], c.get('schedule'), json.dumps(e)[:300], json.dumps(g)[:400]),
                corrupt=lambda e: {'results': e['results'] + [None]})
    ctx.cross_check_vm(300, args, mres, n=30)
    csv_sequences(ctx)
    for c in cases:
        ctx.count()
        ctx.stat(c['mode'])
        ctx.nontriv((c['mode'], tuple(q['q'] for q in c['queries']), tuple(c.get('schedule') or ())))
        for q in c['queries']:
            ctx.stat('kind_' + q['kind'])
    ex = [c for c in send if c['mode'] == 'inter'][0]
    ctx.sample({'mode': 'inter', 'queries': [q['q'] for q in ex['queries']], 'schedule': ex['schedule'], 'implementation': got[send.index(ex)]})
    ctx.rule = ('(a) %d pairs of queries of different kinds {select, aggregate, distinct+order, join, update, like, unnest, runtime error, parse error} over tables of <= 3 records, run in two threads under a cooperative '
                'scheduler with a scheduling point at every get_record / write / finish: random and extreme schedules (thorough: all interleavings when <= 10 steps); (b) %d histories of 2-6 queries in one '
                'interpreter; every result (trace, error, pulls) compared with the solo engine-model result; non-trivial = distinct (queries, schedule)') % (npairs, nseq)
    # the history clause for rbql-js (sequential only: its query context is a module global, O3 / O23)
    importlib.import_module('props.c16js').run(ctx)


def replay(ctx, case):
    if case.get('part') == 'c16js':
        return importlib.import_module('props.c16js').replay(ctx, case)
    if case.get('mode') == 'csvseq':
        got = lib.run_impl_py('c16', [case], shards=1, extra_env={'VERIF_SCRATCH': lib.BUILD})
        ctx.count()
        ctx.compare([case], csv_expect([case]), got, THEOREM, rel=csv_rel)
        return
    _a, _m, so = solo(case['queries'])
    got = lib.run_impl_py('c16', [case], shards=1)
    ctx.count()
    ctx.compare([case], [{'results': so}], got, THEOREM, rel=rel_results)
