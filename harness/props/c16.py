# C16 - Queries are isolated: consecutive and thread-interleaved runs do not interfere.
# Theorems: Props/C16.v
#   * C16_interleaving / C16_history (Isolation.v): two abstract step machines whose states are disjoint by assumption;
#   * C16_ir_interleaving / C16_ir_history / C16_ir_solo_store (Shared.v): the same over an IR in which the partition is CHECKED:
#     `isolated off p e` = the transitive shared write set of entry point e is empty.  The IR TERM of the Python implementation is
#     REGENERATED FROM THE SOURCE on every run by harness/translate_shared.py into build/gen/shared_<pid>/SharedFacts.v with the
#     obligations gen_shared_isolated(_<entry>) and the instantiated corollaries gen_shared_noninterference / gen_shared_history /
#     gen_shared_store_unchanged; shared_step() below compiles that file and checks every Print Assumptions.
#     A refused translation, an obligation that evaluates to false or a coqc error is a violation: the dynamic exploration below
#     (schedules, histories) runs first as the SEARCH for a concrete failing input; only if it finds none the violation is reported
#     as no-failing-input-found with the broken obligation and the cells / sites in the replay file.
#   * runtime cross-check of the translator: harness/impl/sharedmon.py snapshots every shared cell of the loaded rbql modules
#     around every executed case; a cell that changed and is not in the translator's write set = "translator unsound here".
# The dynamic part: every interleaving / sequence result is compared with the SOLO result of the engine model.
import importlib
import itertools
import json
import os
import re
import shutil
import threading
import time
import lib
import qmodel
import qgen
import enginecheck as ec

THEOREM = 'C16_interleaving / C16_history (Props/C16.v): each query in an interleaving or a history yields its solo result (solo result = engine model run)'


IR_THEOREM = ('C16_ir_interleaving / C16_ir_history (Props/C16.v) instantiated by the obligations generated from the implementation source '
              '(harness/translate_shared.py): gen_shared_isolated, gen_shared_noninterference, gen_shared_history')


def shared_step(ctx, keep=False):
    """translate the implementation to the shared-state IR, compile the generated file; -> dict(ok, failed, detail, dir, theorems, facts)"""
    d = os.path.join(lib.BUILD, 'gen', 'shared_%d' % os.getpid())
    shutil.rmtree(d, ignore_errors=True)
    os.makedirs(d)
    res = {'ok': False, 'failed': [], 'detail': '', 'dir': d, 'theorems': [], 'facts': None, 'stage': 'translate'}
    t0 = time.time()
    env = dict(os.environ)
    env['VERIF_REPO'] = lib.REPO
    env['PYTHONDONTWRITEBYTECODE'] = '1'
    try:
        rc, out = lib.sh(['timeout', '120', 'python3', os.path.join(lib.VERIF, 'harness', 'translate_shared.py'), d], env=env, timeout=150)
    except Exception as e:                                   # noqa: BLE001
        rc, out = 99, 'translator did not finish: %r' % e
    res['translate_s'] = round(time.time() - t0, 2)
    ctx.generated_checker = ('python3 harness/translate_shared.py build/gen/shared_<pid> (VERIF_REPO); coqc -Q coq/theories RBQL -Q build/gen/shared_<pid> RBQLGen '
                             'build/gen/shared_<pid>/SharedFacts.v (every run; Eval values and Print Assumptions parsed)')
    if rc != 0:
        res['failed'] = ['translate_shared']
        res['detail'] = 'the translator refused the implementation source (rc=%d): %s' % (rc, out.strip()[-1200:])
        for n in ('gen_shared_isolated', 'gen_shared_noninterference', 'gen_shared_history'):
            ctx.generated_obligations[n] = False
        return res
    facts = json.load(open(os.path.join(d, 'SharedFacts.json')))
    res['facts'] = facts
    res['stage'] = 'coqc'
    t1 = time.time()
    cmd = 'cd %s && ulimit -s unlimited; timeout 300 coqc -Q %s RBQL -Q %s RBQLGen %s 2>&1' % (d, os.path.join(lib.COQ, 'theories'), d, os.path.join(d, 'SharedFacts.v'))
    try:
        rc, out = lib.sh(['bash', '-c', cmd], timeout=330)
    except Exception as e:                                   # noqa: BLE001
        rc, out = 99, 'coqc did not finish: %r' % e
    res['coqc_s'] = round(time.time() - t1, 2)
    vals = re.findall(r'= (true|false)\s*\n\s*: bool', out)
    names = facts['obligations']
    if len(vals) == len(names):
        res['failed'] = [n for n, v in zip(names, vals) if v != 'true']
    blocks = [b for b in re.split(r'(?=Closed under the global context|Axioms:)', out) if b.startswith('Closed under') or b.startswith('Axioms:')]
    thms = facts['theorems']
    closed = {}
    if rc == 0 and len(blocks) == len(thms):
        for n, b in zip(thms, blocks):
            closed[n] = b.startswith('Closed under')
    res['theorems'] = thms
    for n in thms:
        ctx.generated_obligations[n] = bool(closed.get(n, False)) and n not in res['failed']
    if rc != 0 or len(vals) != len(names) or len(blocks) != len(thms) or not all(closed.get(n) for n in thms) or res['failed']:
        if not res['failed']:
            res['failed'] = ['SharedFacts.v'] if rc != 0 else [n for n in thms if not closed.get(n)] or ['SharedFacts.v']
        ws = facts.get('write_set_all_entries') or {}
        bad_entries = [e['name'] for e in facts.get('entries', []) if e['write_set'] and e.get('named')]
        tail = '\n'.join(l for l in out.split('\n') if l.strip() and not l.startswith('Closed under') and not re.match(r'\s*(= (true|false)|: bool)\s*$', l))
        res['detail'] = ('obligations that evaluate to false: %s; shared cells written on a query path: %s; entry points affected: %s; coqc rc=%d: %s' % (
            ', '.join(res['failed']), '; '.join('%s <- %s' % (k, v[0]) for k, v in ws.items()) or 'none reported', ', '.join(bad_entries) or '-', rc, tail.strip()[-400:]))
        return res
    res['ok'] = True
    if not keep:
        shutil.rmtree(d, ignore_errors=True)
    return res


def covered(name, write_set):
    """is the runtime cell `name` (harness/impl/sharedmon.py naming) inside a cell of the translator's write set?"""
    for w in write_set:
        if name == w or name.startswith(w + '.'):
            return True
        if w.endswith('.__dict__') and name.split('.')[0] == w.split('.')[0]:
            return True
    return False


class SharedMonitor(object):
    """collects the per-case snapshots' verdicts; report() compares them with the translator's write set"""
    def __init__(self):
        self.changed = {}            # cell -> first case in which it changed
        self.monitored = 0
        self.cases = 0

    def feed(self, cases, got):
        for c, g in zip(cases, got):
            sh = g.get('shared') if isinstance(g, dict) else None
            if not sh:
                continue
            self.cases += 1
            self.monitored = max(self.monitored, sh.get('monitored', 0))
            for name in sh.get('changed', []):
                self.changed.setdefault(name, c)

    def report(self, ctx, shared):
        ctx.stat('shared_cells_monitored_at_runtime', self.monitored)
        ctx.stat('cases_between_two_snapshots', self.cases)
        ctx.stat('shared_cells_seen_changing', len(self.changed))
        facts = shared.get('facts') or {}
        ws = list((facts.get('write_set_all_entries') or {}).keys())
        if shared.get('facts') is None:
            return sorted(self.changed)
        for name, case in sorted(self.changed.items()):
            if not covered(name, ws):
                small = {k: v for k, v in case.items() if k != '_solo'}
                ctx.violation(dict(small, shared_cell_changed=name), None, {'changed': name}, IR_THEOREM,
                              'translator unsound here: shared cell %s changed while this case ran, but the write sets computed by harness/translate_shared.py '
                              'for the entry points do not contain it (write sets: %s)' % (name, ws or 'empty'), no_input=True)
        return sorted(self.changed)


def report_shared(ctx, shared, found_concrete, seen_changing=()):
    facts = shared.get('facts') or {}
    st = facts.get('stats') or {}
    for k in ('cells', 'functions', 'classes', 'entries', 'read_effects', 'call_edges', 'write_effects', 'mutable_cells'):
        if k in st:
            ctx.stat('ir_' + k, st[k])
    ctx.notes.append({'shared_translation': {'ok': shared['ok'], 'stage': shared['stage'], 'failed': shared['failed'], 'translate_s': shared.get('translate_s'),
                                             'coqc_s': shared.get('coqc_s'), 'generated_theorems': shared['theorems'],
                                             'flags_assumed_off': facts.get('flags_assumed_off'), 'write_set_all_entries': facts.get('write_set_all_entries'),
                                             'writes_outside_entries': facts.get('writes_outside_entries'), 'generated_programs': facts.get('generated_programs'),
                                             'assumed_external_calls': sorted((facts.get('externals') or {}).keys()),
                                             'unknown_callees': sorted((facts.get('unknown_callees') or {}).keys()),
                                             'cells_seen_changing_at_runtime': list(seen_changing)}})
    if shared['ok']:
        ctx.sample({'kind': 'generated obligation', 'theorem': 'gen_shared_isolated', 'entries': st.get('entries'), 'functions': st.get('functions'),
                    'cells': st.get('cells'), 'flags_assumed_off': [f['cell'] for f in facts.get('flags_assumed_off', [])]})
        return
    if found_concrete:
        ctx.notes.append('shared-state obligations broken (%s); a concrete failing input was found and reported above' % ', '.join(shared['failed']))
        return
    detail = shared['detail']
    if seen_changing:
        detail += '; observed at runtime (snapshots around the executed cases): %s changed' % ', '.join(seen_changing)
    ctx.obligation_failed(shared['failed'], detail, IR_THEOREM, case={'shared_obligation': shared['failed'], 'generated_dir': shared['dir'], 'repo': lib.REPO,
                                                                         'write_set': facts.get('write_set_all_entries')})


def scenario(r, kind):
    """a query of a given kind over a small table"""
    n = r.randint(1, 3)
    A = [[r.choice(['a', 'b', 'k']), str(r.randint(1, 9))] for _ in range(n)]
    B = None
    if kind in ('select', 'from_query'):
        qa = {'kind': ('select', [('expr', ('fld', 'a', 0)), ('expr', ('NR',))]), 'where': ('ne', ('fld', 'a', 0), ('lit', 'k')), 'join': None}
    elif kind == 'aggregate':
        qa = {'kind': ('select', [('expr', ('fld', 'a', 0)), ('agg', 'SUM', 'SUM', ('fld', 'a', 1)), ('agg', 'COUNT', 'count', ('lit', 1), 'star')]), 'where': None, 'join': None, 'group': [('fld', 'a', 0)]}
    elif kind in ('avg_native', 'avg_string'):
        # numeric aggregates over NATIVE numbers and over numeric STRINGS: whether strings need converting is decided per
        # aggregator and per query - a decision remembered across queries or threads breaks the later one
        vals = [r.randint(1, 9) for _ in range(n)]
        A = [[r.choice(['a', 'b']), (v if kind == 'avg_native' else str(v))] for v in vals]
        qa = {'kind': ('select', [('expr', ('fld', 'a', 0)), ('agg', 'AVG', 'AVG', ('fld', 'a', 1)), ('agg', 'MAX', 'max', ('fld', 'a', 1))]),
              'where': None, 'join': None, 'group': [('fld', 'a', 0)]}
    elif kind == 'distinct_order':
        qa = {'kind': ('select', [('expr', ('fld', 'a', 0))]), 'where': None, 'join': None, 'order': ([('fld', 'a', 0)], r.random() < 0.5), 'distinct': 1}
    elif kind == 'join':
        B = [[r.choice(['a', 'b']), 'w%d' % i] for i in range(r.randint(1, 2))]
        qa = {'kind': ('select', [('expr', ('fld', 'a', 0)), ('expr', ('fld', 'b', 1))]), 'where': None, 'join': {'kind': 'inner', 'spelling': 'join', 'lhs': [0], 'rhs': [0]}}
    elif kind == 'update':
        qa = {'kind': ('update', [(1, ('add', ('fld', 'a', 0), ('lit', '!'))), (0, ('NU',))]), 'where': ('ne', ('fld', 'a', 0), ('lit', 'b')), 'join': None}
    elif kind == 'like':
        qa = {'kind': ('select', [('expr', ('like', ('fld', 'a', 0), ('lit', r.choice(['a%', '_', '%k'])))), ('expr', ('like', ('fld', 'a', 1), ('lit', '_')))]), 'where': None, 'join': None}
    elif kind == 'unnest':
        qa = {'kind': ('select', [('expr', ('fld', 'a', 0)), ('unnest', ('list', [('fld', 'a', 1), ('lit', 'u')]), 'UNNEST')]), 'where': None, 'join': None, 'top': 3}
    elif kind in ('named', 'named_dc'):
        # column-name variables: the same query TEXT over tables whose headers are ordered differently
        hdr = r.choice([['name', 'score'], ['score', 'name']])
        i_name, i_score = hdr.index('name'), hdr.index('score')
        A = [[None, None] for _ in range(n)]
        for row in A:
            row[i_name] = r.choice(['a', 'b', 'k'])
            row[i_score] = str(r.randint(1, 9))
        qa = {'kind': ('select', [('expr', ('fld', 'a', i_name)), ('expr', ('fld', 'a', i_score))]), 'where': ('ne', ('fld', 'a', i_score), ('lit', '5')), 'join': None}
        if kind == 'named_dc':
            # the same select list under DISTINCT COUNT: its header has one more (unnamed) column - and only ITS header
            qa = {'kind': ('select', [('expr', ('fld', 'a', i_name)), ('expr', ('fld', 'a', i_score))]), 'where': None, 'join': None, 'distinct': 2}
            return {'q': 'select distinct count a.name, a.score', 'qa': qa, 'A': A, 'B': None, 'kind': kind, 'hdrA': hdr, 'exp_header': ['col1', 'name', 'score']}
        return {'q': 'select a.name, a.score where a.score != "5"', 'qa': qa, 'A': A, 'B': None, 'kind': kind, 'hdrA': hdr, 'exp_header': ['name', 'score']}
    elif kind == 'runtime_error':
        qa = {'kind': ('select', [('expr', ('int', ('fld', 'a', 0)))]), 'where': None, 'join': None}
    elif kind == 'parse_error':
        qa = {'kind': ('update', [(0, ('lit', 'z'))]), 'where': None, 'join': None, 'order': ([('fld', 'a', 0)], False)}
    else:
        raise ValueError(kind)
    c = ec.make_case(r, qa, A, B)
    if kind == 'from_query':
        # the query names its input table (FROM T, resolved through the table registry; no caller-bound input): the keyword
        # tables of the parser are shared by all queries of the process and must come through every earlier query unchanged
        q = re.sub(r'(?i)\s+where\s', ' from T where ', c['q'], count=1)
        assert q != c['q']
        return {'q': q, 'qa': qa, 'A': A, 'B': B, 'kind': kind, 'from': True}
    return {'q': c['q'], 'qa': qa, 'A': A, 'B': B, 'kind': kind}


KINDS = ['select', 'from_query', 'from_query', 'aggregate', 'avg_native', 'avg_string', 'named_dc', 'named_dc', 'distinct_order', 'join', 'update', 'like', 'unnest', 'named', 'named', 'runtime_error', 'parse_error']


def solo(queries):
    args = [qmodel.enc_run(0, q['qa'], None, q['A'], q['B'], None) for q in queries]
    res = lib.run_model(300, args)
    out = []
    for m in res:
        o = ec.canon_model(m)
        out.append({'events': o['events'], 'error': o['error'], 'pulls': o['pulls']})
    return args, res, out


def csv_expect(cases):
    flat = [q for c in cases for q in c['runs']]
    mres = lib.run_model(300, [qmodel.enc_run(0, q['qa'], None, q['A'], q['B'], None) for q in flat])
    k = 0
    exp = []
    for c in cases:
        rs = []
        for _q in c['runs']:
            o = ec.canon_model(mres[k])
            k += 1
            if o['error'] is not None:
                rs.append({'rows': None, 'error': o['error']})
            else:
                rs.append({'rows': [['' if v is None else str(v) for v in e[1]] for e in o['events'] if e[0] == 'W'], 'error': None})
        exp.append({'results': rs})
    return exp


def csv_rel(c, e, g):
    if not isinstance(g, dict) or 'results' not in g or len(g['results']) != len(e['results']):
        return False
    for x, y in zip(e['results'], g['results']):
        if y is None:
            return False
        if x['error'] is not None:
            if y['error'] is None or y['error'][0] != x['error'][0]:
                return False
        elif y['error'] is not None or y['rows'] != x['rows']:
            return False
    return True


def csv_sequences(ctx, mon=None):
    """histories through the CSV front-end: each run has its own directory with in.csv and a join file of the SAME relative name"""
    r = ctx.rng
    n = 40 if ctx.tier == 'quick' else 3000
    cases = []
    flat = []
    for _ in range(n):
        runs = []
        for _k in range(r.randint(2, 4)):
            A = [[r.choice(['a', 'b', 'k']), str(r.randint(1, 9))] for _ in range(r.randint(1, 3))]
            B = [[key, 'w%d' % r.randint(0, 99)] for key in r.sample(['a', 'b', 'k'], r.randint(1, 3))]
            kind = r.random()
            if kind < 0.2:
                qa = {'kind': ('select', [('expr', ('int', ('fld', 'a', 0))), ('expr', ('fld', 'b', 1))]), 'where': None,
                      'join': {'kind': 'inner', 'spelling': 'join', 'lhs': [0], 'rhs': [0]}}
                q = 'select int(a1), b2 join jt.csv on a1 == b1'
            else:
                left = kind < 0.5
                qa = {'kind': ('select', [('expr', ('fld', 'a', 0)), ('expr', ('fld', 'b', 1))]), 'where': None,
                      'join': {'kind': 'left' if left else 'inner', 'spelling': 'left join' if left else 'join', 'lhs': [0], 'rhs': [0]}}
                q = 'select a1, b2 %s jt.csv on a1 == b1' % ('left join' if left else 'join')
            runs.append({'q': q, 'qa': qa, 'A': A, 'B': B})
            flat.append(runs[-1])
        cases.append({'mode': 'csvseq', 'runs': runs})
    exp = csv_expect(cases)
    got = lib.run_impl_py('c16', cases, extra_env={'VERIF_SCRATCH': lib.BUILD})
    if mon is not None:
        mon.feed(cases, got)
    ctx.compare(cases, exp, got, THEOREM + ' (CSV front-end histories)', rel=csv_rel,
                describe=lambda c, e, g: 'query_csv history %s with per-run directories: solo model results %s, implementation %s' % (
                    [(q['q'], q['A'], q['B']) for q in c['runs']], json.dumps(e)[:400], json.dumps(g)[:400]),
                corrupt=lambda e: {'results': e['results'] + [None]})
    ctx.count(len(flat))
    ctx.stat('csv_history_runs', len(flat))
    for c in cases:
        ctx.nontriv(('csvseq', json.dumps([(q['q'], q['A'], q['B']) for q in c['runs']])))


def rel_results(c, e, g):
    if not isinstance(g, dict) or 'results' not in g or len(g['results']) != len(e['results']):
        return False
    for x, y, q in zip(e['results'], g['results'], c['queries']):
        if y is None or ec.strip_header(x['events']) != ec.strip_header(y['events']) or x['error'] != y['error'] or x['pulls'] != y['pulls']:
            return False
        if 'exp_header' in q and x['error'] is None:
            # the output header of a query with column names is part of its result too (its derivation belongs to C07; here: that it
            # is the header of THIS query, whatever ran before or runs beside it)
            hev = [ev for ev in y['events'] if ev[0] == 'H']
            if not hev or hev[0][1] != q['exp_header']:
                return False
    return True


def nsteps(o):
    return o['pulls'] + 1 + len(o['events']) + 4


def run(ctx):
    # translation + compilation of the generated obligations runs beside the dynamic exploration (it only spawns processes)
    box = {}

    def bg():
        try:
            box['shared'] = shared_step(ctx)
        except Exception as e:                               # noqa: BLE001
            box['shared'] = {'ok': False, 'failed': ['shared_step'], 'detail': 'shared step raised %r' % e, 'dir': '', 'theorems': [], 'facts': None, 'stage': 'harness'}
    th = threading.Thread(target=bg)
    th.start()
    nviol0 = len(ctx.violations)
    mon = SharedMonitor()
    failure = None
    try:
        run_dynamic(ctx, mon)
    except lib.CheckFailure as e:
        failure = e                  # e.g. a driver that does not terminate: still report the obligations, then re-raise
    th.join()
    found = len(ctx.violations) > nviol0
    seen = mon.report(ctx, box['shared'])
    report_shared(ctx, box['shared'], found_concrete=found, seen_changing=seen)
    if failure is not None:
        raise failure


def run_dynamic(ctx, mon):
    r = ctx.rng
    cases = []
    # (a) interleavings of two queries of different kinds
    npairs = 40 if ctx.tier == 'quick' else 1500
    for _ in range(npairs):
        k1, k2 = r.sample(KINDS, 2)
        qs = [scenario(r, k1), scenario(r, k2)]
        _a, _m, so = solo(qs)
        m, n = min(nsteps(so[0]), 8), min(nsteps(so[1]), 8)
        if ctx.tier != 'quick' and m + n <= 12:
            scheds = [list(s) for s in set(itertools.permutations([0] * m + [1] * n))] if m + n <= 10 else None
        else:
            scheds = None
        if scheds is None:
            scheds = []
            for _ in range(12 if ctx.tier == 'quick' else 120):
                s = [0] * m + [1] * n
                r.shuffle(s)
                scheds.append(s)
            scheds.append([0] * m + [1] * n)
            scheds.append([1] * n + [0] * m)
            scheds.append([i % 2 for i in range(m + n)])
        for s in scheds:
            cases.append({'mode': 'inter', 'queries': qs, 'schedule': s, '_solo': so})
    # (b) histories of <= 6 queries drawn from success / parse-error / runtime-error scenarios
    nseq = 300 if ctx.tier == 'quick' else 30000
    for _ in range(nseq):
        qs = [scenario(r, r.choice(KINDS)) for _ in range(r.randint(2, 6))]
        cases.append({'mode': 'seq', 'queries': qs})
    seqs = [c for c in cases if c['mode'] == 'seq']
    flat = [q for c in seqs for q in c['queries']]
    args, mres, so = solo(flat)
    i = 0
    for c in seqs:
        c['_solo'] = so[i:i + len(c['queries'])]
        i += len(c['queries'])
    exp = [{'results': c['_solo']} for c in cases]
    send = [{k: v for k, v in c.items() if k != '_solo'} for c in cases]
    got = lib.run_impl_py('c16', send, timeout=3000)
    mon.feed(send, got)

    ctx.compare(send, exp, got, THEOREM, rel=rel_results,
                describe=lambda c, e, g: '%s of %s (schedule %s): solo model results %s, implementation %s' % (
                    c['mode'], [q['q'] for q in c['queries']], c.get('schedule'), json.dumps(e)[:300], json.dumps(g)[:400]),
                corrupt=lambda e: {'results': e['results'] + [None]})
    ctx.cross_check_vm(300, args, mres, n=30)
    csv_sequences(ctx, mon)
    for c in cases:
        ctx.count()
        ctx.stat(c['mode'])
        ctx.nontriv((c['mode'], tuple(q['q'] for q in c['queries']), tuple(c.get('schedule') or ())))
        for q in c['queries']:
            ctx.stat('kind_' + q['kind'])
    ex = [c for c in send if c['mode'] == 'inter'][0]
    ctx.sample({'mode': 'inter', 'queries': [q['q'] for q in ex['queries']], 'schedule': ex['schedule'], 'implementation': got[send.index(ex)]})
    ctx.rule = ('shared-state obligations regenerated from the source and re-proved (gen_shared_*; see notes) + a snapshot of every shared cell around every case; (a) %d pairs of queries of different kinds {select, aggregate, distinct+order, join, update, like, unnest, runtime error, parse error} over tables of <= 3 records, run in two threads under a cooperative '
                'scheduler with a scheduling point at every get_record / write / finish: random and extreme schedules (thorough: all interleavings when <= 10 steps); (b) %d histories of 2-6 queries in one '
                'interpreter; every result (trace, error, pulls) compared with the solo engine-model result; non-trivial = distinct (queries, schedule)') % (npairs, nseq)
    # the history clause for rbql-js (sequential only: its query context is a module global, O3 / O23)
    importlib.import_module('props.c16js').run(ctx)


def replay(ctx, case):
    if case.get('part') == 'c16js':
        return importlib.import_module('props.c16js').replay(ctx, case)
    if 'shared_obligation' in case:
        shared = shared_step(ctx, keep=True)
        ctx.count()
        report_shared(ctx, shared, found_concrete=False)
        return
    if 'shared_cell_changed' in case:
        shared = shared_step(ctx)
        mon = SharedMonitor()
        c = {k: v for k, v in case.items() if k not in ('shared_cell_changed', 'broken_obligations')}
        got = lib.run_impl_py('c16', [c], shards=1, extra_env={'VERIF_SCRATCH': lib.BUILD})
        mon.feed([c], got)
        ctx.count()
        mon.report(ctx, shared)
        return
    if case.get('mode') == 'csvseq':
        got = lib.run_impl_py('c16', [case], shards=1, extra_env={'VERIF_SCRATCH': lib.BUILD})
        ctx.count()
        ctx.compare([case], csv_expect([case]), got, THEOREM, rel=csv_rel)
        return
    _a, _m, so = solo(case['queries'])
    got = lib.run_impl_py('c16', [case], shards=1)
    ctx.count()
    ctx.compare([case], [{'results': so}], got, THEOREM, rel=rel_results)
