# C19 - The JavaScript engine has the same relational semantics as the reference (and leaves the caller's arrays alone).
# Model: the engine model of C01-C05 (Engine.v with the Js flavour of like); theorems: Props/C19.v re-states the reference
# theorems the JS engine is tied to. Correspondence: queries from the language-neutral vocabulary rendered into JS syntax
# through rbql-js query_table (node): result table, error class, input/join arrays afterwards.
from fractions import Fraction
import itertools
import json
import lib
import qgen
import qmodel
import enginecheck as ec

THEOREM = 'C19: reference semantics of C01-C05 (Props/C01..C05.v) instantiated with flavour Js; rbql-js tied to it by correspondence'
JSKEY_THEOREM = 'C19_js_key_faithful / C19_js_key_nan_refuted / C19_utf16_order_agree / C19_utf16_order_refuted (Props/C19.v): JsKey.v = JSON.stringify as rbql-js uses it for keys, Utf16.v = order of JavaScript strings'
CELLS = ['a', 'b', 'ab', 'ba', 'c', 'x1', 'A', 'a b', 'a!', 'b%', '_', 'US$$', 'x$&y', "$'", '$`z']      # incl. the $-sequences String.replace interprets
# cells for ORDER BY beyond ASCII: every code point is below U+D800 or astral (see gen_case)
UCELLS = ['a', 'b', 'z', '\u00e9', '\u00e4', '\u03a9', '\u4e2d', '\ud7ff', '\U0001f600', '\U00010000', '\U0010ffff', 'a\U0001f600', 'a\u00e9', '\U0001f600a', '\u4e2d\U00010000', '\U0001f600\U0001f601', '']
assert all(ord(ch) < 0xd800 or ord(ch) >= 0x10000 for cell in UCELLS for ch in cell)
NUM = ['1', '2', '3', '10', '7', '12', '2.5', '0.25', '0', '-4', '-1.5', '0']


class NGen(qgen.Gen):
    """language-neutral vocabulary: field references, literals, string concatenation, NR/NF arithmetic, comparisons, like"""
    def fld(self, ctx):
        r = self.rng
        if ctx.get('nb') and r.random() < 0.35:
            return ('fld', 'b', r.randint(0, ctx['nb'] - 1))
        return ('fld', 'a', r.randint(0, ctx['na'] - 1))

    def str_expr(self, ctx, d=2):
        r = self.rng
        x = r.random()
        if d <= 0 or x < 0.5:
            return self.fld(ctx) if r.random() < 0.7 else ('lit', r.choice(CELLS))
        if x < 0.8:
            return ('add', self.str_expr(ctx, d - 1), self.str_expr(ctx, d - 1))
        return ('cond', self.bool_expr(ctx, d - 1), self.str_expr(ctx, d - 1), self.str_expr(ctx, d - 1))

    def int_expr(self, ctx, d=2):
        r = self.rng
        x = r.random()
        if d <= 0 or x < 0.5:
            return (r.choice(['NR', 'NF']),) if r.random() < 0.7 else ('lit', r.randint(0, 12))
        if x < 0.7:
            return ('len', self.str_expr(ctx, d - 1))
        return ('add', self.int_expr(ctx, d - 1), self.int_expr(ctx, d - 1))

    def bool_expr(self, ctx, d=2):
        r = self.rng
        x = r.random()
        if d <= 0 or x < 0.35:
            return (r.choice(['eq', 'ne']), self.fld(ctx), ('lit', r.choice(CELLS)))
        if x < 0.5:
            return (r.choice(['lt', 'le']), self.str_expr(ctx, d - 1), self.str_expr(ctx, d - 1))
        if x < 0.65:
            return (r.choice(['lt', 'le', 'eq']), self.int_expr(ctx, d - 1), self.int_expr(ctx, d - 1))
        if x < 0.78:
            return ('like', self.str_expr(ctx, d - 1), ('lit', r.choice(['a%', '%b', '_', '%', 'a_', '%1%', 'ab'])))
        if x < 0.93:
            return (r.choice(['and', 'or']), self.bool_expr(ctx, d - 1), self.bool_expr(ctx, d - 1))
        return ('not', self.bool_expr(ctx, d - 1))

    def any_expr(self, ctx, d=2):
        x = self.rng.random()
        if x < 0.55:
            return self.str_expr(ctx, d)
        if x < 0.8:
            return self.int_expr(ctx, d)
        return self.bool_expr(ctx, d)

    def list_expr(self, ctx):
        r = self.rng
        return ('list', [self.str_expr(ctx, 1) for _ in range(r.randint(0, 3))])


def gen_case(ctx, g, focus=None):
    """focus: None | 'select' | 'order' | 'agg' | 'update' | 'join' - restricts the query shape (used by the JS legs of C01-C07)"""
    r = ctx.rng
    na = r.randint(1, 3)
    A = g.rect_table(r.randint(0, 6), na, CELLS[:5] if r.random() < 0.6 else CELLS)
    B, join, nb = None, None, None
    if r.random() < (0.35 if focus != 'join' else 1.0) and focus != 'agg':
        nb = r.randint(1, 2)
        # join cells include digit strings, the empty string and (ragged) missing fields next to NR / bNR key components: a key
        # encoding that confuses 1 with "1" or null with "" pairs records that are not key-equal
        bcells = CELLS[:3] if r.random() < 0.6 else ['1', '2', '', 'a']
        B = g.rect_table(r.randint(0, 4), nb, bcells)
        if bcells[0] == '1':
            A = [[r.choice(['1', '2', '', 'a']) if r.random() < 0.6 else x for x in row] for row in A]
        join = g.join({'na': na, 'nb': nb}, nkeys=r.choice([1, 2, 2]))
        join['lhs'] = [x if x is not None else None for x in join['lhs']]
    shape = r.random()
    if focus in ('select', 'join'):
        shape = r.random() * 0.35
    elif focus == 'order':
        shape = 0.35 + r.random() * 0.25
    elif focus == 'agg':
        shape = 0.6 + r.random() * 0.2
    elif focus == 'update':
        shape = 0.8 + r.random() * 0.2
    if join and join['kind'] == 'strict' and shape >= 0.8:
        join['kind'], join['spelling'] = 'left', 'left join'
    cx = {'na': na, 'nb': nb}
    if join and join['kind'] == 'left':
        # b-fields of an unmatched record are None/null: `null + 'x'` means different things in the two languages, so
        # under LEFT JOIN expressions use a-fields only and b-fields appear as bare items / b.*
        cx = {'na': na, 'nb': None}
    qa = {'where': g.bool_expr(cx) if r.random() < 0.4 else None, 'join': join}
    tags = []
    if shape < 0.35:
        if join is None and r.random() < (0.15 if focus != 'select' else 0.25):
            # any order, duplicates allowed, an index one past the widest record (then nothing is removed from shorter records);
            # with DISTINCT / DISTINCT COUNT / TOP on top (the count is prepended to the record the writer kept)
            qa['kind'] = ('except', [r.randint(0, na) for _ in range(r.randint(1, 3))])
            if r.random() < 0.3:
                # the same column mentioned twice AND a column to its right removed as well (a single-cursor merge over the
                # sorted index list gets stuck on the second copy)
                A = [row + [r.choice(CELLS[:5]) for _ in range(4 - len(row))] for row in A]
                d = r.randint(0, 2)
                xs = [d, d] + r.sample(range(d + 1, 4), r.randint(1, 3 - d))
                r.shuffle(xs)
                qa['kind'] = ('except', xs)
            elif r.random() < 0.25:
                # a wide table and column numbers of two digits next to small ones (10 sorts before 2 as TEXT, after it as a number)
                A = [row + [r.choice(CELLS[:5]) for _ in range(12 - len(row))] for row in A]
                qa['kind'] = ('except', r.sample([0, 1, 2, 3], r.randint(1, 2)) + r.sample([9, 10, 11], r.randint(1, 2)))
            qa['distinct'] = r.choice([0, 0, 1, 2, 2])
            qa['top'] = r.choice([None, None, 1])
            if r.random() < 0.4 and A and qa['where'] is None:     # (null arithmetic is not language-neutral: no WHERE over missing fields)
                A = [row[:r.randint(1, len(row))] if r.random() < 0.4 else row for row in A]      # ragged
        else:
            qa['kind'] = ('select', g.items(cx) + ([('expr', ('fld', 'b', 0)), ('starb',)] if (join and join['kind'] == 'left' and r.random() < 0.6) else []))
            if join and join['kind'] != 'strict' and r.random() < 0.2:
                # null CELLS (list tables, e.g. the output of an earlier LEFT JOIN) in key columns: a null key is a key like any
                # other - it pairs with null keys of B, or with nothing - and never "a missing field". (null arithmetic is not
                # language-neutral: bare fields and star forms only, no WHERE)
                A = [[(None if r.random() < 0.3 else x) for x in row] for row in A]
                B = [[(None if r.random() < 0.3 else x) for x in row] for row in B]
                qa['where'] = None
                qa['kind'] = ('select', [('expr', ('fld', 'a', r.randint(0, na - 1))), r.choice([('star',), ('starb',), ('expr', ('NR',))])])
    elif shape < 0.6:
        qa['kind'] = ('select', g.items(cx, max_items=2))
        kind = r.choice(['str', 'int'])
        keys = [g.str_expr(cx, 1) if kind == 'str' else g.int_expr(cx, 1) for _ in range(r.choice([1, 1, 2]))]
        if kind == 'str' and r.random() < 0.12:
            # ORDER BY over strings beyond ASCII: JavaScript sorts by UTF-16 code units (stable_compare: a[i] < b[i]), the reference by
            # code points.  The cells mix low-BMP non-ASCII characters (below U+D800) with astral ones, and NEVER a code point of
            # U+E000..U+FFFF together with an astral one: on such strings the two orders are the same order - C19_utf16_order_agree
            # (Props/C19.v) is the justification for comparing rbql-js with the code point model here; C19_utf16_order_refuted is why the
            # excluded range would be a false alarm, not a finding.  .length, like and the regex dot count code units in JS, so these
            # queries use bare fields and concatenations only (no WHERE, no computed items).
            A = [[r.choice(UCELLS) for _ in row] for row in A]
            qa['where'] = None
            qa['kind'] = ('select', r.choice([[('star',)], [('expr', ('fld', 'a', 0))], [('expr', ('fld', 'a', na - 1)), ('stara',)]]))
            keys = [r.choice([('fld', 'a', r.randint(0, na - 1)), ('add', ('fld', 'a', r.randint(0, na - 1)), ('fld', 'a', r.randint(0, na - 1))),
                              ('add', ('fld', 'a', 0), ('lit', r.choice(UCELLS)))]) for _ in range(r.choice([1, 1, 2]))]
            tags.append('unicode')
        qa['order'] = (keys, r.random() < 0.5)
        qa['distinct'] = r.choice([0, 0, 1, 2])
        qa['top'] = r.choice([None, None, 0, 1, 3])
        qa['top_spelling'] = r.choice(['top', 'limit'])
    elif shape < 0.8:
        numcol = na
        lacking = False
        pool = NUM if r.random() < 0.7 else ['0', '-1', '-2', '-5', '0', '-3']      # zero as a running extreme / sum among negatives
        A = [row + [r.choice(pool)] for row in A]
        if A and r.random() < 0.08:
            # one cell that is not a number in either language (an EMPTY or blank cell included: Number('') is 0 in JavaScript, but an
            # empty cell is not a number - the reference semantics fail at that record)
            A[r.randrange(len(A))][numcol] = r.choice(['x', '', ' ', '1.2.3', '1,5'])
        elif len(A) > 1 and r.random() < 0.05:
            # a record that LACKS the aggregated field (never the first record: which values need converting is decided on the first
            # one in rbql-py - NumHandler's string detection): a missing field is not a number either (Number(null) is 0 in JavaScript)
            k = r.randrange(1, len(A))
            A[k] = A[k][:numcol]
            lacking = True
        items = []
        for _ in range(r.randint(1, 3)):
            if r.random() < 0.75:
                kind = r.choice(qgen.AGGS)
                sp = r.choice([kind, kind.capitalize(), kind.lower()]) if kind != 'ARRAY_AGG' else r.choice(['ARRAY_AGG', 'array_agg'])
                arg = ('fld', 'a', numcol) if kind not in ('COUNT', 'ARRAY_AGG', 'ANY_VALUE') or r.random() < 0.5 else ('fld', 'a', 0)
                items.append(('agg', kind, sp, arg) if not (kind == 'COUNT' and r.random() < 0.4) else ('agg', 'COUNT', sp, ('lit', 1), 'star'))
                if kind == 'VARIANCE':
                    tags.append('approx')
            else:
                items.append(('expr', ('fld', 'a', 0)))
        qa['kind'] = ('select', items)
        qa['join'] = None
        B = None
        qa['where'] = None if r.random() < 0.7 else ('ne', ('fld', 'a', 0), ('lit', 'a'))
        if lacking:
            # (no WHERE then: the FIRST value a column's NumHandler sees must have the field, and with a WHERE the first passing record
            #  could be the one that lacks it - rbql-py would then name the next record; seed-3 rehearsal false alarm, DESIGN 11.2)
            qa['where'] = None
        if r.random() < 0.75:
            qa['group'] = [('fld', 'a', 0)] if r.random() < 0.7 else [('fld', 'a', 0), ('len', ('fld', 'a', 0))]
        qa['top'] = r.choice([None, None, 1])
        if r.random() < 0.15 and A:
            # a non-aggregate column over a field that some records lack (null): constant within a group only if ALL its
            # records agree, null included - null first and a value later is NOT constant
            extra = numcol + 1
            vals = r.choice([['x'], ['x', 'y']])
            A = [row + ([r.choice(vals)] if r.random() < 0.6 else []) for row in A]
            items.insert(r.randint(0, len(items)), ('expr', ('fld', 'a', extra)))
    else:
        cx2 = dict(cx, update=True)
        asg = [(r.randint(0, na - 1 + (1 if r.random() < 0.08 else 0)), g.str_expr(cx2, 1) if r.random() < 0.7 else ('fld', 'a', r.randint(0, na - 1))) for _ in range(r.randint(1, 3))]
        qa['kind'] = ('update', asg)
        if join is None and r.random() < 0.15:
            # a wide table, targets with two-digit column numbers next to small ones, and records too short for the higher target:
            # the bad-field error names that record whatever else is assigned (11 sorts before 3 as TEXT; seeded change C05-12)
            A = [row + [r.choice(CELLS[:5]) for _ in range(12 - len(row))] for row in A]
            A = [row[:r.choice([3, 5, 10, 11])] if r.random() < 0.35 else row for row in A]
            hi, lo = r.choice([10, 11]), r.randint(1, 9)
            asg = [(lo, ('fld', 'a', 0)), (hi, ('lit', 'w'))]
            if r.random() < 0.5:
                asg.reverse()
            if r.random() < 0.3:
                asg.append((r.randint(0, 11), ('fld', 'a', 1)))
            qa['kind'] = ('update', asg)
            qa['where'] = None
    hdrA = hdrB = None
    if focus in (None, 'join') and join is not None and qa.get('join') is join and qa['kind'][0] == 'select' and not qa.get('group') and r.random() < 0.35:
        # both tables with a HEADER; the join table with a header and NO records on purpose: rbql-js raises max_record_len to the number
        # of join column names after build(), so LEFT JOIN's all-null record has one field per join column (fix c71773a, D27; Join.widen).
        # TableIterator wants the header as wide as the first record of a non-empty table.
        if r.random() < 0.4:
            B = []
        if join['kind'] == 'left' and r.random() < 0.5:
            qa['kind'] = ('select', [('expr', ('fld', 'a', 0))] + r.sample([('starb',), ('star',), ('expr', ('fld', 'b', r.randint(0, nb - 1))), ('expr', ('bNF',))], r.randint(1, 3)))
        hdrA = ['ha%d' % (i + 1) for i in range(len(A[0]) if A else na)]
        hdrB = ['hb%d' % (i + 1) for i in range(len(B[0]) if B else nb + r.choice([0, 0, 1]))]
        join['hw'] = len(hdrB)
        tags.append('headers')
    rend = qmodel.Renderer('js', r)
    c = {'qa': qa, 'A': A, 'B': B, 'tags': tags}
    c['qjs'] = rend.query(qa)
    if hdrB is not None:
        c['hdrA'], c['hdrB'] = hdrA, hdrB
        c['qjs'] = c['qjs'].replace('a.NR', 'aNR').replace('b.NR', 'bNR')      # with a header a.NR / b.NR name a COLUMN called NR (O33)
    c['q'] = c['qjs']
    return c


def num(v):
    """numbers: JS has one numeric type; compare by value"""
    if isinstance(v, bool) or v is None or isinstance(v, str):
        return v
    if isinstance(v, int):
        return ('n', Fraction(v))
    if isinstance(v, dict) and 'frac' in v:
        return ('n', Fraction(v['frac'][0], v['frac'][1]))
    if isinstance(v, dict) and 'f' in v:
        return ('n', Fraction(v['f']) if not isinstance(v['f'], str) else Fraction(float.fromhex(v['f'])))
    if isinstance(v, list):
        return [num(x) for x in v]
    return v


def rows_equal(a, b, tol):
    if len(a) != len(b):
        return False
    for ra, rb in zip(a, b):
        if len(ra) != len(rb):
            return False
        for x, y in zip(ra, rb):
            x, y = num(x), num(y)
            if isinstance(x, tuple) and isinstance(y, tuple):
                if tol:
                    if abs(float(x[1]) - float(y[1])) > tol * max(1.0, abs(float(x[1]))):
                        return False
                elif float(x[1]) != float(y[1]):
                    return False
            elif x != y:
                return False
    return True


def rel(c, e, g):
    if e is None:
        return True
    if 'endless' in c.get('tags', ()) and e['pulls'] >= len(c['A_model']):
        return True           # the model did not reach the bound within its finite prefix: nothing to compare
    if not isinstance(g, dict) or 'rows' not in g:
        return False
    if not g['sources_ok'] or g['alias']:
        return False
    exp_rows = [x[1] for x in e['events'] if x[0] == 'W' and x[2]]
    if e['error'] is not None:
        # same error class; the rows written before a failure are not observable through query_table
        return g['error'] is not None and g['error'][0] == e['error'][0] and (e['error'][1] == 0 or g['error'][1] == e['error'][1])
    if g['error'] is not None:
        return False          # includes NONTERMINATION on an endless input
    if 'pulls' in g and g['pulls'] > e['pulls']:
        return False          # early stop: never more records pulled than the reference
    return rows_equal(exp_rows, g['rows'], 1e-6 if 'approx' in c.get('tags', ()) else 0)


def describe(c, e, g):
    return 'rbql-js: query %r over A=%s B=%s: reference model %s, rbql-js %s' % (c['qjs'], json.dumps(c['A']), json.dumps(c['B']), json.dumps(e)[:400], json.dumps(g)[:400])


def gen_endless(ctx, g):
    """bounded query without buffering over an endless input: rbql-js must terminate, pulling no more than the reference"""
    r = ctx.rng
    base = g.rect_table(r.randint(1, 4), r.randint(1, 2), ['a', 'b', 'c'])
    items = [('expr', ('fld', 'a', 0))] + ([('expr', ('NR',))] if r.random() < 0.5 else [])
    if r.random() < 0.2:
        items.append(('unnest', ('list', [('lit', 'u'), ('lit', 'v')]), 'UNNEST'))
    where = ('ne', ('fld', 'a', 0), ('lit', 'a')) if r.random() < 0.4 else None
    distinct = 1 if (r.random() < 0.4 and not any(i[1] == ('NR',) for i in items if i[0] == 'expr')) else 0
    qa = {'kind': ('select', items), 'where': where, 'join': None, 'order': None, 'distinct': distinct,
          'top': r.randint(0, 6), 'top_spelling': r.choice(['top', 'limit'])}
    c = {'qa': qa, 'A': base, 'B': None, 'tags': ['endless'], 'endless': 5000}
    c['A_model'] = [base[i % len(base)] for i in range(80)]
    c['qjs'] = qmodel.Renderer('js', r).query(qa)
    c['q'] = c['qjs']
    return c


def gen_big_order(ctx, g):
    """ORDER BY over MANY records with few distinct keys, under a small TOP / LIMIT: ties in input order at every size (a sorter that
    prunes its buffer as it goes must still number the entries in arrival order)"""
    r = ctx.rng
    n = r.choice([1030, 1500, 2600]) if ctx.tier == 'quick' else r.choice([1023, 1024, 1025, 1100, 2048, 2600, 4100, 6000])
    A = [[str(i), r.choice(['k', 'm', 'z'])] for i in range(n)]
    qa = {'kind': ('select', [('expr', ('fld', 'a', 0)), ('expr', ('fld', 'a', 1))]), 'where': None, 'join': None,
          'order': ([('fld', 'a', 1)], r.random() < 0.5), 'distinct': 0, 'top': r.choice([1, 5, 7]), 'top_spelling': r.choice(['top', 'limit'])}
    c = {'qa': qa, 'A': A, 'B': None, 'tags': ['big']}
    c['qjs'] = qmodel.Renderer('js', r).query(qa)
    c['q'] = c['qjs']
    return c


def unknown_join_table_probe(ctx, theorem):
    """a JOIN against a table name the caller's single-table registry does not know (query_table binds the join table as b / B):
    a mistake in the query text - a parsing error in both ports, before anything is written (finding D25: rbql-js said IO handling)"""
    r = ctx.rng
    cases = []
    for name in ['c', 'bb', 'B2', 'join_table', 'a']:
        for kind in ['join', 'left join', 'strict left join', 'inner join']:
            q = 'select a1, NR %s %s on a1 == %s1' % (kind, name, 'b')
            cases.append({'qa': None, 'q': q, 'qjs': q, 'A': [[r.choice(['k', 'm'])] for _ in range(r.randint(0, 2))], 'B': [['k']], 'tags': ['unknown_join_table'], 'part': 'unknown_join_table'})
    exp = [{'error': ['P', 0, None]} for _ in cases]
    for lang, got in (('js', lib.run_impl_js('engine', cases, shards=2)), ('py', lib.run_impl_py('engine', [dict(c, also_table=True) for c in cases], shards=2))):
        def rel_(c, e, g):
            g = g.get('table', g) if isinstance(g, dict) and 'table' in g and lang == 'py' else g
            return isinstance(g, dict) and g.get('error') is not None and list(g['error'])[:1] == e['error'][:1] and not g.get('rows')
        ctx.compare([dict(c, impl=lang) for c in cases], exp, got, theorem + ' ; error class of a static mistake (C14_static2_before_output): unknown JOIN table', rel=rel_,
                    describe=lambda c, e, g: 'rbql-%s: %r with a join table bound as b: expected a parsing error and no output, got %s' % (c['impl'], c['q'], json.dumps(g)[:300]),
                    corrupt=lambda e: {'error': ['IO', 0, None]})
        ctx.count(len(cases))
    ctx.stat('unknown_join_table_cases', 2 * len(cases))


def js_leg(ctx, theorem, focus, n):
    """the JavaScript leg of an engine property (C01-C07 anchor rbql-js/rbql.js too): language-neutral queries of the given
    shape through rbql-js against the same reference model"""
    g = NGen(ctx.rng)
    cases = [gen_case(ctx, g, focus) for _ in range(n)]
    if focus == 'order':
        cases += [gen_endless(ctx, g) for _ in range(max(20, n // 10))]
        cases += [gen_big_order(ctx, g) for _ in range(3 if ctx.tier == 'quick' else 24)]
    args, model, exp, got = evaluate(ctx, cases)
    ctx.compare([dict(c, impl='js') for c in cases], exp, got, theorem + ' (rbql-js leg)', rel=rel, describe=describe, shrink=shrink,
                corrupt=lambda e: {'events': [['W', ['CANARY'], True]], 'pulls': 0, 'error': None})
    ctx.count(len(cases))
    ctx.stat('js_leg_cases', len(cases))
    for c, e in zip(cases, exp):
        if e is not None and (e['error'] or any(x[0] == 'W' for x in e['events'])):
            ctx.nontriv(('js', c['qjs'], json.dumps(c['A']), json.dumps(c['B'])))
        if e is not None and c.get('hdrB') is not None and (c['qa'].get('join') or {}).get('kind') == 'left' and any(x[0] == 'W' for x in e['events']):
            ctx.stat('js_left_join_with_header_rows_written')
            if not c['B']:
                ctx.stat('js_left_join_header_only_table_rows_written')
    ctx.rule += '; JavaScript leg: %d language-neutral queries of shape %r through rbql-js (rbql.query with a pull-counting iterator) against the same reference model' % (len(cases), focus)


def evaluate(ctx, cases):
    args = [qmodel.enc_run(1, c['qa'], None, c.get('A_model') or c['A'], c['B'], None) for c in cases]
    model = lib.run_model(300, args)
    exp = []
    for m in model:
        d = qmodel.dec_outcome(m)
        exp.append(d)
    got = lib.run_impl_js('engine', cases, shards=12)
    return args, model, exp, got


def shrink(c, e, g):
    if 'endless' in c.get('tags', ()) or 'big' in c.get('tags', ()):
        return c, e, g
    cur = c
    budget = 30
    changed = True
    while changed and budget > 0:
        changed = False
        for name in ('A', 'B'):
            t = cur.get(name)
            if not t:
                continue
            for i in range(len(t)):
                budget -= 1
                if budget <= 0:
                    break
                cand = dict(cur)
                cand[name] = t[:i] + t[i + 1:]
                _a, _m, e1, g1 = evaluate(None, [cand])
                if e1[0] is not None and not rel(cand, e1[0], g1[0]):
                    cur, e, g = cand, e1[0], g1[0]
                    changed = True
                    break
            if changed:
                break
    return cur, e, g


def run(ctx):
    g = NGen(ctx.rng)
    n = 3000 if ctx.tier == 'quick' else 300000
    cases = [gen_case(ctx, g) for _ in range(n)] + [gen_endless(ctx, g) for _ in range(n // 15)]
    args, model, exp, got = evaluate(ctx, cases)
    ctx.compare(cases, exp, got, THEOREM, rel=rel, describe=describe, shrink=shrink,
                corrupt=lambda e: {'events': [['W', ['CANARY'], True]], 'pulls': 0, 'error': None})
    ctx.cross_check_vm(300, args, model, n=40)
    for c, e in zip(cases, exp):
        ctx.count()
        if e is None:
            ctx.stat('dropped_unmodelled')
            continue
        ctx.stat('kind_' + c['qa']['kind'][0] + ('_agg' if any(i[0] == 'agg' for i in (c['qa']['kind'][1] if c['qa']['kind'][0] == 'select' else [])) else ''))
        ctx.stat('error_' + e['error'][0] if e['error'] else 'ok')
        if 'unicode' in c.get('tags', ()):
            ctx.stat('order_by_non_ascii_cells')
        if e['error'] or any(x[0] == 'W' for x in e['events']):
            ctx.nontriv((c['qjs'], json.dumps(c['A']), json.dumps(c['B'])))
    for c, e, g_ in list(zip(cases, exp, got))[:3]:
        ctx.sample({'query_js': c['qjs'], 'A': c['A'], 'B': c['B'], 'model': e, 'rbql_js': g_})
    unknown_join_table_probe(ctx, THEOREM)
    # "... the same result table, OUTPUT HEADER and error class": select lists of every item kind x header / join / DISTINCT [COUNT] /
    # EXCEPT / UPDATE through rbql-js query_table against the header model (Header.v, C07)
    import importlib
    c07 = importlib.import_module('props.c07')
    hcases = [c07.gen_case(ctx.rng) for _ in range(800 if ctx.tier == 'quick' else 60000)]
    hargs, hraw, hexp = c07.model_header(hcases)
    hgot = lib.run_impl_js('c07', hcases, shards=8)
    ctx.compare([dict(c, impl='js', part='header') for c in hcases], hexp, hgot, THEOREM + ' ; header: C07_names / C07_width_select (Header.v)', rel=c07.rel,
                describe=lambda c, e, g: 'rbql-js header: query %r (input header %r): model %s, rbql-js %s' % (c['qjs'], c['hdrA'], json.dumps(e), json.dumps(g)),
                corrupt=lambda e: {'header': ['CANARY'], 'perr': False})
    ctx.count(len(hcases))
    ctx.stat('header_cases', len(hcases))
    ctx.rule = ('queries generated from the language-neutral vocabulary (field references, literals, string concatenation, NR/NF arithmetic, .length, comparisons with ===, &&/||/!, ?:, like, list literals) '
                'rendered into JS syntax over rectangular string tables: select/where (star forms, EXCEPT, UNNEST), order by + distinct/distinct count + top/limit, aggregates with GROUP BY, joins (5 spellings), update; '
                'compared with the reference model (flavour Js): result table by value (numbers numerically), error class and record number, input/join arrays deep-equal and identical afterwards, no aliasing; '
                'non-trivial = distinct case with output rows or an error')
    # the identity of records and keys (JSON text) and the order of strings (UTF-16 code units) as JavaScript has them: JsKey.v, Utf16.v
    importlib.import_module('props.jskey').run(ctx, JSKEY_THEOREM)
    # joins over ragged tables (a B / A record lacking a key field) - coverage gaps, notes/covgap.md
    importlib.import_module('props.cov_jsjoin').run_engine(ctx, THEOREM, 300 if ctx.tier == 'quick' else 30000)


def replay(ctx, case):
    if case.get('part') == 'jskey':
        import importlib
        return importlib.import_module('props.jskey').replay(ctx, {k: v for k, v in case.items() if k != 'part'}, JSKEY_THEOREM)
    if case.get('part') == 'header':
        import importlib
        c07 = importlib.import_module('props.c07')
        c = {k: v for k, v in case.items() if k not in ('impl', 'part')}
        _a, _r, exp = c07.model_header([c])
        ctx.count()
        ctx.compare([case], exp, lib.run_impl_js('c07', [c], shards=1), THEOREM, rel=c07.rel)
        return
    case = {k: v for k, v in case.items() if k != 'impl'}
    args, model, exp, got = evaluate(ctx, [case])
    ctx.count()
    ctx.compare([case], exp, got, THEOREM, rel=rel, describe=describe)
