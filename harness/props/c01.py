# C01 - SELECT/WHERE yields exactly the projected matching records, in input order.
# Model: Engine.v (main loop, eval_items, select_rows, unnest expansion); theorems: Props/C01.v.
# Correspondence: generated select/where queries (all item kinds, EXCEPT, UNNEST, with/without WHERE and JOIN)
# over ragged string/None tables through rbql.query (recording iterator/writer) and rbql.query_table.
import itertools
import importlib
import lib
import qgen
import enginecheck as ec

THEOREM = 'C01_select_where (Props/C01.v): rows of the model run = flat_map over the paired records of the projected rows'


def gen_case(ctx, g):
    r = ctx.rng
    A = g.table(max_rows=6, max_cols=4)
    na = max([len(x) for x in A] + [1])
    B = None
    nb = None
    join = None
    if r.random() < 0.35:
        B = g.table(max_rows=5, max_cols=3, cells=qgen.CELLS[:6], min_cols=1)
        nb = max([len(x) for x in B] + [1])
        # keys drawn from few values so that matches (also multiple) are frequent
        for row in A:
            if row and r.random() < 0.8:
                row[0] = r.choice(['a', 'b', '1'])
        for row in B:
            if row and r.random() < 0.9:
                row[0] = r.choice(['a', 'b', '1'])
        join = g.join({'na': 1, 'nb': 1}) if r.random() < 0.7 else g.join({'na': na, 'nb': nb})
    cx = {'na': na, 'nb': nb}
    if join is None and r.random() < 0.12:
        # any order, the same column possibly named twice (a2 and a[2]): EXCEPT removes a SET of columns
        idxs = [r.randint(0, na) for _ in range(r.randint(1, 3))]
        kind = ('except', idxs)
    else:
        kind = ('select', g.items(cx))
    qa = {'kind': kind, 'where': g.bool_expr(cx) if r.random() < 0.55 else None, 'join': join}
    if kind[0] == 'except':
        qa['distinct'] = r.choice([0, 0, 0, 1, 2])      # the writers on top of EXCEPT must receive a fresh list
    return ec.make_case(r, qa, A, B, also_table=True)


def exhaustive_cases(ctx, limit=None):
    """all tables with <= 2 rows x <= 2 cells over {"a","b",None} x select lists of <= 2 items from a vocabulary x WHEREs"""
    cells = ['a', 'b', None]
    rows = [[]] + [[c] for c in cells] + [[c, d] for c in cells for d in cells]
    tables = [[]] + [[x] for x in rows] + [[x, y] for x in rows for y in rows]
    vocab = [('expr', ('fld', 'a', 0)), ('expr', ('fld', 'a', 1)), ('expr', ('NR',)), ('expr', ('NF',)), ('star',), ('stara',),
             ('expr', ('lit', 'z')), ('expr', ('add', ('fld', 'a', 0), ('lit', 'x'))), ('unnest', ('list', [('fld', 'a', 0), ('lit', 'u')]), 'UNNEST'),
             ('unnest', ('list', []), 'UNNEST'), ('expr', ('eq', ('fld', 'a', 0), ('fld', 'a', 1))), ('expr', ('len', ('fld', 'a', 0)))]
    lists = [[v] for v in vocab] + [[v, u] for v in vocab for u in vocab]
    wheres = [None, ('eq', ('fld', 'a', 0), ('lit', 'a')), ('fld', 'a', 1), ('lt', ('NR',), ('lit', 2))]
    out = []
    combos = list(itertools.product(range(len(tables)), range(len(lists)), range(len(wheres))))
    if limit is not None and len(combos) > limit:
        combos = ctx.rng.sample(combos, limit)
    for ti, li, wi in combos:
        qa = {'kind': ('select', lists[li]), 'where': wheres[wi], 'join': None}
        out.append(ec.make_case(None, qa, [list(x) for x in tables[ti]], None))
    return out


def run(ctx):
    g = qgen.Gen(ctx.rng)
    n = 4000 if ctx.tier == 'quick' else 500000
    cases = [gen_case(ctx, g) for _ in range(n)]
    cases += exhaustive_cases(ctx, limit=3000 if ctx.tier == 'quick' else None)
    ctx.exhaustive = False
    ctx.rule = ('generated select/where queries (1-4 items over field/expression/literal/star/a.*/b.*/UNNEST/EXCEPT, WHERE 55%%, JOIN 35%% with all five spellings) '
                'over ragged tables of 0-6 rows x 0-4 string/None cells, plus the bounded enumeration (tables <= 2 rows x <= 2 cells over {a,b,None} x '
                'select lists <= 2 items from a 12-item vocabulary x 4 WHEREs; %s); non-trivial = distinct case producing at least one output row or an error'
                % ('sampled in the quick tier' if ctx.tier == 'quick' else 'complete'))
    exp, got = ec.evaluate(ctx, cases, THEOREM)
    for c, e, g_ in zip(cases[:3], exp[:3], got[:3]):
        ctx.sample({'query': c['q'], 'A': c['A'], 'B': c['B'], 'model': e, 'implementation': {k: g_.get(k) for k in ('events', 'pulls', 'error')} if isinstance(g_, dict) else g_})
    # rbql-js/rbql.js is an anchor of this property too: the JavaScript leg runs language-neutral queries of this shape through rbql-js
    importlib.import_module('props.c19').js_leg(ctx, THEOREM, 'select', 600 if ctx.tier == 'quick' else 60000)
    # "every input table": dataframes with typed columns (int64 / float64 / bool / str / object) through the pandas front-end, same model
    importlib.import_module('props.c01pd').run(ctx, THEOREM)


def replay(ctx, case):
    if case.get('part') == 'c01pd':
        return importlib.import_module('props.c01pd').replay(ctx, case, THEOREM)
    if case.get('impl') == 'js':
        return importlib.import_module('props.c19').replay(ctx, case)
    ec.replay(ctx, case, THEOREM)
