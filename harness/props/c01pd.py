# C01 helper: the pandas front-end leg ("for every input table ... aN / a[N] is r's N-th field").
# A dataframe is an input table whose cells are TYPED: int64, float64, bool, str and object columns. The same engine model
# (entry 300) gives the expectation - its value domain has None / Bool / Int / Str and exactly represented floats (AFlt, dyadic
# rationals here), with Python's numeric tower for == / < / + - so every field of every record must reach the query as the value
# (and the Python type) the frame holds at that position, whatever the mix of column dtypes (all-numeric frames of mixed int / float
# columns included: seeded change C01-13 read the rows through one common numpy dtype), and the projected rows must come out in
# input order with exactly these values.
# Two entry points: rbql.query over rbql_pandas.DataframeIterator (+ SingleDataframeRegistry) with a recording writer (exact
# Python values, pull count), and the public rbql.query_pandas_dataframe, whose output FRAME must equal the frame pandas builds
# from the model's rows (same values, same dtypes; pandas' dtype inference is applied to both sides, it is not modelled).
import json
import lib
import qgen
import qmodel
import enginecheck as ec
from fractions import Fraction

INTS = [1, 2, 3, 10, -4, 7, 0, 12]
BIGINTS = [9007199254740993, -9007199254740995, 4611686018427387905, 3, 1]      # beyond 2**53: not representable in binary64
FLOATS = [(1, 2), (3, 2), (2, 1), (-5, 4), (0, 1), (3, 1), (43, 4), (1, 1), (7, 8)]                    # dyadic: exact in binary64
STRS = ['a', 'b', 'ab', '', '1', '10', 'x1', 'é', 'a b']
KINDS = ['int', 'float', 'bool', 'obj', 'str', 'mixed']
NAMES = ['id', 'w', 'n', 'v', 'k2']


def gen_cell(r, kind, big=False):
    if kind == 'int':
        return r.choice(BIGINTS if big else INTS)
    if kind == 'float':
        return {'fr': list(r.choice(FLOATS))}
    if kind == 'bool':
        return r.random() < 0.5
    if kind == 'str':
        return r.choice(STRS)
    if kind == 'obj':
        return None if r.random() < 0.2 else r.choice(STRS)
    x = r.random()          # 'mixed': an object column holding values of several Python types
    return r.choice(STRS) if x < 0.4 else r.choice(INTS) if x < 0.7 else {'fr': list(r.choice(FLOATS))} if x < 0.8 else (r.random() < 0.5) if x < 0.9 else None


def gen_frame(r, max_rows=5, max_cols=4, min_cols=1, key=None, big=False, header=None):
    ncols = r.randint(min_cols, max_cols)
    if r.random() < 0.5:
        kinds = [r.choice(['int', 'float', 'int', 'float', 'bool']) for _ in range(ncols)]        # all-numeric frame
    else:
        kinds = [r.choice(KINDS) for _ in range(ncols)]
    if key is not None:
        kinds[0] = key
    rows = [[gen_cell(r, k, big) for k in kinds] for _ in range(r.randint(0, max_rows))]
    if header is None:
        header = r.random() < 0.6
    names = r.sample(NAMES, ncols) if header else None
    return rows, kinds, names


class PGen(qgen.Gen):
    """type-directed expressions over the typed columns (mostly well typed, so that most queries produce rows)"""
    def cols(self, ctx, kinds):
        out = [('fld', 'a', i) for i, k in enumerate(ctx['ka']) if k in kinds]
        if ctx.get('kb'):
            out += [('fld', 'b', i) for i, k in enumerate(ctx['kb']) if k in kinds]
        return out

    def num(self, ctx, d=2):
        r = self.rng
        # integers beyond 2**53 take no part in float arithmetic: int + float rounds the int first and then the sum, which is outside
        # the numeric domain of DESIGN 3.4 (the model's AFlt is the exact rational); they are projected, compared and added as ints
        c = self.cols(ctx, ('int', 'bool') if ctx.get('big') else ('int', 'float', 'bool'))
        x = r.random()
        if d <= 0 or x < 0.5 or not c:
            if c and r.random() < 0.75:
                return r.choice(c)
            return (r.choice(['NR', 'NF']),) if r.random() < 0.5 else ('lit', r.randint(-3, 12))
        if x < 0.85:
            return ('add', self.num(ctx, d - 1), self.num(ctx, d - 1))
        return ('cond', self.boolean(ctx, d - 1), self.num(ctx, d - 1), self.num(ctx, d - 1))

    def text(self, ctx, d=1):
        r = self.rng
        c = self.cols(ctx, ('str',))
        if c and r.random() < 0.6:
            e = r.choice(c)
        else:
            e = ('lit', r.choice(STRS))
        if d > 0 and r.random() < 0.3:
            return ('add', e, self.text(ctx, d - 1))
        return e

    def boolean(self, ctx, d=2):
        r = self.rng
        x = r.random()
        if d <= 0 or x < 0.45:
            return (r.choice(['eq', 'ne', 'lt', 'le']), self.num(ctx, 1), self.num(ctx, 1))
        if x < 0.6:
            anyc = self.cols(ctx, KINDS)
            return (r.choice(['eq', 'ne']), r.choice(anyc), ('lit', r.choice([1, 2, 0, 'a', '1', None, True])))
        if x < 0.7:
            return (r.choice(['eq', 'lt']), self.text(ctx), self.text(ctx))
        if x < 0.85:
            return (r.choice(['and', 'or']), self.boolean(ctx, d - 1), self.boolean(ctx, d - 1))
        if x < 0.92:
            return ('not', self.boolean(ctx, d - 1))
        return r.choice(self.cols(ctx, KINDS))         # truthiness of a cell (0 / 0.0 / False / '' / None are falsy)

    def item(self, ctx):
        r = self.rng
        x = r.random()
        anyc = self.cols(ctx, KINDS)
        if x < 0.4:
            return ('expr', r.choice(anyc))                       # the field itself
        if x < 0.5:
            return ('expr', (r.choice(['NR', 'NF']),))
        if x < 0.7:
            return ('expr', self.num(ctx))
        if x < 0.78:
            return ('expr', self.text(ctx))
        if x < 0.86:
            return ('expr', self.boolean(ctx))
        if x < 0.9 or ctx.get('big'):
            intc = self.cols(ctx, ('int', 'bool'))
            return ('expr', ('int', r.choice(intc))) if intc else ('expr', ('lit', 'c'))
        # anything of the general vocabulary (ill-typed ones included: the error must name the record)
        return ('expr', self.any_expr({'na': len(ctx['ka']), 'nb': len(ctx['kb']) if ctx.get('kb') else None}, 1))


def gen_case(ctx, g):
    r = ctx.rng
    big = r.random() < 0.3
    A, ka, hdrA = gen_frame(r, big=big)
    B = kb = hdrB = join = None
    if r.random() < 0.25:
        keyk = r.choice(['int', 'int', 'float', 'str', 'bool'])
        B, kb, hdrB = gen_frame(r, max_rows=4, max_cols=3, key=keyk, header=hdrA is not None)      # (header presence must agree: "Inconsistent modes" otherwise)
        # join keys from few values, so that matches (also int 1 with float 1.0 and True) are frequent
        pool = {'int': [1, 2, 0], 'float': [{'fr': [1, 1]}, {'fr': [2, 1]}, {'fr': [1, 2]}], 'str': ['a', 'b'], 'bool': [True, False]}
        ka[0] = r.choice(['int', 'float', 'bool']) if keyk != 'str' else 'str'
        for row in A:
            row[0] = r.choice(pool[ka[0]])
        for row in B:
            row[0] = r.choice(pool[keyk])
        join = g.join({'na': 1, 'nb': 1}, nkeys=1)
        join['lhs'], join['rhs'] = [0], [0]
        if hdrB is not None:
            join['hw'] = len(hdrB)
    cx = {'ka': ka, 'kb': kb, 'big': big}
    x = r.random()
    if join is None and x < 0.1:
        kind = ('except', [r.randint(0, len(ka) - 1) for _ in range(r.randint(1, 2))])
    else:
        items = []
        for _ in range(r.randint(1, 4)):
            y = r.random()
            if y < 0.12:
                items.append(('star',))
            elif y < 0.18:
                items.append(('stara',))
            elif y < 0.24 and join is not None:
                items.append(('starb',))
            else:
                items.append(g.item(cx))
        # LEFT JOIN with a zero-row join frame that has column names is IN (was kept out as finding S1-F1 = D27 until fix c71773a): the
        # null record has one None per join column name, so * / b.* fill every column the output header lists and DataframeWriter.finish
        # can build the frame; the model gets the join header's width (Join.widen)
        if r.random() < 0.1:
            # UNNEST over the fields of the record: one output record per field value, typed as in the frame
            items.insert(r.randint(0, len(items)), ('unnest', ('list', [r.choice(g.cols(cx, KINDS)) for _ in range(r.randint(0, 3))]), 'UNNEST'))
        kind = ('select', items)
    qa = {'kind': kind, 'where': g.boolean(cx) if r.random() < 0.5 else None, 'join': join}
    rend = qmodel.Renderer('py', r)
    return {'part': 'c01pd', 'q': rend.query(qa), 'qa': qa, 'A': A, 'kindsA': ka, 'hdrA': hdrA, 'B': B, 'kindsB': kb, 'hdrB': hdrB}


def model_table(t):
    return None if t is None else [[Fraction(c['fr'][0], c['fr'][1]) if isinstance(c, dict) else c for c in row] for row in t]


def expected(cases):
    args = [qmodel.enc_run(0, c['qa'], None, model_table(c['A']), model_table(c['B']), None) for c in cases]
    model = lib.run_model(300, args)
    return args, model, [ec.canon_model(m) for m in model]


def with_ref(c, e):
    """the driver builds the reference frame from the model's rows (written rows, as canonical values)"""
    c = dict(c)
    c['ref_rows'] = None if e is None or e['error'] is not None else [x[1] for x in e['events'] if x[0] == 'W' and x[2]]
    return c


def rel(c, e, g):
    if e is None:
        return True
    if not ec.engine_rel(c, e, g):                 # rbql.query over DataframeIterator: written rows (typed), error, pull count, frames unchanged
        return False
    f = g.get('frame')
    if not isinstance(f, dict):
        return False
    if e['error'] is not None:
        return f.get('error') == e['error']
    return f.get('error') is None and f.get('equal') is True


def describe(c, e, g):
    return ('pandas front-end: query %r over a frame with columns %s %s rows %s%s: model %s, implementation %s'
            % (c['q'], c['kindsA'], c['hdrA'], json.dumps(c['A']), '' if c['B'] is None else ' JOIN frame %s %s' % (c['kindsB'], json.dumps(c['B'])),
               json.dumps(e)[:400], json.dumps(g)[:600]))


def evaluate(cases):
    args, model, exp = expected(cases)
    got = lib.run_impl_py('c01pd', [with_ref(c, e) for c, e in zip(cases, exp)])
    return args, model, exp, got


def run(ctx, theorem):
    g = PGen(ctx.rng)
    n = 500 if ctx.tier == 'quick' else 40000
    cases = [gen_case(ctx, g) for _ in range(n)]
    args, model, exp, got = evaluate(cases)
    ctx.compare(cases, exp, got, theorem + ' (pandas front-end: typed cells)', rel=rel, describe=describe,
                corrupt=lambda e: {'events': [['F'], ['F']], 'pulls': -1, 'error': ['CANARY', 0, None]} if e is None else dict(e, error=['CANARY', 0, None]))
    ctx.cross_check_vm(300, args, model, n=10)
    ctx.rule += ('; plus the pandas front-end: %d select/where queries (typed expressions, star forms, EXCEPT, UNNEST, JOIN frame 25%%) over dataframes of 0-5 rows x 1-4 columns of '
                 'dtypes int64 / float64 / bool / str / object (half of them all-numeric, integers beyond 2**53 in 30%%), through rbql.query over DataframeIterator and '
                 'query_pandas_dataframe' % n)
    for c, e in zip(cases, exp):
        ctx.count(2)
        if e is None:
            ctx.stat('pandas_dropped_unmodelled')
            continue
        ctx.stat('pandas_error' if e['error'] else 'pandas_ok')
        kinds = set(c['kindsA'])
        if kinds <= {'int', 'float', 'bool'}:
            ctx.stat('pandas_all_numeric_frame')
            if 'int' in kinds and 'float' in kinds:
                ctx.stat('pandas_mixed_int_float_frame')
        if e['error'] or any(x[0] == 'W' for x in e['events']):
            ctx.nontriv(('c01pd', c['q'], json.dumps(c['A']), json.dumps(c['B'])))


def replay(ctx, case, theorem):
    case = {k: v for k, v in case.items() if k != 'ref_rows'}
    _a, _m, exp, got = evaluate([case])
    ctx.count(2)
    ctx.compare([case], exp, got, theorem, rel=rel, describe=describe)
