# C12, byte-level clause: the text-layer MODEL (TextLayer.v) against the real CPython objects on every run.
# Theorems (Props/C12.v): C12_newline_layer, C12_text_layer_valid / _invalid, C12_records_bytes_closed - about the model.
# What this module ties, with the model as the oracle:
#  (A) io.IncrementalNewlineDecoder(codecs.getincrementaldecoder(enc)(errors='strict'), translate=True), call by call (output of
#      every decode call, pendingcr and the pending bytes of the inner decoder after it, the call that raises): ALL 2^(n-1)
#      partitions of EVERY byte string up to length L over the alphabet {CR LF " , a C3 A9 E2 82 AC F0 9F 98 80 EF BB BF FF}
#      and over the bound-changing bytes {ED A0 9F BF 80 E0 F0 90 F4 8F a CR} (entry 231), plus random longer strings with
#      random partitions, empty reads included (entry 230);
#  (B) io.IncrementalNewlineDecoder(None, translate=True) over text pieces with arbitrary final flags (entry 234: nl_trace);
#  (C) io.TextIOWrapper(raw, encoding=enc) over a raw stream with prescribed short reads, directly and behind a BufferedReader,
#      read whole and by read(k): the text must be nl_norm (decode bytes) of the model (entry 233) on every partition, a
#      UnicodeDecodeError exactly when the model's decoder rejects the bytes;
#  (D) rbql_csv.CSVRecordIterator over such raw streams: every partition gives the records of the spec on the MODEL's decoded
#      text (entry 202 on the text of entry 233), an IO-handling error when the model rejects the bytes; sampled (partition,
#      chunk size) pairs against run_py_bytes itself (entry 232);
#  (E) the same reader over io.BytesIO / a real file, where TextIOWrapper cuts the bytes itself at multiples of 8192: multi-byte
#      characters, CR LF, a BOM, bad sequences placed across that boundary at every offset.
import itertools
import json
import os
import subprocess
import threading

import lib

ALPHA_B = [13, 10, 34, 44, 97, 0xC3, 0xA9, 0xE2, 0x82, 0xAC, 0xF0, 0x9F, 0x98, 0x80, 0xEF, 0xBB, 0xBF, 0xFF]
SMALL_B = [13, 10, 97, 0xC3, 0xA9, 0xE2, 0x82, 0xAC]
# the bytes at which the utf-8 state machine's bounds change (E0 A0, ED 9F|A0, F0 90, F4 8F|90): overlong forms, surrogates, > U+10FFFF
BOUNDS_B = [0xED, 0xA0, 0x9F, 0xBF, 0x80, 0xE0, 0xF0, 0x90, 0xF4, 0x8F, 97, 13]
ENC = {'utf-8': 1, 'latin-1': 2}
TH_TL = ('C12_text_layer_valid / C12_text_layer_invalid / C12_text_layer_trace (Props/C12.v): the text pieces of every partition concatenate '
         'to nl_norm (decode bytes), undecodable bytes raise on every partition [model text_layer_trace vs io.IncrementalNewlineDecoder over the codec]')
TH_NL = 'C12_newline_layer (Props/C12.v): concat (outputs) = nl_norm (concat inputs) [model nl_trace vs io.IncrementalNewlineDecoder(None, translate=True)]'
TH_TW = 'C12_text_layer_valid / _invalid (Props/C12.v) [io.TextIOWrapper over short raw reads delivers nl_norm (decode bytes) / raises UnicodeDecodeError]'
TH_RB = 'C12_records_bytes_closed (Props/C12.v): run_py_bytes = records_of_text (decode bytes) | IO-handling error, for every partition and chunk size'


def to_json(line):
    """sexp text -> nested lists (C speed)"""
    return json.loads(line.replace('(', '[').replace(')', ']').replace(' ', ','))


class Lazy:
    """raw model lines, parsed on demand (for the vm_compute cross-check of a sample)"""
    def __init__(self, lines):
        self.lines = lines

    def __len__(self):
        return len(self.lines)

    def __getitem__(self, i):
        return to_json(self.lines[i])


def run_model_raw(code, args, shards=lib.NCPU):
    """lib.run_model without the parsing: one raw result line per case"""
    if not args:
        return []
    binp = os.path.join(lib.BUILD, 'ocaml', 'modelrun')
    parts = lib._shards(args, shards)
    procs = [subprocess.Popen(['bash', '-c', 'ulimit -s unlimited; exec ' + binp], stdin=subprocess.PIPE, stdout=subprocess.PIPE, text=True)
             for _ in parts]
    outs = [None] * len(parts)

    def feed(i):
        outs[i], _ = procs[i].communicate(''.join('%d %s\n' % (code, a) for a in parts[i]))
    ths = [threading.Thread(target=feed, args=(i,)) for i in range(len(parts))]
    for t in ths:
        t.start()
    for t in ths:
        t.join()
    res = []
    for i, part in enumerate(parts):
        if procs[i].returncode != 0:
            raise lib.CheckFailure('model binary failed (rc=%s) on shard %d' % (procs[i].returncode, i))
        lines = outs[i].split('\n')
        if lines and lines[-1] == '':
            lines.pop()
        if len(lines) != len(part):
            raise lib.CheckFailure('model binary returned %d lines for %d cases' % (len(lines), len(part)))
        res.extend(lines)
    return res


def bytes_sx(data):
    return '(' + ' '.join(map(str, data)) + ')'


def pieces_sx(pieces):
    return '(' + ' '.join(bytes_sx(p) for p in pieces) + ')'


def show_trace(t):
    if not isinstance(t, list) or len(t) != 2:
        return repr(t)
    return {'raised': not t[0], 'calls': [{'out': lib.dec_str(o[0]), 'pendingcr': bool(o[1]), 'needed': o[2]} for o in t[1]]}


def safe_json(x):
    try:
        return to_json(x) if isinstance(x, str) else x
    except Exception:
        return x


# ------------------------------------------------------------------ (A) decoder objects

def describe_dec(c, e, g):
    e, g = safe_json(e), safe_json(g)
    if c['kind'] == 'dec_one':
        return ('text layer model and io.IncrementalNewlineDecoder(%s decoder, translate=True) differ on raw reads %r: model=%r real objects=%r'
                % (c['enc'], c['pieces'], show_trace(e), show_trace(g)))
    return 'text layer model and the real decoder objects differ on some partition of bytes %r (%s): model=%r real=%r' % (c['data'], c['enc'], e, g)


def shrink_dec(c, e, g):
    if c['kind'] != 'dec_all':
        return None
    e, g = to_json(e), to_json(g)
    for pe, pg in zip(e, g):
        if pe != pg:
            pieces, pos = [], 0
            for n in pe[0]:
                pieces.append(c['data'][pos:pos + n])
                pos += n
            return ({'part': 'tl', 'kind': 'dec_one', 'enc': c['enc'], 'pieces': pieces}, lib.enc(pe[1]), lib.enc(pg[1]) if pg[0] == pe[0] else lib.enc(pg))
    return None


def batches(it, n):
    cur = []
    for x in it:
        cur.append(x)
        if len(cur) >= n:
            yield cur
            cur = []
    if cur:
        yield cur


def dec_all_strings(ctx):
    """(encoding, byte string) of the exhaustive part: every string up to the first length over ALPHA_B, the longer ones over SMALL_B"""
    if ctx.tier == 'quick':
        plan = {'utf-8': (4, 4), 'latin-1': (3, 4)}
    else:
        plan = {'utf-8': (5, 6), 'latin-1': (4, 6)}
    for e, (full, top) in plan.items():
        for n in range(0, full + 1):
            for t in itertools.product(ALPHA_B, repeat=n):
                yield e, t
        for n in range(full + 1, top + 1):
            for t in itertools.product(SMALL_B, repeat=n):
                yield e, t
    base = set(ALPHA_B)
    for n in range(1, (4 if ctx.tier == 'quick' else 5) + 1):
        for t in itertools.product(BOUNDS_B, repeat=n):
            if not set(t) <= base:
                yield 'utf-8', t


VALID_TOK = [b'a', b'"', b',', b'\n', b'\r', b'\r\n', b'\xc3\xa9', b'\xe2\x82\xac', b'\xf0\x9f\x98\x80', b'\xef\xbb\xbf', b'\xc2\x80',
             b'\xed\x9f\xbf', b'\xee\x80\x80', b'\xf4\x8f\xbf\xbf', b'\xe0\xa0\x80', b'\xf0\x90\x80\x80', b'\r\r', b'\x00', b'\x7f']
BAD_TOK = [b'\x80', b'\xff', b'\xc0\xaf', b'\xc1\xbf', b'\xed\xa0\x80', b'\xf4\x90\x80\x80', b'\xe0\x9f\xbf', b'\xf0\x8f\xbf\xbf', b'\xf5\x80\x80\x80',
           b'\xc3', b'\xe2\x82', b'\xf0\x9f\x98', b'\xc3\x28', b'\xe2\x28\xa1', b'\xf0\x9f\x28\x80', b'\xfe']


def random_bytes(rng):
    """a longer byte string: mostly valid sequences, sometimes one bad or truncated sequence, sometimes uniform bytes"""
    k = rng.random()
    if k < 0.1:
        return bytes(rng.randrange(256) for _ in range(rng.randint(0, 12)))
    toks = [rng.choice(VALID_TOK) for _ in range(rng.randint(0, 14))]
    if k < 0.45 and toks:
        toks.insert(rng.randrange(len(toks) + 1), rng.choice(BAD_TOK))
    elif k < 0.55:
        toks.append(rng.choice([b'\xc3', b'\xe2\x82', b'\xf0\x9f', b'\xf0\x9f\x98', b'\xef\xbb']))
    return b''.join(toks)


def random_partition(rng, data, allow_empty=True):
    pieces, cur = [], []
    p = rng.choice([0.15, 0.4, 0.8])
    for b in data:
        cur.append(b)
        if rng.random() < p:
            pieces.append(cur)
            cur = []
            while allow_empty and rng.random() < 0.12:
                pieces.append([])
    if cur:
        pieces.append(cur)
    if allow_empty and rng.random() < 0.1:
        pieces.insert(0, [])
    return pieces


def part_a(ctx):
    total_parts = 0
    nstr = 0
    first = True
    for batch in batches(dec_all_strings(ctx), 120000):
        cases = [{'part': 'tl', 'kind': 'dec_all', 'enc': e, 'data': list(t)} for e, t in batch]
        args = ['(%d %s)' % (ENC[c['enc']], bytes_sx(c['data'])) for c in cases]
        model = run_model_raw(231, args)
        got = lib.run_impl_py('c12tl', cases)
        ctx.compare(cases, model, got, TH_TL, describe=describe_dec, shrink=shrink_dec)
        if first:
            ctx.cross_check_vm(231, args, Lazy(model), n=60)
            first = False
        for c, m in zip(cases, model):
            n = len(c['data'])
            k = 1 << max(0, n - 1)
            total_parts += k
            nstr += 1
            if '(0 (' in m or '(0 ())' in m:
                ctx.stat('tl_strings_rejected_' + c['enc'])
            if n >= 2:
                ctx.nontriv(('tl', c['enc'], tuple(c['data'])))
        ctx.stat('tl_byte_strings_all_partitions', len(cases))
    ctx.count(total_parts)
    ctx.stat('tl_decoder_runs_exhaustive', total_parts)
    # random longer strings, random partitions with empty reads
    rng = ctx.rng
    ones = []
    for _ in range(6000 if ctx.tier == 'quick' else 150000):
        data = random_bytes(rng)
        for e in ('utf-8', 'latin-1') if rng.random() < 0.3 else ('utf-8',):
            ones.append({'part': 'tl', 'kind': 'dec_one', 'enc': e, 'pieces': random_partition(rng, list(data))})
    args = ['(%d %s)' % (ENC[c['enc']], pieces_sx(c['pieces'])) for c in ones]
    model = run_model_raw(230, args)
    got = lib.run_impl_py('c12tl', ones)
    ctx.compare(ones, model, got, TH_TL, describe=describe_dec)
    ctx.cross_check_vm(230, args, Lazy(model), n=60)
    ctx.count(len(ones))
    for c, m in zip(ones, model):
        ctx.stat('tl_random_' + ('raised' if m.startswith('(0 ') else 'decoded'))
        if any(len(p) == 0 for p in c['pieces']):
            ctx.stat('tl_random_with_empty_reads')
    ctx.sample_safe(lambda: {'text_layer_raw_reads': ones[0]['pieces'], 'encoding': ones[0]['enc'], 'model_trace': show_trace(to_json(model[0])),
                             'real_objects_trace': show_trace(to_json(got[0]))})


# ------------------------------------------------------------------ (B) the newline layer alone

def part_b(ctx):
    rng = ctx.rng
    cases = []
    top = 5 if ctx.tier == 'quick' else 7
    chars = ['\r', '\n', 'a']
    for n in range(0, top + 1):
        for t in itertools.product(chars, repeat=n):
            t = ''.join(t)
            if n > 5 and rng.random() < 0.6:
                continue
            for mask in range(1 << max(0, n - 1)):
                pieces, start = [], 0
                for i in range(n - 1):
                    if mask >> i & 1:
                        pieces.append(t[start:i + 1])
                        start = i + 1
                if n:
                    pieces.append(t[start:])
                # a separate flush call / final=True on the last piece / an empty non-final call after every piece
                cases.append({'part': 'tl', 'kind': 'nl_calls', 'pend': False, 'calls': [[p, False] for p in pieces] + [['', True]]})
                if pieces:
                    cases.append({'part': 'tl', 'kind': 'nl_calls', 'pend': False, 'calls': [[p, False] for p in pieces[:-1]] + [[pieces[-1], True]]})
                    if mask % 4 == 1:
                        cases.append({'part': 'tl', 'kind': 'nl_calls', 'pend': False,
                                      'calls': [x for p in pieces for x in ([p, False], ['', False])] + [['', True]]})
    pool = ['\r', '\n', '\r\n', 'a', '€', '\U0001f600', '\r\r', '\n\r', '']
    for _ in range(3000 if ctx.tier == 'quick' else 60000):
        calls = [[''.join(rng.choice(pool) for _ in range(rng.randint(0, 3))), rng.random() < 0.15] for _ in range(rng.randint(0, 7))]
        cases.append({'part': 'tl', 'kind': 'nl_calls', 'pend': rng.random() < 0.2, 'calls': calls})
    args = [lib.enc([bool(c['pend']), [[p, bool(f)] for p, f in c['calls']]]) for c in cases]
    model = run_model_raw(234, args)
    got = lib.run_impl_py('c12tl', cases)
    ctx.compare(cases, model, got, TH_NL,
                describe=lambda c, e, g: 'newline layer model and io.IncrementalNewlineDecoder(None, translate=True) differ: pendingcr=%r calls=%r: '
                                         'model (output, pendingcr)=%r real=%r' % (c['pend'], c['calls'], safe_json(e), safe_json(g)))
    ctx.cross_check_vm(234, args, Lazy(model), n=40)
    ctx.count(len(cases))
    ctx.stat('nl_layer_call_sequences', len(cases))


# ------------------------------------------------------------------ (C) io.TextIOWrapper

def rel_single(c, e, g):
    return isinstance(g, list) and len(g) == 1 and isinstance(g[0], list) and g[0][0] == e


def tiow_strings(ctx):
    if ctx.tier == 'quick':
        plan = {'utf-8': [(ALPHA_B, 3), (SMALL_B, 4)], 'latin-1': [(SMALL_B, 4)]}
    else:
        plan = {'utf-8': [(ALPHA_B, 4), (SMALL_B, 5)], 'latin-1': [(ALPHA_B, 3), (SMALL_B, 5)]}
    seen = set()
    for e, specs in plan.items():
        for alpha, top in specs:
            for n in range(0, top + 1):
                for t in itertools.product(alpha, repeat=n):
                    if (e, t) not in seen:
                        seen.add((e, t))
                        yield e, t
    for n in range(1, (3 if ctx.tier == 'quick' else 4) + 1):
        for t in itertools.product(BOUNDS_B, repeat=n):
            if ('utf-8', t) not in seen:
                seen.add(('utf-8', t))
                yield 'utf-8', t
    rng = ctx.rng
    for _ in range(1500 if ctx.tier == 'quick' else 20000):
        data = random_bytes(rng)
        if len(data) <= (9 if ctx.tier == 'quick' else 11):
            yield rng.choice(['utf-8', 'utf-8', 'latin-1']), tuple(data)


def decode_model(pairs):
    """entry 233 for (encoding, bytes) pairs: (decoded text | None, nl_norm of it | None)"""
    args = ['(%d %s)' % (ENC[e], bytes_sx(t)) for e, t in pairs]
    out = []
    raw = run_model_raw(233, args)
    for line in raw:
        m = to_json(line)
        if m == 4040404:
            raise lib.CheckFailure('model entry 233 rejected its argument')
        out.append((lib.dec_str(m[0][0]) if m[0] else None, lib.dec_str(m[1][0]) if m[1] else None))
    return out, args, raw


def part_c(ctx):
    pairs = list(tiow_strings(ctx))
    dec, args, raw = decode_model(pairs)
    cases = [{'part': 'tl', 'kind': 'tiow_all', 'enc': e, 'data': list(t), 'reads': [None, 1, 2] if len(t) <= 4 else [None, 1, 3]} for e, t in pairs]
    exp = [['ok', d[1]] if d[1] is not None else ['err', 'UnicodeDecodeError'] for d in dec]
    order = sorted(range(len(cases)), key=lambda i: -len(cases[i]['data']))
    perm = [i for k in range(lib.NCPU) for i in order[k::lib.NCPU]]
    got_p = lib.run_impl_py('c12tl', [cases[i] for i in perm])
    got = [None] * len(cases)
    for i, g in zip(perm, got_p):
        got[i] = g
    ctx.compare(cases, exp, got, TH_TW, rel=rel_single,
                describe=lambda c, e, g: 'io.TextIOWrapper(encoding=%s) over short raw reads of bytes %r: the model says %r, the distinct outcomes over all '
                                         'partitions / read sizes are %r' % (c['enc'], c['data'], e, g))
    ctx.cross_check_vm(233, args, Lazy(raw), n=40)
    runs = sum((1 << max(0, len(c['data']) - 1)) * 2 * len(c['reads']) for c in cases)
    ctx.count(runs)
    ctx.stat('textiowrapper_runs', runs)
    ctx.stat('textiowrapper_strings_rejected', sum(1 for e in exp if e[0] == 'err'))


# ------------------------------------------------------------------ (D) CSVRecordIterator over bytes

def dec_bresult(m, c12):
    if m == [2]:
        return ['ioerr']
    return c12.dec_result(m)


def rel_bres(c, e, g):
    if e == ['ioerr']:
        return isinstance(g, list) and len(g) >= 2 and g[0] == 'err' and g[1] == 'RbqlIOHandlingError'
    return e == g


def reader_strings(ctx):
    rng = ctx.rng
    seen = set()

    def emit(e, t):
        if (e, t) not in seen:
            seen.add((e, t))
            return True
        return False
    full = 3 if ctx.tier == 'quick' else 4
    for e in ('utf-8', 'latin-1'):
        for n in range(0, full + 1):
            for t in itertools.product(ALPHA_B, repeat=n):
                if emit(e, t):
                    yield e, t
        for n in range(full + 1, (4 if ctx.tier == 'quick' else 6) + 1):
            for t in itertools.product(SMALL_B + [34], repeat=n):
                if rng.random() < (0.25 if ctx.tier == 'quick' else 0.5 if n == 5 else 0.08) and emit(e, t):
                    yield e, t
        for t in itertools.product(ALPHA_B, repeat=1 if ctx.tier == 'quick' else 2):     # behind a BOM
            t = (0xEF, 0xBB, 0xBF) + t
            if emit(e, t):
                yield e, t
    for _ in range(2500 if ctx.tier == 'quick' else 40000):
        data = tuple(random_bytes(rng))
        e = rng.choice(['utf-8', 'utf-8', 'latin-1'])
        if len(data) <= (9 if ctx.tier == 'quick' else 11) and emit(e, data):
            yield e, data


def part_d(ctx, c12):
    rng = ctx.rng
    cfgs = c12.configs('quick', rng)
    pairs = list(reader_strings(ctx))
    dec, _, _ = decode_model(pairs)
    valid, invalid = [], []
    for (e, t), d in zip(pairs, dec):
        c = dict(rng.choice(cfgs))
        if rng.random() < 0.3:
            c['comment'] = rng.choice(['a', '"', 'é', 'Ã'])
        c.update(part='tl', kind='bytes_all', data=list(t), encoding=e, text=d[0], cs=rng.choice([None, 1, 2, 3]))
        (valid if d[0] is not None else invalid).append(c)
    exp, v_args, v_model, have, tabs = c12.expected_for(valid, ctx)
    order = sorted(range(len(valid)), key=lambda i: -len(valid[i]['data']))
    perm = [i for k in range(lib.NCPU) for i in order[k::lib.NCPU]]
    got_p = lib.run_impl_py('c12', [valid[i] for i in perm])
    got = [None] * len(valid)
    for i, g in zip(perm, got_p):
        got[i] = g
    if have:
        ctx.compare(valid, exp, got, TH_RB + ' [spec on the model-decoded text vs CSVRecordIterator over io.TextIOWrapper, all partitions]',
                    rel=c12.rel_all, describe=c12.describe, shrink=c12.shrink_all)
    else:
        ctx.notes.append('csv_utils.smart_split not available: byte-level reader runs compared for partition-invariance only')
        ctx.compare(valid, [None] * len(valid), got, TH_RB, rel=lambda c, e, g: isinstance(g, list) and len(g) == 1 and e is None,
                    describe=lambda c, e, g: 'reader outcome depends on the byte partition: bytes=%r outcomes=%r' % (c['data'], g))
    i_got = lib.run_impl_py('c12', invalid)
    ctx.compare(invalid, [None] * len(invalid), i_got, TH_RB + ' [undecodable bytes: IO-handling error on every partition]',
                rel=lambda c, e, g: e is None and isinstance(g, list) and len(g) >= 1 and all(
                    isinstance(o, list) and o[0][0] == 'err' and o[0][1] == 'RbqlIOHandlingError' for o in g),
                describe=lambda c, e, g: 'bytes %r are rejected by the model decoder (%s) but not answered with an IO-handling error on every partition: %r'
                                         % (c['data'], c['encoding'], g))
    runs = sum(1 << max(0, len(c['data']) - 1) for c in valid + invalid)
    ctx.count(runs)
    ctx.stat('bytes_reader_runs_all_partitions', runs)
    ctx.stat('bytes_reader_strings_valid', len(valid))
    ctx.stat('bytes_reader_strings_undecodable', len(invalid))
    for c, e in zip(valid, exp):
        if e[0] == 'ok' and e[3][0]:
            ctx.stat('bytes_reader_bom_warning')
        if len(c['data']) >= 2:
            ctx.nontriv(('rb', c['encoding'], tuple(c['data']), c['policy'], c['comment'], c['header']))
    # the composed model itself (entry 232) on concrete (partition, chunk size) pairs
    ones, one_args = [], []
    pool = [(c, tabs[i]) for i, c in enumerate(valid)] + [(c, []) for c in invalid]
    for _ in range(3000 if ctx.tier == 'quick' else 60000):
        c, tab = rng.choice(pool)
        if c12.needs_table(c) and (not have or c['text'] is None):
            c = dict(c, policy='simple', delim=',')
            tab = []
        pieces = random_partition(rng, c['data'], allow_empty=False)
        cs = rng.choice([1, 2, 3, 1024])
        c1 = {k: c[k] for k in ('policy', 'delim', 'comment', 'header', 'modifier', 'encoding')}
        c1.update(part='tl', kind='bytes_one', pieces=pieces, data=c['data'], text=c['text'], cs=cs, table=[[l, f, w] for (l, (f, w)) in tab])
        ones.append(c1)
        one_args.append(lib.enc([c12.cfg_sx(c1, c1['encoding']), c12.split_sx(c1, tab), cs, ENC[c1['encoding']], pieces]))
    m_one = lib.run_model(232, one_args)
    e_one = [dec_bresult(m, c12) for m in m_one]
    g_one = lib.run_impl_py('c12', ones)
    ctx.compare(ones, e_one, g_one, TH_RB + ' [model run_py_bytes on concrete raw reads]', rel=rel_bres,
                describe=lambda c, e, g: 'run_py_bytes and CSVRecordIterator differ: raw reads=%r encoding=%s chunk_size=%r policy=%r comment=%r header=%r: model=%r '
                                         'implementation=%r' % (c['pieces'], c['encoding'], c['cs'], c['policy'], c['comment'], c['header'], e, g))
    ctx.cross_check_vm(232, one_args, m_one, n=60)
    ctx.count(len(ones))
    ctx.stat('run_py_bytes_runs', len(ones))
    ctx.stat('run_py_bytes_ioerror', sum(1 for e in e_one if e == ['ioerr']))


# ------------------------------------------------------------------ (E) TextIOWrapper's own cuts: the 8192-byte chunk boundary

CHUNK = 8192
SPECIALS = [b'\xc3\xa9', b'\xe2\x82\xac', b'\xf0\x9f\x98\x80', b'\r\n', b'\r\r\n', b'\xef\xbb\xbf', b'"\r\n"', b'\r', b'\xf0\x9f\x28', b'\xed\xa0\x80', b'\xc3']


def part_e(ctx, c12):
    """no prescribed reads here: io.BytesIO / a real file, so the wrapper cuts the bytes itself at multiples of its chunk size; a
    multi-byte character, a CR LF pair, a BOM, a bad sequence is placed across that boundary at every offset"""
    rng = ctx.rng
    cfgs = c12.configs('quick', rng)
    raw = []
    for sp in SPECIALS:
        for k in range(0, len(sp) + 1):
            if ctx.tier == 'quick' and len(sp) > 2 and k in (0, len(sp)) and rng.random() < 0.5:
                continue
            head = (b'\xef\xbb\xbf' if rng.random() < 0.3 else b'') + b'ab,"c d"\n' * rng.randint(0, 3)
            n_fill = CHUNK * rng.choice([1, 1, 2]) - k - len(head)
            fill = (b'xy,z\n' * (n_fill // 5 + 1))[:n_fill]
            tail = rng.choice([b'', b',t\nu,v', b'\n', b'\r\nw'])
            raw.append(head + fill + sp + tail)
    pairs = [(rng.choice(['utf-8', 'utf-8', 'latin-1']), tuple(d)) for d in raw]
    dec, _, _ = decode_model(pairs)
    valid, invalid = [], []
    for (e, t), d in zip(pairs, dec):
        c = dict(rng.choice(cfgs))
        c.update(part='tl', kind='bytes_stream', via=rng.choice(['bytesio', 'file']), data=list(t), encoding=e, text=d[0], cs=rng.choice([None, 1, 7, 1024]))
        (valid if d[0] is not None else invalid).append(c)
    exp, _, _, have, _ = c12.expected_for(valid, ctx)
    got = lib.run_impl_py('c12tl', valid)
    if have:
        ctx.compare(valid, exp, got, TH_RB + ' [BytesIO / file: the wrapper cuts at its own 8192-byte chunk boundary]',
                    describe=lambda c, e, g: 'CSVRecordIterator over %s of %d bytes (%s, policy=%r comment=%r header=%r chunk_size=%r; bytes around the 8192 boundary: %r) '
                                             'differs from the spec on the model-decoded text: spec tail=%r implementation tail=%r' % (
                                                 c['via'], len(c['data']), c['encoding'], c['policy'], c['comment'], c['header'], c['cs'], c['data'][CHUNK - 6:CHUNK + 6],
                                                 (e[1][-2:] if e and e[0] == 'ok' else e), (g[1][-2:] if isinstance(g, list) and g and g[0] == 'ok' else g)))
    i_got = lib.run_impl_py('c12tl', invalid)
    ctx.compare(invalid, [None] * len(invalid), i_got, TH_RB + ' [undecodable bytes across the 8192-byte chunk boundary]',
                rel=lambda c, e, g: e is None and isinstance(g, list) and len(g) >= 2 and g[0] == 'err' and g[1] == 'RbqlIOHandlingError',
                describe=lambda c, e, g: 'undecodable bytes around offset 8192 (%r, %s) not answered with an IO-handling error: %r' % (
                    c['data'][CHUNK - 6:CHUNK + 6], c['encoding'], g))
    ctx.count(len(valid) + len(invalid))
    ctx.stat('chunk_boundary_runs', len(valid) + len(invalid))
    ctx.stat('chunk_boundary_runs_undecodable', len(invalid))


def run(ctx, c12):
    import time
    t0 = time.time()
    for name, f in (('A', lambda: part_a(ctx)), ('B', lambda: part_b(ctx)), ('C', lambda: part_c(ctx)), ('D', lambda: part_d(ctx, c12)), ('E', lambda: part_e(ctx, c12))):
        f()
        t1 = time.time()
        ctx.stat('tl_seconds_part_' + name, round(t1 - t0, 1))
        t0 = t1


def replay(ctx, case, c12):
    kind = case.get('kind')
    if kind in ('dec_all', 'dec_one'):
        code, arg = (231, '(%d %s)' % (ENC[case['enc']], bytes_sx(case['data']))) if kind == 'dec_all' else (
            230, '(%d %s)' % (ENC[case['enc']], pieces_sx(case['pieces'])))
        model = run_model_raw(code, [arg])
        got = lib.run_impl_py('c12tl', [case])
        ctx.count(1)
        ctx.compare([case], model, got, TH_TL, describe=describe_dec, shrink=shrink_dec)
        return
    if kind == 'nl_calls':
        model = run_model_raw(234, [lib.enc([bool(case['pend']), [[p, bool(f)] for p, f in case['calls']]])])
        got = lib.run_impl_py('c12tl', [case])
        ctx.count(1)
        ctx.compare([case], model, got, TH_NL)
        return
    if kind == 'tiow_all':
        dec, _, _ = decode_model([(case['enc'], tuple(case['data']))])
        exp = [['ok', dec[0][1]] if dec[0][1] is not None else ['err', 'UnicodeDecodeError']]
        got = lib.run_impl_py('c12tl', [case])
        ctx.count(1)
        ctx.compare([case], exp, got, TH_TW, rel=rel_single)
        return
    if kind == 'bytes_stream':
        dec, _, _ = decode_model([(case['encoding'], tuple(case['data']))])
        got = lib.run_impl_py('c12tl', [case])
        ctx.count(1)
        if dec[0][0] is None:
            ctx.compare([case], [None], got, TH_RB, rel=lambda c, e, g: e is None and isinstance(g, list) and len(g) >= 2 and g[0] == 'err' and g[1] == 'RbqlIOHandlingError')
        else:
            exp, _, _, _, _ = c12.expected_for([dict(case, text=dec[0][0])], ctx)
            ctx.compare([case], exp, got, TH_RB)
        return
    if kind in ('bytes_all', 'bytes_one'):
        dec, _, _ = decode_model([(case['encoding'], tuple(case['data']))])
        text = dec[0][0]
        got = lib.run_impl_py('c12', [case])
        ctx.count(1)
        if text is None:
            if kind == 'bytes_all':
                ctx.compare([case], [None], got, TH_RB, rel=lambda c, e, g: e is None and isinstance(g, list) and all(
                    o[0][0] == 'err' and o[0][1] == 'RbqlIOHandlingError' for o in g))
            else:
                ctx.compare([case], [['ioerr']], got, TH_RB, rel=rel_bres)
            return
        case = dict(case, text=text)
        if kind == 'bytes_all':
            exp, _, _, _, _ = c12.expected_for([case], ctx)
            ctx.compare([case], exp, got, TH_RB, rel=c12.rel_all, describe=c12.describe, shrink=c12.shrink_all)
        else:
            tab = [(l, (f, bool(w))) for l, f, w in case.get('table', [])] or c12.single_table(case, text)
            a = lib.enc([c12.cfg_sx(case, case['encoding']), c12.split_sx(case, tab), case['cs'] or 1024, ENC[case['encoding']], case['pieces']])
            e = [dec_bresult(lib.run_model(232, [a])[0], c12)]
            ctx.compare([case], e, got, TH_RB, rel=rel_bres)
        return
    raise lib.CheckFailure('unknown text-layer replay case kind %r' % kind)
