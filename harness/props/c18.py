# C18 - Python and JavaScript implementations agree on the CSV dialect and headers.
# Both ports are tied to the SAME models (Csv.v splitter / quoting with the proved py = js lemmas, CsvWriter.v, the reader
# models, Header.v) and, in addition, compared DIRECTLY with each other on every case:
#   A  lines x delimiters x policies          : split fields + warning           (py == js == model)
#   B  tables x policies x delimiters         : written text + lossy flags       (py == js == model)
#   C  cross read                             : text written by one port read by the other == model read-back
#   D  the same file through both readers     : records, warnings, error         (py == js; model tie in C12 / C20)
#   E  language-neutral select lists          : output header                    (py == js == model)
import importlib
import itertools
import json
import lib

THEOREM = 'C18_quote_agree / C18_write_agree / C18_cross_roundtrip / C18_readers_agree / C18_header_agree (Props/C18.v)'
c10 = importlib.import_module('props.c10')
c11 = importlib.import_module('props.c11')
c07 = importlib.import_module('props.c07')
c12 = importlib.import_module('props.c12')


def part_split(ctx):
    cases = [c for c in c11.enum_cases(ctx.tier) if all(m[0] == 'direct' or True for m in c['modes'])]
    if ctx.tier == 'quick':
        cases = ctx.rng.sample(cases, min(len(cases), 140))
    cases += c11.random_cases(ctx)[:300 if ctx.tier == 'quick' else 5000]
    exp_py, got_py, args, res, spans = c11.evaluate(cases, 'py')
    # (astral characters included: the splitters only look at quotes, delimiters and spaces)
    exp_js, got_js, _a, _r, _s = c11.evaluate(cases, 'js')
    tag = [dict(c, part='split') for c in cases]
    ctx.compare(tag, exp_py, got_py, THEOREM, rel=c11.rel, describe=lambda c, e, g: 'split (py vs model): ' + c11.first_diff(c, e, g))
    ctx.compare(tag, exp_js, got_js, THEOREM, rel=c11.rel, describe=lambda c, e, g: 'split (js vs model): ' + c11.first_diff(c, e, g))
    def same_split(c, e, g):
        """per line, per mode: equal wherever both ports ran that path ('absent' = the JS driver has no iterator path for one line)"""
        if not isinstance(e, list) or not isinstance(g, list) or len(e) != len(g):
            return False
        for er, gr in zip(e, g):
            if not isinstance(er, list) or not isinstance(gr, list) or len(er) != len(gr):
                return False
            for x, y in zip(er, gr):
                if x == 'absent' or y == 'absent':
                    continue
                if x != y:
                    return False
        return True
    ctx.compare(tag, got_py, got_js, THEOREM, rel=same_split, describe=lambda c, e, g: 'split: Python and JavaScript differ: ' + c11.first_diff(c, e, g),
                corrupt=lambda e: ['CANARY', e])
    ctx.cross_check_vm(100, args, res, n=20)
    n = 0
    for c, (lines, keys, st, k) in zip(cases, spans):
        n += len(lines) * len(c['modes'])
        ctx.nontriv(('split', json.dumps(c.get('enum') or c.get('lines'))[:200], c['dlm']))
    ctx.count(n)
    ctx.stat('split_lines_x_modes', n)


def common_tables(ctx):
    """tables both writers accept: string / None cells, utf-8, the delimiters both ports support"""
    cases = [c for c in c10.exhaustive_tables(ctx, 'py') + c10.random_tables(ctx, 'py') if c['enc'] == 'utf-8']
    if ctx.tier == 'quick' and len(cases) > 6000:
        cases = ctx.rng.sample(cases, 6000)

    def plain(x):
        return x is None or isinstance(x, str)
    cases = [c for c in cases if all(plain(x) for r in c['rows'] for x in r) and (c['header'] is None or all(plain(x) for x in c['header']))]
    return cases


def part_write_and_cross(ctx):
    cases = common_tables(ctx)
    py_cases = [dict(c, impl='py', qcsv=False) for c in cases]
    js_cases = [dict(c, impl='js', qcsv=False) for c in cases]
    args, model, exp_py, got_py = c10.evaluate(ctx, 'py', py_cases, False)
    _a, _m, exp_js, got_js = c10.evaluate(ctx, 'js', js_cases, False)
    ctx.compare(py_cases, exp_py, got_py, THEOREM, rel=c10.rel, describe=c10.describe, corrupt=c10.corrupt)
    ctx.compare(js_cases, exp_js, got_js, THEOREM, rel=c10.rel, describe=c10.describe, corrupt=c10.corrupt)

    def same(c, e, g):
        if not isinstance(e, dict) or not isinstance(g, dict):
            return False
        # the writers' separator-in-output flag is computed differently in the two ports (Python: count after join; JS: indexOf on the
        # concatenated fields) and differs on empty records and on multi-character delimiters overlapping field boundaries; it is not part
        # of C18's statement and each port's flag is tied to its own model in C10 (observations O14, O15 in DESIGN 11.1)
        keys = ['text', 'none', 'err', 'readback']
        return all(e.get(k) == g.get(k) for k in keys)
    ctx.compare([dict(c, part='write') for c in cases], got_py, got_js, THEOREM, rel=same,
                describe=lambda c, e, g: 'write: Python and JavaScript differ on %s dlm=%r rows=%s: py %s js %s' % (c['pol'], c['dlm'], json.dumps(c['rows']), json.dumps(e)[:200], json.dumps(g)[:200]),
                corrupt=lambda e: dict(e, text=(e.get('text') or '') + 'CANARY') if isinstance(e, dict) else 'CANARY')
    ctx.cross_check_vm(120, args, model, n=20)
    # cross read: what one port wrote, the other reads (only where the model says the table round-trips)
    groups = {}
    for c, e, gp, gj in zip(cases, exp_py, got_py, got_js):
        if e['readback'] is None or e['err'] is not None or not isinstance(gp, dict) or not isinstance(gj, dict):
            continue
        groups.setdefault((c['pol'], c['dlm'], c['enc']), []).append((c, e, gp['text'], gj['text']))
    rcases_js, rcases_py, expected = [], [], []
    for (pol, dlm, enc), items in groups.items():
        for k in range(0, len(items), 300):
            part = items[k:k + 300]
            rcases_js.append({'pol': pol, 'dlm': dlm, 'enc': enc, 'texts': [x[2] for x in part], 'part': 'cross py->js'})
            rcases_py.append({'pol': pol, 'dlm': dlm, 'enc': enc, 'texts': [x[3] for x in part], 'part': 'cross js->py'})
            expected.append([{'records': x[1]['readback'][0], 'warnings': x[1]['readback'][1], 'error': None} for x in part])
    got_js_reads = lib.run_impl_js('c18', rcases_js)
    got_py_reads = lib.run_impl_py('c18', rcases_py)

    def rel_read(c, e, g):
        if not isinstance(g, list) or len(g) != len(e):
            return False
        return all(isinstance(y, dict) and x['records'] == y.get('records') and x['warnings'] == y.get('warnings') and y.get('error') is None for x, y in zip(e, g))

    def desc_read(c, e, g):
        for t, x, y in zip(c['texts'], e, g if isinstance(g, list) else []):
            if not (isinstance(y, dict) and x['records'] == y.get('records') and x['warnings'] == y.get('warnings') and y.get('error') is None):
                return '%s: text %r (%s, dlm %r): expected read-back %s, got %s' % (c['part'], t, c['pol'], c['dlm'], json.dumps(x), json.dumps(y))
        return '%s: %s' % (c['part'], json.dumps(g)[:300])
    ctx.compare(rcases_js, expected, got_js_reads, THEOREM, rel=rel_read, describe=desc_read, corrupt=lambda e: e + [{'records': None}])
    ctx.compare(rcases_py, expected, got_py_reads, THEOREM, rel=rel_read, describe=desc_read, corrupt=lambda e: e + [{'records': None}])
    ctx.count(len(cases) * 2 + sum(len(c['texts']) for c in rcases_js) * 2)
    ctx.stat('write_tables', len(cases))
    ctx.stat('cross_reads', sum(len(c['texts']) for c in rcases_js) * 2)
    for c in cases[:20000]:
        ctx.nontriv(('write', c['pol'], c['dlm'], json.dumps(c['rows'])))
    ex = rcases_js[0]
    ctx.sample_safe(lambda: {'part': 'cross py->js', 'policy': ex['pol'], 'delimiter': ex['dlm'], 'text_written_by_python': ex['texts'][0], 'read_by_js': got_js_reads[0][0]})


POLCODE = {'simple': 0, 'quoted': 1, 'quoted_rfc': 2, 'whitespace': 3, 'monocolumn': 4}


def model_outcome(d):
    """c12.dec_result form -> the form of the implementation drivers (harness/impl/c18.*)"""
    if d[0] == 'ok':
        kinds = (['bom'] if d[3][0] else []) + (['quoting'] if d[3][1] is not None else []) + (['num_fields'] if d[3][2] is not None else [])
        return {'records': d[1], 'header': d[2], 'warnings': sorted(kinds), 'fields': d[3][2], 'error': None}
    if d[0] == 'err':
        return {'records': None, 'header': None, 'warnings': None, 'fields': None, 'error': 'IO'}
    return {'model': d}


def part_readers(ctx):
    """the same file through both readers (policies x comment prefix x header): identical records / warnings / error"""
    alpha = ['a', '"', ',', ' ', '\n', '\r', '#']
    texts = []
    maxlen = 5 if ctx.tier == 'quick' else 6
    for n in range(0, maxlen + 1):
        for t in itertools.product(alpha, repeat=n):
            texts.append(''.join(t))
    if ctx.tier == 'quick':
        texts = ctx.rng.sample(texts, 6000)
    r = ctx.rng
    for _ in range(2000 if ctx.tier == 'quick' else 40000):
        texts.append(''.join(r.choice(['a', 'b', '"', ',', ' ', '\n', '\r', '\r\n', '#', 'é', '世', '﻿', ';']) for _ in range(r.randint(0, 14))))
    texts.append('﻿a,b\n1,2\n')
    cases = []
    for pol, dlm in (('quoted', ','), ('quoted_rfc', ','), ('simple', ','), ('whitespace', ' '), ('monocolumn', '')):
        for cp in (None, '#'):
            for hh in (False, True):
                for k in range(0, len(texts), 500):
                    cases.append({'pol': pol, 'dlm': dlm, 'enc': 'utf-8', 'comment_prefix': cp, 'has_header': hh, 'texts': texts[k:k + 500], 'part': 'readers'})
    if ctx.tier == 'quick':
        cases = ctx.rng.sample(cases, min(len(cases), 120))
    gp = lib.run_impl_py('c18', cases)
    gj = lib.run_impl_js('c18', cases)
    gjb = lib.run_impl_js('c18', [dict(c, bulk=True) for c in cases])       # rbql-js bulk path (the file read in one piece)

    def rel(c, e, g):
        return isinstance(e, list) and isinstance(g, list) and len(e) == len(g) and all(x == y for x, y in zip(e, g))

    def desc(c, e, g):
        for t, x, y in zip(c['texts'], e if isinstance(e, list) else [], g if isinstance(g, list) else []):
            if x != y:
                return 'readers differ on text %r (%s, comment prefix %r, header %s): python %s, javascript %s' % (t, c['pol'], c['comment_prefix'], c['has_header'], json.dumps(x), json.dumps(y))
        return 'readers: %s vs %s' % (json.dumps(e)[:200], json.dumps(g)[:200])
    ctx.compare(cases, gp, gj, THEOREM, rel=rel, describe=desc, corrupt=lambda e: (e + ['CANARY']) if isinstance(e, list) else 'CANARY')
    ctx.compare([dict(c, impl='js-bulk', bulk=True) for c in cases], gp, gjb, THEOREM, rel=rel,
                describe=lambda c, e, g: 'rbql-js BULK path: ' + desc(c, e, g), corrupt=lambda e: (e + ['CANARY']) if isinstance(e, list) else 'CANARY')
    # the model: the reader specification records_of_text (= both stream readers, C18_readers_agree) over the real splitter model
    flat = [(ci, t) for ci, c in enumerate(cases) for t in c['texts']]
    args = [lib.enc([c12.cfg_sx({'policy': cases[ci]['pol'], 'comment': cases[ci]['comment_prefix'], 'header': cases[ci]['has_header']}, 'utf-8'),
                     POLCODE[cases[ci]['pol']], cases[ci]['dlm'], t]) for ci, t in flat]
    mres = lib.run_model(250, args)
    exp = [[] for _ in cases]
    for (ci, t), m in zip(flat, mres):
        exp[ci].append(model_outcome(c12.dec_result(m)))
    ctx.compare([dict(c, impl='py') for c in cases], exp, gp, THEOREM, rel=rel,
                describe=lambda c, e, g: 'python reader vs reader spec over smart_split: ' + desc(c, e, g))
    ctx.compare([dict(c, impl='js') for c in cases], exp, gj, THEOREM, rel=rel,
                describe=lambda c, e, g: 'javascript reader vs reader spec over smart_split: ' + desc(c, e, g))
    ctx.cross_check_vm(250, args, mres, n=40)
    n = sum(len(c['texts']) for c in cases)
    ctx.count(n * 2)
    ctx.stat('reader_files_x_cfg', n)
    for c in cases:
        for t in c['texts'][:50]:
            if t:
                ctx.nontriv(('read', c['pol'], c['comment_prefix'], c['has_header'], t))
    k = next((i for i, c in enumerate(cases) if len(c['texts']) > 1 and isinstance(gp[i], list) and isinstance(gj[i], list)), None)
    if k is not None:
        ctx.sample_safe(lambda: {'part': 'readers', 'policy': cases[k]['pol'], 'text': cases[k]['texts'][1], 'python': gp[k][1], 'javascript': gj[k][1]})


KNOWN_HEADER_PROBES = [('F3-paren', 'select (a1)', 'select (a1)'), ('F3-spaced-subscript', 'select a[ "x" ]', 'select a[ "x" ]'),
                       ('F3-paren-attr', 'select (a.x), ((a2))', 'select (a.x), ((a2))')]


def part_headers(ctx):
    r = ctx.rng
    cases = [c07.gen_case(r) for _ in range(1500 if ctx.tier == 'quick' else 30000)]
    args, raw, exp = c07.model_header(cases)
    gp = lib.run_impl_py('c07', cases)
    gj = lib.run_impl_js('c07', cases, shards=8)
    ctx.compare([dict(c, impl='py') for c in cases], exp, gp, THEOREM, rel=c07.rel, corrupt=lambda e: {'header': ['CANARY'], 'perr': False})
    ctx.compare([dict(c, impl='js') for c in cases], exp, gj, THEOREM, rel=c07.rel, corrupt=lambda e: {'header': ['CANARY'], 'perr': False})

    def same(c, e, g):
        if not isinstance(e, dict) or not isinstance(g, dict):
            return False
        if (e.get('error') is None) != (g.get('error') is None):
            return False
        return e.get('header') == g.get('header') and (e.get('error') is not None or e.get('widths') == g.get('widths'))
    ctx.compare([dict(c, part='header') for c in cases], gp, gj, THEOREM, rel=same,
                describe=lambda c, e, g: 'header: Python %r gives %s, JavaScript %r gives %s' % (c['q'], json.dumps(e), c['qjs'], json.dumps(g)),
                corrupt=lambda e: dict(e, header=['CANARY']) if isinstance(e, dict) else 'CANARY')
    ctx.count(len(cases) * 2)
    ctx.stat('header_select_lists', len(cases))
    # select lists on which the two derivations are KNOWN to differ (rbql-py reads the syntax tree, rbql-js the text of the item):
    # recorded findings (known_findings.json F3), each identified by its exact input; reported as KNOWN-FINDING while it reproduces
    probes = []
    for fid, q, qjs in KNOWN_HEADER_PROBES:
        probes.append({'q': q, 'qjs': qjs, 'A': [['1', '2'], ['3', '4']], 'B': None, 'hdrA': ['x', 'y'], 'hdrB': None, 'fid': fid, 'part': 'header_known'})
    pp = lib.run_impl_py('c07', probes, shards=1)
    pj = lib.run_impl_js('c07', probes, shards=1)
    ctx.compare(probes, pp, pj, THEOREM, rel=same, classify=lambda c, e, g: c['fid'],
                describe=lambda c, e, g: 'header: Python %r gives %s, JavaScript %r gives %s' % (c['q'], json.dumps(e), c['qjs'], json.dumps(g)),
                corrupt=lambda e: dict(e, header=['CANARY']) if isinstance(e, dict) else 'CANARY')
    ctx.count(len(probes) * 2)
    for c, e in zip(cases, exp):
        if e['header']:
            ctx.nontriv(('header', c['q']))


def run(ctx):
    from props import fngen
    gen = fngen.start(ctx, 'vars')      # second tie (task gen2): js_string_escape_column_name of rbql.js translated on this run => gen_js_C18_header_unquote_escaped
    part_split(ctx)
    part_write_and_cross(ctx)
    part_readers(ctx)
    part_headers(ctx)
    fngen.finish(ctx, gen, search_more=lambda langs: extended_headers(ctx))
    ctx.rule = ('A: enumerated lines over the class alphabet {quote, delimiter, space, other} x delimiters (single, multi-character, space) x policies and modes + random Unicode lines: split(py) == split(js) == model; '
                'B: enumerated and random tables of string/None cells x 5 policies x delimiters x 3 line separators (utf-8): written text and lossy flags py == js == model; '
                'C: every representable table written by one port is read by the OTHER port: records and warnings == model read-back; '
                'D: all texts up to length %d over {a, quote, comma, space, LF, CR, #} (quick: sampled) + random Unicode texts x 5 policies x comment prefix x header flag through both readers: '
                'records, header, warnings, error identical; E: generated language-neutral select lists x header/no header x join: header py == js == model. '
                'non-trivial = distinct (line|table|text|select list, configuration)') % (5 if ctx.tier == 'quick' else 6)


def extended_headers(ctx):
    """a generated obligation broke and the run found no failing input: the header part again with the thorough tier's generator"""
    saved = ctx.tier
    try:
        ctx.tier = 'thorough'
        part_headers(ctx)
    finally:
        ctx.tier = saved


def replay(ctx, case):
    if 'fngen_obligation' in case:
        from props import fngen
        return fngen.replay(ctx, case)
    part = case.get('part', '')
    ctx.count()
    if part.startswith('cross') or part == 'readers':
        gp = lib.run_impl_py('c18', [case], shards=1)
        gj = lib.run_impl_js('c18', [case], shards=1)
        ctx.compare([case], gp, gj, THEOREM)
    elif part == 'split':
        e, gp, _a, _r, _s = c11.evaluate([case], 'py')
        _e, gj, _a, _r, _s = c11.evaluate([case], 'js')
        ctx.compare([case], e, gp, THEOREM, rel=c11.rel)
        ctx.compare([case], e, gj, THEOREM, rel=c11.rel)
    elif part == 'header' or 'hq' in case:
        a, raw, exp = c07.model_header([case])
        ctx.compare([case], exp, lib.run_impl_py('c07', [case]), THEOREM, rel=c07.rel)
        ctx.compare([case], exp, lib.run_impl_js('c07', [case]), THEOREM, rel=c07.rel)
    else:
        c = dict(case)
        for impl in ('py', 'js'):
            c['impl'] = impl
            a, m, exp, got = c10.evaluate(ctx, impl, [c], False)
            ctx.compare([c], exp, got, THEOREM, rel=c10.rel, describe=c10.describe)
