# resolve_join_variables (JoinVars.v, entry 530) vs both ports - helper of props/c04.py and props/c08.py, not a property.
# Variable maps and ON pairs over a small vocabulary (field variables of both tables in three spellings, the record-number
# names, unknown names, names known to both tables), every pair also in swapped order.
import json
import lib

A_VARS = ['a1', 'a2', 'a[1]', 'a.x', 'a["x y"]', 'NR', 'aNR', 'a.NR']
B_VARS = ['b1', 'b2', 'b[2]', 'b.y', "b['k']", 'bNR', 'b.NR']
ODD = ['c1', 'a9', 'b9', 'x', 'NR ', 'nr', 'a.NR ', 'b.nr', '']


def gen_cases(ctx):
    r = ctx.rng
    n = 400 if ctx.tier == 'quick' else 40000
    out = []
    for _ in range(n):
        im = [[v, i] for i, v in enumerate(r.sample(A_VARS[:5], r.randint(0, 5)))]
        jm = [[v, i] for i, v in enumerate(r.sample(B_VARS[:5], r.randint(0, 5)))]
        if r.random() < 0.15:
            both = r.choice(A_VARS[:5] + B_VARS[:5] + ['NR', 'bNR'])          # a name known to both tables
            im.append([both, 7]); jm.append([both, 8])
        pairs = []
        for _k in range(r.randint(1, 3)):
            x = r.choice([v for v, _i in im] + A_VARS[5:] + (ODD if r.random() < 0.2 else []) or A_VARS)
            y = r.choice([v for v, _i in jm] + B_VARS[5:] + (ODD if r.random() < 0.2 else []) or B_VARS)
            if r.random() < 0.1:
                y = r.choice(A_VARS)                                            # both on the input side
            pairs.append([y, x] if r.random() < 0.5 else [x, y])
        out.append({'im': im, 'jm': jm, 'pairs': pairs, 'part': 'joinvars'})
    return out


def expected(cases):
    args = [lib.enc([[[k, lib.Raw(str(i))] for k, i in c['im']], [[k, lib.Raw(str(i))] for k, i in c['jm']], c['pairs']]) for c in cases]
    res = lib.run_model(530, args)
    exp = []
    for m in res:
        if m == 4040404:
            exp.append({'model': 'ERR'})
        elif m[0] == 0:
            exp.append({'lhs': [(x[0] if x else None) for x in m[1]], 'rhs': [(x[0] if x else None) for x in m[2]]})
        else:
            exp.append({'error': ['RbqlParsingError', m[1], lib.dec_str(m[2])]})
    return args, res, exp


def describe(c, e, g):
    return 'resolve_join_variables (%s) input map %s join map %s pairs %s: model %s, implementation %s' % (
        c.get('impl'), json.dumps(c['im']), json.dumps(c['jm']), json.dumps(c['pairs']), json.dumps(e), json.dumps(g))


def run(ctx, theorem):
    cases = gen_cases(ctx)
    args, res, exp = expected(cases)
    gp = lib.run_impl_py('joinvars', cases, shards=4)
    gj = lib.run_impl_js('joinvars', cases, shards=4)
    ctx.compare([dict(c, impl='py') for c in cases], exp, gp, theorem, describe=describe)
    ctx.compare([dict(c, impl='js') for c in cases], exp, gj, theorem, describe=describe)
    ctx.cross_check_vm(530, args, res, n=30)
    ctx.count(2 * len(cases))
    ctx.stat('resolve_join_variables_cases', len(cases))
    for c, e in zip(cases, exp):
        ctx.stat('joinvars_' + ('error_%d' % e['error'][1] if 'error' in e else 'ok'))
        ctx.nontriv(('joinvars', json.dumps(c['im']), json.dumps(c['jm']), json.dumps(c['pairs'])))


def replay(ctx, case, theorem):
    impl = case.get('impl', 'py')
    c = {k: v for k, v in case.items() if k != 'impl'}
    _a, _r, exp = expected([c])
    g = (lib.run_impl_py if impl == 'py' else lib.run_impl_js)('joinvars', [c], shards=1)
    ctx.count()
    ctx.compare([dict(c, impl=impl)], exp, g, theorem, describe=describe)
