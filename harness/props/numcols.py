# Known finding F5 (helper of props/c08.py, not a property of its own): rbql-js binds a[N] and a["N"] to the SAME property of the
# record object, so when a column is NAMED like a number (header ['c', 'd', '1']) the positional spelling a[1] reads that column while
# a1 reads the first one - the two spellings of C08 differ, and a[N] is not "the N-th field" of C01.  rbql-py keeps int and str keys
# apart.  (Found by the variable-spelling model: C08_var_index_js_numeric_column_refuted, VarSpelling_Proofs.v.)
# Oracle: a[N] and aN give the same cell.  Reported as KNOWN-FINDING while it reproduces (known_findings.json).
import json
import lib

PROBES = [('F5-js-numeral-column-name', 'select a[1], a1', [['x', 'y', 'z']], ['c', 'd', '1'])]


def ok(g):
    if not isinstance(g, dict) or g.get('error') is not None or not g.get('rows'):
        return False
    return all(len(r) == 2 and r[0] == r[1] for r in g['rows'])


def run(ctx, theorem):
    cases = [{'part': 'numcols', 'fid': fid, 'queries': [{'q': q, 'A': A, 'B': None, 'hdrA': hdr, 'hdrB': None}]} for fid, q, A, hdr in PROBES]
    got = lib.run_impl_js('c16js', cases, shards=1)
    res = [g['results'][0] if isinstance(g, dict) and g.get('results') else g for g in got]
    ctx.compare(cases, [{'bracket_and_plain_spelling_agree': True} for _ in cases], res, theorem,
                rel=lambda c, e, g: e == {'bracket_and_plain_spelling_agree': ok(g)}, classify=lambda c, e, g: c['fid'],
                describe=lambda c, e, g: 'rbql-js: %r over %s with column names %s: a[N] and aN differ: %s' % (
                    c['queries'][0]['q'], json.dumps(c['queries'][0]['A']), c['queries'][0]['hdrA'], json.dumps(g)[:300]))
    ctx.count(len(cases))


def replay(ctx, case, theorem):
    run(ctx, theorem)
