# c16js.py - the JavaScript leg of C16's HISTORY clause: "the result of a query is the same whether it runs alone in a fresh interpreter
# [or] after any sequence of other (possibly failing) queries".  rbql-js keeps its query context in a module-level variable, so it cannot
# run two queries at once (observation O3 / O23; the thread clause is anchored in rbql-py) - but one query AFTER another must not see
# anything of the earlier one.  Each history runs through one freshly loaded copy of rbql-js; the expectation of every query in it is its
# own result as a history of length one (fresh module state).  Called from c16.run.
import json
import lib

THEOREM = 'C16_history (Props/C16.v): each query of a history yields its solo result (rbql-js leg: solo = the same query through a freshly loaded rbql-js)'


# failing kinds: the ERROR of a query is part of its outcome ("after any sequence of other, possibly failing, queries").  The syn_* kinds are
# queries the JavaScript engine rejects while COMPILING the generated code, written the way an SQL user would write them (FROM, LIKE, HAVING,
# and / or): the reported error is then built from the engine's message AND from a scan of the query text, i.e. by code that runs only for
# failing queries and only after every earlier step succeeded - state kept by that scan (a position, a cache, a counter) shows only when a
# LATER query fails the same way, with its keyword at the same or a smaller offset.
FAILING = ('attr_bad', 'attr_bad_late', 'attr_bad_b', 'dict_bad', 'runtime_error', 'syntax_error', 'parse_error', 'bad_field',
           'syn_from', 'syn_like', 'syn_having', 'syn_and', 'syn_or', 'syn_like_from', 'syn_and_or', 'syn_from_named', 'syn_plain')


def scenario(r, only=None):
    n = r.randint(1, 4)
    hdr = r.choice([['name', 'score'], ['score', 'name'], ['name', 'score', 'country']])
    A = [[r.choice(['a', 'b', 'k']) if h != 'score' else str(r.randint(1, 9)) for h in hdr] for _ in range(n)]
    hdrB = r.choice([['name', 'country'], ['country', 'name']])
    B = [[(key if h == 'name' else 'w%d' % r.randint(0, 9)) for h in hdrB] for key in r.sample(['a', 'b', 'k'], r.randint(1, 3))]
    pad = ' ' * r.choice([0, 0, 1, 3, 7])          # the position of a variable inside the text differs from query to query
    pool = [
        ('attr', 'select %sa.name, a.score where a.score != "5"' % pad, True, False),
        ('attr_where', 'select %sNR, a.name where a.score > "3"' % pad, True, False),
        ('attr_bad', 'select %sa.name, a.nosuch' % pad, True, False),                      # fails: unknown column
        ('attr_bad_late', 'select a.name, a.score, a.name + "x" where a.name != "q" && a.nosuchcolumn == "1"', True, False),
        ('attr_bad_b', 'select a.name, b.nosuch join B on a.name == b.name', True, True),
        ('dict', 'select %sa["name"], a[\'score\']' % pad, True, False),
        ('dict_bad', 'select a["name"], a["nosuch"] + 1', True, False),
        ('basic', 'select %sa1, NR where a1 != "k"' % pad, False, False),
        ('array', 'select %sa[2], a[1], a1' % pad, False, False),
        ('dc', 'select distinct count a.name, a.score', True, False),
        ('dc_again', 'select distinct count a.name, a.score', True, False),
        ('same_list', 'select a.name, a.score', True, False),
        ('agg', 'select a.name, SUM(a.score), COUNT(*) group by a.name', True, False),
        ('avg_native', 'select a1, AVG(a2), MAX(a2) group by a1', False, False),
        ('avg_string', 'select a1, AVG(a2), MAX(a2) group by a1', False, False),
        ('order', 'select a1 order by a1 desc', False, False),
        ('distinct', 'select distinct a1', False, False),
        ('join', 'select a.name, b.country join B on a.name == b.name', True, True),
        ('join_basic', 'select a1, b2 left join B on a1 == b1', False, True),
        ('update', 'update set a2 = a1 + "!" where a1 != "b"', False, False),
        ('update_named', 'update set a.score = a.name', True, False),
        ('like', 'select like(a1, "a%"), like(a2, "_")', False, False),
        ('unnest', 'select a1, UNNEST([a2, "u"]) limit 3', False, False),
        ('except', 'select * except a.score', True, False),
        ('runtime_error', 'select a1.nosuchmethod()', False, False),
        ('syntax_error', 'select a1 +', False, False),
        ('parse_error', 'update set a1 = "z" order by a1', False, False),
        ('bad_field', 'update set a7 = "z"', False, False),
        ('syn_from', 'select %sa1, a2 from mytable' % pad, False, False),
        ('syn_like', "select %s* where a1 LIKE 'a%%'" % pad, False, False),
        ('syn_having', 'select %sa1, COUNT(*) group by a1 having COUNT(*) > 1' % pad, False, False),
        ('syn_and', 'select %s* where a2 > "0" and a2 < "7"' % pad, False, False),
        ('syn_or', 'select %sa1 where a1 == "a" or a1 == "b"' % pad, False, False),
        ('syn_like_from', "select %sa1 from t where a1 like 'k%%'" % pad, False, False),
        ('syn_and_or', 'select %s* where a1 == "a" and a2 > "3" or a1 == "k"' % pad, False, False),
        ('syn_from_named', 'select %sa.name from input where a.score > "1"' % pad, True, False),
        ('syn_plain', 'select %sa1 a2' % pad, False, False),
    ]
    if only is not None:
        pool = [x for x in pool if x[0] in only]
    kind, q, named, joined = r.choice(pool)
    if kind == 'avg_native':
        A = [[row[0], int(row[hdr.index('score')])] for row in A]
    elif kind == 'avg_string':
        A = [[row[0], row[hdr.index('score')]] for row in A]
    c = {'kind': kind, 'q': q, 'A': A, 'B': B if joined else None, 'hdrA': hdr if named else None, 'hdrB': hdrB if (named and joined) else None}
    if kind in ('avg_native', 'avg_string'):
        c['hdrA'] = None
    return c


def key(q):
    return json.dumps([q['q'], q['A'], q['B'], q['hdrA'], q['hdrB']], sort_keys=True)


def rel(c, e, g):
    return isinstance(g, dict) and g.get('results') == e['results']


def describe(c, e, g):
    return 'rbql-js history %s: solo results %s, in the history %s' % (
        [(q['q'], q['A'], q['hdrA']) for q in c['queries']], json.dumps(e)[:500], json.dumps(g)[:500])


def eval_history(case):
    sres = lib.run_impl_js('c16js', [{'part': 'c16js', 'queries': [q]} for q in case['queries']], shards=1)
    exp = {'results': [x['results'][0] for x in sres]}
    return exp, lib.run_impl_js('c16js', [case], shards=1)[0]


def shrink(c, e, g):
    """drop queries of the history while some query still differs from its solo result"""
    cur, budget, changed = c, 14, True
    while changed and budget > 0 and len(cur['queries']) > 1:
        changed = False
        for i in range(len(cur['queries'])):
            budget -= 1
            if budget <= 0:
                break
            cand = dict(cur, queries=cur['queries'][:i] + cur['queries'][i + 1:])
            e1, g1 = eval_history(cand)
            if not rel(cand, e1, g1):
                cur, e, g, changed = cand, e1, g1, True
                break
    return cur, e, g


def run(ctx, theorem=THEOREM):
    r = ctx.rng
    n = 400 if ctx.tier == 'quick' else 40000
    hist = [{'part': 'c16js', 'queries': [scenario(r) for _ in range(r.randint(2, 6))]} for _ in range(n)]
    # a failing query directly before a query of the same family, at a smaller text offset (state left behind by an aborted scan)
    for _ in range(n // 4):
        qs = [scenario(r) for _ in range(r.randint(1, 3))]
        bad = [q for q in (scenario(r) for _ in range(40)) if q['kind'] in ('attr_bad', 'attr_bad_late', 'attr_bad_b', 'dict_bad', 'dc')]
        good = [q for q in (scenario(r) for _ in range(40)) if q['kind'] in ('attr', 'attr_where', 'join', 'update_named', 'same_list', 'dc_again', 'agg')]
        if bad and good:
            k = r.randint(0, len(qs))
            qs[k:k] = [r.choice(bad), r.choice(good)]
        hist.append({'part': 'c16js', 'queries': qs})
    # failing queries of one family next to each other: the same failing query twice / three times in a row, the same kind with another
    # offset and another table, two related kinds (one keyword in common), with a good or an unrelated query in between or not
    families = [(k,) for k in FAILING] + [('syn_from', 'syn_like_from', 'syn_from_named'), ('syn_like', 'syn_like_from'), ('syn_and', 'syn_or', 'syn_and_or'),
                                           ('attr_bad', 'attr_bad_late', 'dict_bad'), ('syntax_error', 'syn_plain', 'syn_and')]
    for _ in range(n // 2):
        fam = r.choice(families)
        first = scenario(r, fam)
        qs = [first]
        for _k in range(r.randint(1, 3)):
            x = r.random()
            if x < 0.35:
                qs.append(dict(first))                      # literally the same query again
            elif x < 0.8:
                qs.append(scenario(r, fam))                 # same family, other offset / table
            else:
                qs.append(scenario(r))
                qs.append(scenario(r, fam))
        if r.random() < 0.3:
            qs.insert(0, scenario(r))
        hist.append({'part': 'c16js', 'queries': qs})
        ctx.stat('js_histories_failing_family')
    solos = {}
    for h in hist:
        for q in h['queries']:
            solos.setdefault(key(q), q)
    solo_cases = [{'part': 'c16js', 'queries': [q]} for q in solos.values()]
    sres = lib.run_impl_js('c16js', solo_cases, shards=12)
    solo_of = {}
    for k, res in zip(solos.keys(), sres):
        if not isinstance(res, dict) or 'results' not in res:
            raise lib.CheckFailure('rbql-js solo run failed: %r' % (res,))
        solo_of[k] = res['results'][0]
    exp = [{'results': [solo_of[key(q)] for q in h['queries']]} for h in hist]
    got = lib.run_impl_js('c16js', hist, shards=12)
    ctx.compare(hist, exp, got, theorem, rel=rel, describe=describe, shrink=shrink, corrupt=lambda e: {'results': e['results'] + [None]})
    ctx.count(sum(len(h['queries']) for h in hist) + len(solo_cases))
    ctx.stat('js_histories', len(hist))
    ctx.stat('js_solo_runs', len(solo_cases))
    nerr = sum(1 for v in solo_of.values() if v['error'] is not None)
    ctx.stat('js_solo_failing_queries', nerr)
    for h in hist:
        ctx.nontriv(('c16js', tuple(key(q) for q in h['queries'])))
    ctx.rule += ('; JavaScript leg: %d histories of 2-8 queries (37 kinds: attribute / dictionary / positional variables, DISTINCT COUNT, aggregates over native numbers and '
                 'strings, JOIN, UPDATE, LIKE, UNNEST, EXCEPT, unknown-column / syntax / runtime / bad-field failures, queries rejected at compile time that contain FROM / LIKE / HAVING / and / or; '
                 'a failing query placed directly before a query of the same family; failing queries of one family repeated or next to each other) through one freshly loaded rbql-js each, every result compared with the same query through its own freshly loaded rbql-js') % len(hist)


def replay(ctx, case, theorem=THEOREM):
    solo_cases = [{'part': 'c16js', 'queries': [q]} for q in case['queries']]
    sres = lib.run_impl_js('c16js', solo_cases, shards=1)
    exp = [{'results': [x['results'][0] for x in sres]}]
    got = lib.run_impl_js('c16js', [case], shards=1)
    ctx.count()
    ctx.compare([case], exp, got, theorem, rel=rel, describe=describe)
