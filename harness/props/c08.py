# C08 - Query meaning is invariant under spelling; string literals are opaque.
# Model: Parser.v (text layer, Python and JS flavours); theorems: Props/C08.v.
# Correspondence, two parts:
#  (i)  metamorphic, on the implementation through the PUBLIC path rbql.query_table (Python) and rbql-js query_table:
#       every generated query is rendered under N random compositions of the spelling transformations; every spelling
#       must give the result table / header / error class of the canonical spelling, and literal values must reach the
#       output verbatim (expected value = Python's own evaluation of the literal text).
#  (ii) model tie: for every generated spelling the model's pipeline (cleanup -> separate literals -> remove table name ->
#       separate_actions -> per-clause text: find_top, update split, join parse, select translation, except list) is
#       compared with the implementation's internal functions (additional probe, hasattr-guarded).
#  plus a malformed stream (two SELECTs, SELECT not first, SELECT and UPDATE, LIMIT without integer, ...) compared by
#  error tag, a token-soup stream for the scanners, and single-character probes of the whitespace / case-folding classes.
import ast
import itertools
import importlib
import lib

THEOREM = ('C08_cleanup_invariant / C08_literals_opaque / C08_combine_verbatim / C08_token_spelling_partial (Props/C08.v); '
           'model = Parser.parse_query')
STMT_NAMES = ['STRICT LEFT JOIN', 'LEFT OUTER JOIN', 'LEFT JOIN', 'INNER JOIN', 'JOIN', 'SELECT', 'ORDER BY', 'WHERE',
              'UPDATE', 'GROUP BY', 'LIMIT', 'EXCEPT', 'FROM']
KEYWORDS = ['select', 'update', 'where', 'order by', 'group by', 'join', 'inner join', 'left join', 'left outer join',
            'strict left join', 'limit', 'except', 'from', 'from a', 'top', 'distinct', 'count', 'asc', 'desc', 'set', 'with',
            'with (header)', 'on', 'and', 'as']
LIT_ALPHA = KEYWORDS + [k.upper() for k in KEYWORDS] + ['*', '=', '==', '#', ',', ';', 'a1', 'b.x', 'a.x', 'NR', '"', "'", '\\',
                                                         '\t', ' ', '  ', 'a[1]', 'x', 'y', '(', ')', '//', 'COUNT(*)', ' as n', ';;', 'b1',
                                                         '$', '$$', '$&', '$`', "$'", '$1', '${x}', '%s', '{}', '{0}', '\\1', '&', '^', '|']
LANGS = (('py', 0), ('js', 1))

# ------------------------------------------------------------------ literals

def gen_literal(rng, tame=False):
    """-> (literal text, value). Escaping: backslash and the own quote are backslash-escaped; the other quote is
    left raw or escaped; a tab stays a raw tab. The same text is a valid literal with the same value in Python and JS."""
    n = rng.choice([0, 1, 1, 2, 2, 3, 4])
    toks = [rng.choice(LIT_ALPHA) for _ in range(n)]
    if tame:
        toks = [t for t in toks if t not in ('\\', '"', "'")]
    value = ''.join(toks) if rng.random() < 0.5 else ' '.join(toks)
    q = rng.choice('"\'')
    body = []
    for ch in value:
        if ch == '\\':
            body.append('\\\\')
        elif ch == q:
            body.append('\\' + ch)
        elif ch in '"\'' and rng.random() < 0.3:
            body.append('\\' + ch)
        else:
            body.append(ch)
    text = q + ''.join(body) + q
    assert ast.literal_eval(text) == value, (text, value)
    return text, value


# ------------------------------------------------------------------ query records
# an expression is a list of parts: ('v', table, n) variable | ('l', text, value) literal | ('r', raw text)

def V(t, n):
    return ('v', t, n)


def R(s):
    return ('r', s)


def gen_query(rng, lang):
    lits = []

    def L():
        text, value = gen_literal(rng)
        lits.append(value)
        return ('l', text, value)

    def avar():
        return V('a', rng.randint(1, 3))

    def scalar():
        r = rng.random()
        if r < 0.35:
            return [avar()]
        if r < 0.45:
            return [R('NR')]
        if r < 0.7:
            return [L()]
        if r < 0.85:
            return [avar(), R(' + '), L()]
        return [L(), R(' + '), avar()]

    def cond():
        r = rng.random()
        if r < 0.5:
            return [avar(), R(' == '), L()]
        if r < 0.7:
            return [avar(), R(' != '), L()]
        if r < 0.85:
            return [avar(), R(' == '), avar()]
        return [avar(), R(' + '), avar(), R(' != '), L()]

    q = {'kind': 'select', 'items': [], 'top': None, 'distinct': None, 'where': None, 'order': None, 'group': None,
         'join': None, 'except': None, 'with': None, 'assign': None}
    r = rng.random()
    if r < 0.2:
        q['kind'] = 'update'
        q['assign'] = [(V('a', rng.randint(1, 3)), scalar()) for _ in range(rng.choice([1, 1, 2]))]
        if rng.random() < 0.6:
            q['where'] = cond()
        if rng.random() < 0.25:
            q['join'] = gen_join(rng)
    else:
        shape = rng.random()
        if shape < 0.12:
            q['items'] = [([R('*')], None)]
            q['except'] = [V('a', n) for n in rng.sample([1, 2, 3], rng.choice([1, 2]))]
        elif shape < 0.27:
            q['group'] = [avar()]
            agg = rng.choice(['COUNT(*)', 'count(*)', 'Count( * )', 'COUNT(1)'])
            q['items'] = [(list(q['group']), None), ([R(agg)], None)] if rng.random() < 0.7 else [([R(agg)], None)]
        else:
            n = rng.choice([1, 1, 2, 2, 3])
            for _ in range(n):
                x = rng.random()
                if x < 0.12:
                    item = [R(rng.choice(['*', 'a.*']))]
                elif x < 0.2:
                    item = cond()
                else:
                    item = scalar()
                alias = None
                if rng.random() < 0.12 and item[0][0] != 'r':
                    alias = rng.choice(['n', 'name', 'Col_1', 'selected'])
                q['items'].append((item, alias))
            if rng.random() < 0.3:
                q['distinct'] = rng.choice(['d', 'd', 'dc'])
            if rng.random() < 0.3:
                q['order'] = (rng.choice([[avar()], [avar(), R(' + '), avar()], [R('NR')]]), rng.choice([None, 'asc', 'desc', 'desc']))
        if rng.random() < 0.3:
            q['top'] = rng.randint(0, 3)
        if rng.random() < 0.45:
            q['where'] = cond()
        if rng.random() < 0.3 and q['except'] is None:
            q['join'] = gen_join(rng)
            if rng.random() < 0.5 and q['group'] is None:
                q['items'].append(([R(rng.choice(['b1', 'b2', 'b.*']))], None))
    if rng.random() < 0.08:
        q['with'] = rng.choice(['header', 'noheader', 'headers'])
    return q, lits


def gen_join(rng):
    pairs = [(V('a', 1), V('b', 1))]
    x = rng.random()
    if x < 0.25:
        pairs.append((V('a', 2), V('b', 2)))
    elif x < 0.4:
        pairs = [(R('NR'), R('bNR'))]                 # record numbers as key components; the sides are swapped like any other pair
    elif x < 0.5:
        pairs.append((R(rng.choice(['NR', 'aNR', 'a.NR'])), R(rng.choice(['bNR', 'b.NR']))))
    return {'type': rng.choice(['inner', 'inner', 'left', 'strict']), 'pairs': pairs}


def gen_tables(rng, lits):
    pool = ['x', 'y', 'ab', '1', '2'] + lits[:3]
    nrows = rng.randint(0, 5)
    table = [[rng.choice(pool) for _ in range(3)] for _ in range(nrows)]
    keys = sorted(set(r[0] for r in table)) or ['x']
    join = []
    for k in keys:
        for _ in range(rng.choice([0, 1, 1, 2])):
            join.append([k, rng.choice(pool)])
    if rng.random() < 0.5:
        join.append(['zz', 'q'])
    return table, join


# ------------------------------------------------------------------ rendering under a spelling

def kw_case(rng, word, mode):
    if mode == 'upper':
        return word.upper()
    if mode == 'lower':
        return word.lower()
    if mode == 'cap':
        return word.capitalize()
    if mode == 'alt':
        return ''.join(c.upper() if i % 2 else c.lower() for i, c in enumerate(word))
    return ''.join(c.upper() if rng.random() < 0.5 else c.lower() for c in word)


class Spelling:
    """all spelling choices derive from the rng given at construction; canonical = no rng"""
    def __init__(self, rng, lang, perm=None, sep=None, case_mode=None, names=None):
        self.rng = rng
        self.names = names          # column names of table a, when the run supplies them: aN may then be spelled a["name"]
        self.lang = lang
        self.canon = rng is None
        self.perm = perm            # enumerated clause order (tuple of indices) instead of a random shuffle
        self.sep = sep              # enumerated separator between all words instead of the random layout
        if self.canon:
            self.case_mode = 'upper'
        else:
            self.case_mode = rng.choice(['upper', 'lower', 'cap', 'alt', 'rand', 'rand'])
            self.p_break = rng.choice([0.0, 0.0, 0.15, 0.4])
            self.p_wide = rng.choice([0.0, 0.2, 0.5])
            self.p_tab = rng.choice([0.0, 0.0, 0.2])
            self.brackets = rng.choice([0.0, 0.0, 0.5, 1.0])
            if case_mode is not None:
                self.case_mode = case_mode

    def kw(self, words):
        """a (multi-word) keyword -> list of query words"""
        if self.canon:
            return [w.upper() for w in words.split(' ')]
        ws = [kw_case(self.rng, w, self.case_mode) for w in words.split(' ')]
        if len(ws) > 1 and self.rng.random() < 0.06:
            return [''.join(ws)]                      # the source's ' *' lets the words of a statement be glued
        return ws

    def var(self, t, n):
        if not self.canon and self.names and t == 'a' and n <= len(self.names) and self.rng.random() < 0.3:
            # one more interchangeable spelling of the same column: by name, the name being a string literal (opaque: commas, keywords)
            q = self.rng.choice(['"', "'"])
            return 'a[%s%s%s]' % (q, self.names[n - 1], q)
        if not self.canon and self.rng.random() < self.brackets:
            return '%s[%d]' % (t, n)
        return '%s%d' % (t, n)

    def expr(self, parts):
        return ''.join(self.var(p[1], p[2]) if p[0] == 'v' else p[1] for p in parts)

    def coin(self, p=0.5):
        return (not self.canon) and self.rng.random() < p


def split_words(s):
    """split an expression text at single spaces outside string literals (literals stay atomic)"""
    out, cur, i, q = [], [], 0, None
    while i < len(s):
        c = s[i]
        if q:
            cur.append(c)
            if c == '\\':
                cur.append(s[i + 1]); i += 1
            elif c == q:
                q = None
        elif c in '"\'':
            q = c
            cur.append(c)
        elif c == ' ':
            if cur:
                out.append(''.join(cur)); cur = []
        else:
            cur.append(c)
        i += 1
    if cur:
        out.append(''.join(cur))
    return out


def ref_literals(text):
    """SPEC: the string literals of a text, by the standard grammar (a backslash escapes the next character)"""
    out, i = [], 0
    while i < len(text):
        c = text[i]
        if c in '"\'':
            j = i + 1
            while j < len(text) and text[j] != c:
                j += 2 if text[j] == '\\' else 1
            out.append(text[i:j + 1])
            i = j + 1
        else:
            i += 1
    return out


def render(q, sp):
    """query record -> (text, the literal texts in order of appearance)"""
    words = render_words(q, sp)
    lits = ref_literals(' '.join(words))
    if sp.canon:
        return ' '.join(words), lits
    if sp.sep is not None:
        return sp.sep.join(words), lits
    return layout(words, sp), lits


def render_words(q, sp):
    """query record -> list of clauses, each a list of words"""
    rng = sp.rng
    head = []
    clauses = []
    top_as_limit = q['top'] is not None and q['kind'] == 'select' and sp.coin(0.5)
    if q['kind'] == 'select':
        head += sp.kw('select')
        if q['top'] is not None and not top_as_limit:
            if sp.coin(0.08):
                head += [sp.kw('top')[0] + str(q['top'])]
            else:
                head += sp.kw('top') + [str(q['top'])]
        if q['distinct'] == 'd':
            head += sp.kw('distinct')
        elif q['distinct'] == 'dc':
            head += sp.kw('distinct count')
        items = []
        for parts, alias in q['items']:
            t = sp.expr(parts)
            if alias:
                t += ' ' + ('AS' if sp.canon or rng.random() < 0.5 else 'as') + ' ' + alias
            items.append(t)
        head += split_words(', '.join(items) if sp.canon or rng.random() < 0.7 else ','.join(items))
    else:
        head += sp.kw('update')
        if sp.coin(0.3):
            head += ['a'] + sp.kw('set') if rng.random() < 0.5 else [kw_case(rng, 'a', sp.case_mode)] + sp.kw('set')
        elif sp.coin(0.3):
            head += sp.kw('set')
        head += split_words(', '.join(sp.expr([v]) + ' = ' + sp.expr(e) for v, e in q['assign']))
    if q['where'] is not None:
        clauses.append(sp.kw('where') + split_words(sp.expr(q['where'])))
    if q['order'] is not None:
        e, d = q['order']
        c = sp.kw('order by') + split_words(sp.expr(e))
        if d == 'desc':
            c += sp.kw('desc')
        elif d == 'asc' or (d is None and sp.coin(0.3)):
            c += sp.kw('asc')
        clauses.append(c)
    if q['group'] is not None:
        clauses.append(sp.kw('group by') + split_words(sp.expr(q['group'])))
    if q['join'] is not None:
        j = q['join']
        if j['type'] == 'inner':
            k = sp.kw('inner join') if sp.coin() else sp.kw('join')
        elif j['type'] == 'left':
            k = sp.kw('left outer join') if sp.coin() else sp.kw('left join')
        else:
            k = sp.kw('strict left join')
        c = k + [j['table'] if j.get('table') else (rng.choice(['b', 'B']) if not sp.canon else 'b')] + sp.kw('on')      # (a JOIN table with a name of its own: props/c08uni.py)
        for i, (x, y) in enumerate(j['pairs']):
            if i:
                c += sp.kw('and')
            l, r = sp.expr([x]), sp.expr([y])
            if sp.coin():
                l, r = r, l
            eq = '==' if sp.canon or rng.random() < 0.5 else '='
            form = 0 if sp.canon else rng.randrange(3)
            c += [l, eq, r] if form == 0 else [l + eq + r] if form == 1 else [l + eq, r]
        clauses.append(c)
    if top_as_limit:
        clauses.append(sp.kw('limit') + [str(q['top'])])
    if q['except'] is not None:
        clauses.append(sp.kw('except') + split_words(', '.join(sp.expr([v]) for v in q['except'])))
    if q['kind'] == 'select' and sp.coin(0.25):
        clauses.append(sp.kw('from') + [kw_case(rng, 'a', sp.case_mode)])
    if sp.perm is not None:
        clauses = [clauses[i] for i in sp.perm if i < len(clauses)] + clauses[len(sp.perm):]
    elif not sp.canon:
        rng.shuffle(clauses)
    words = head + [w for c in clauses for w in c]
    if q['with'] is not None:
        w = sp.kw('with')[0]
        words += [w + '(' + q['with'] + ')'] if sp.coin(0.3) else [w, '(' + q['with'] + ')']
    return words


COMMENTS = ['', ' a comment', ' select * from "x', " it's", ';', ' WHERE a1 == 2']


def layout(words, sp):
    """whitespace, line breaks, indentation, comment lines, blank lines, trailing semicolons"""
    rng = sp.rng
    cp = '#' if sp.lang == 'py' else '//'
    out = []

    def comment_line():
        return rng.choice(['', ' ', '\t']) + cp + rng.choice(COMMENTS)
    if rng.random() < 0.15:
        out.append(comment_line() + '\n')
    if rng.random() < 0.15:
        out.append(rng.choice([' ', '\n', '  \n', '\t']))
    for i, w in enumerate(words):
        if i:
            r = rng.random()
            if r < sp.p_break:
                nl = rng.choice(['\n', '\n', '\r\n', ' \n'])
                s = nl
                if rng.random() < 0.2:
                    s += comment_line() + '\n'
                if rng.random() < 0.15:
                    s += rng.choice(['', '  ']) + '\n'
                s += rng.choice(['', '', '  ', '\t', '    '])
                out.append(s)
            elif r < sp.p_break + sp.p_tab:
                out.append(rng.choice(['\t', ' \t', '\t ']))
            elif rng.random() < sp.p_wide:
                out.append(rng.choice(['  ', '   ']))
            else:
                out.append(' ')
        out.append(w)
    if rng.random() < 0.3:
        out.append(rng.choice([';', ';;', ' ;', ';  ']))
    if rng.random() < 0.15:
        out.append(rng.choice(['\n', ' ', '\n' + comment_line(), '\n\n']))
    return ''.join(out)


# ------------------------------------------------------------------ malformed and token-soup streams

def gen_malformed(rng, lang):
    sp = Spelling(rng, lang)
    e = rng.choice(['a1', 'a2', '"x"', 'a1 + a2', "'select'", 'NR'])
    k = lambda w: ' '.join(sp.kw(w))
    forms = [
        lambda: '%s %s %s %s' % (k('select'), e, k('select'), e),
        lambda: '%s a1 == a2 %s %s' % (k('where'), k('select'), e),
        lambda: '%s %s %s a1 = 2' % (k('select'), e, k('update')),
        lambda: '%s a1 = 2 %s %s' % (k('update'), k('select'), e),
        lambda: '%s %s %s %s' % (k('select'), e, k('limit'), rng.choice(['x', '', '1.5', 'a1', '2 3', '1_0', '+2', '-1', '_1', '1__0'])),
        lambda: '%s %s %s a1 %s a2' % (k('select'), e, k('where'), k('where')),
        lambda: '%s a1 == 2' % k('where'),
        lambda: '%s %s %s b %s' % (k('select'), e, k('join'), rng.choice(['', 'a1 == b1', 'on', 'on a1', 'on a1 === b1', 'on a1 == b1 a2 == b2', 'on a1 == b1 and', 'on a1==b1 && a2==b2'])),
        lambda: '%s %s' % (k('update'), rng.choice(['b1 = 2', '= 2', 'a1', 'a1 == 2', 'x, a1 = 2', ',a1 = 2', 'a1 = 2, , a2 = 3'])),
        lambda: '%s %s' % (k('select'), rng.choice(['', ' ', k('top') + ' 2', k('distinct'), k('where') + ' a1'])),
        lambda: '%s %s %s a1 %s a2' % (k('select'), e, k('order by'), k('order by')),
        lambda: '%s %s %s b on a1 == b1 %s b on a2 == b2' % (k('select'), e, k('left join'), k('join')),
        lambda: '%s %s %s b on a1 == b1 %s b on a2 == b2' % (k('select'), e, k('join'), k('join')),
        lambda: ' %s %s' % (k('select'), e),
        lambda: '%s %s %s' % (e, k('select'), e),
        lambda: '%s %s %s (%s)' % (k('select'), e, k('with'), rng.choice(['header', 'abc', 'abcd', 'a' * 20, 'a' * 21, 'Header', 'no header'])),
    ]
    text = rng.choice(forms)()
    if rng.random() < 0.3:
        text = layout(split_words(text), sp) if text.strip() else text
    return text


SOUP = (['select', 'SELECT', 'update', 'Update', 'set', 'SET', 'where', 'order', 'by', 'ORDER BY', 'orderby', 'group by', 'join',
         'inner join', 'left', 'outer', 'left join', 'left outer join', 'strict left join', 'strict', 'limit', 'except', 'from', 'from a',
         'FROM A', 'top', 'top 3', 'TOP3', 'distinct', 'DISTINCT COUNT', 'distinctcount', 'count', 'asc', 'DESC', 'with', 'WITH (header)',
         'with(noheader)', 'on', 'and', 'as n', 'AS n', 'As n', 'a', 'b', 'a1', 'a2', 'a[1]', 'b1', 'a.x', '*', 'a.*', 'b.*', ', *', '*,', ',',
         '=', '==', '===', '!=', 'a1=1', 'a1 = 1', 'a1 == b1', 'a2=b2', '#', '//', ';', '"', "'", '"""', "'''", '`', '\\', '\\"', "\\'",
         '"x"', "'y'", '"a\\"b"', '"""z"""', '`t`', 'COUNT(*)', 'count( * )', 'COUNT(*),', 'NR', '1', '10', '(', ')', '(header)',
         '___RBQL_STRING_LITERAL0___', 'x'])
SOUP_WS = [' ', ' ', ' ', ' ', '  ', '\t', '\n', '\n', '\r\n', '', '', '\x0b', '\x0c', '\xa0', ' ', '\x1f', '\x85', '﻿']
SOUP_ODD = ['ſ', 'İ', 'ı', 'K', '\r', 'é', '世']


def gen_soup(rng):
    n = rng.randint(1, 9)
    out = []
    if rng.random() < 0.1:
        out.append(rng.choice(SOUP_WS))
    for i in range(n):
        t = rng.choice(SOUP)
        if i == 0 and rng.random() < 0.75:
            t = rng.choice(['select', 'SELECT', 'Select', 'update', 'UPDATE', 'select top 2', 'select distinct', 'update set', 'UPDATE a SET'])
        if rng.random() < 0.04:
            j = rng.randrange(len(t))
            t = t[:j] + rng.choice(SOUP_ODD) + t[j + 1:]
        out.append(t)
        out.append(rng.choice(SOUP_WS))
    if rng.random() < 0.5:
        out.pop()
    return ''.join(out)


# ------------------------------------------------------------------ model decoding and comparison

def dstr(x):
    return lib.dec_str(x)


def dopt(x, f=lambda v: v):
    return None if not x else f(x[0])


def model_error(e):
    tag = e[0]
    if tag == 1:
        return [1, STMT_NAMES[e[1]]]
    return [tag]


def decode_actions(res):
    """model actions_res -> the dict shape of rbql's rb_actions (or {'error': [tag, stmt?]})"""
    if res[0] == 1:
        return {'error': model_error(res[1])}
    a = res[1]
    out = {}
    if a[0]:
        out['WITH'] = dstr(a[0][0])
    if a[1]:
        s = {'text': dstr(a[1][0])}
        if a[2]:
            s['top'] = a[2][0]
        if a[3]:
            s['distinct'] = True
        if a[4]:
            s['distinct_count'] = True
        out['SELECT'] = s
    if a[5]:
        out['UPDATE'] = {'text': dstr(a[5][0])}
    if a[6]:
        out['WHERE'] = {'text': dstr(a[6][0])}
    if a[7]:
        out['ORDER BY'] = {'text': dstr(a[7][0][0]), 'reverse': bool(a[7][0][1])}
    if a[8]:
        out['GROUP BY'] = {'text': dstr(a[8][0])}
    if a[9]:
        out['LIMIT'] = {'text': dstr(a[9][0])}
    if a[10]:
        out['EXCEPT'] = {'text': dstr(a[10][0])}
    if a[11]:
        out['JOIN'] = {'text': dstr(a[11][0][1]), 'join_subtype': STMT_NAMES[a[11][0][0]]}
    if a[12]:
        out['FROM'] = {'text': dstr(a[12][0])}
    return out


def decode_res(r, f):
    return f(r[1]) if r[0] == 0 else {'error': model_error(r[1])}


def decode_details(d, actions):
    det = {}
    if not d:
        return det
    if 'SELECT' in actions:
        det['top'] = decode_res(d[0], lambda o: dopt(o, lib.dec_Z))
    if d[1]:
        det['update'] = decode_res(d[1][0], lambda l: [[dstr(v), dstr(e)] for v, e in l])
    if d[2]:
        det['join'] = decode_res(d[2][0], lambda j: [dstr(j[0]), [[dstr(x), dstr(y)] for x, y in j[1]]])
    if d[3]:
        det['select'] = decode_res(d[3][0], dstr)
    if d[4]:
        det['except'] = [dstr(x) for x in d[4][0]]
    return det


def decode_model(m):
    acts = decode_actions(m[4])
    return {'clean': dstr(m[0]), 'format': dstr(m[1]), 'literals': [dstr(x) for x in m[2]], 'format2': dstr(m[3]),
            'actions': acts, 'details': decode_details(m[5], acts)}


def canon_impl_internal(g, lang):
    """implementation's internal result -> the comparable shape (errors: tag only, never the message)"""
    if not isinstance(g, dict) or g.get('missing') or 'driver_exception' in g:
        return g

    def err(x):
        if isinstance(x, dict) and 'error' in x:
            e = x['error']
            return {'error': e[1:] if e[1] != 0 else ['unclassified', e[0]]}
        return x
    out = dict(g)
    out['actions'] = err(g['actions'])
    if 'details' in g:
        out['details'] = {k: err(v) for k, v in g['details'].items()}
    return out


def expected_internal(m, g, lang, c=None):
    """restrict the model's result to what the implementation's probe reports (functions present, clauses present);
    for a generated well-formed query also the SPEC: the extracted literals are the generated literal texts"""
    if not isinstance(g, dict) or g.get('missing'):
        return g
    e = {'clean': m['clean'], 'format': m['format'], 'literals': m['literals'], 'actions': m['actions']}
    if c is not None and 'spec_literals' in c:
        e['spec_literals'] = c['spec_literals']
        g['spec_literals'] = g.get('literals')
    if lang == 'py':
        e['format2'] = m['format2']
    if 'combined' in g:
        e['combined'] = g['combined']        # checked separately against the model's combine (entry 502)
    if 'details' in g:
        e['details'] = {k: m['details'].get(k, 'MODEL-HAS-NO-%s' % k) for k in g['details']}
        if lang == 'js':
            e['details'].pop('top', None)
    return e


# ------------------------------------------------------------------ run

def sizes(ctx):
    if ctx.tier == 'quick':
        return {'queries': 700, 'spellings': 8, 'malformed': 1500, 'soup': 6000, 'hdr_queries': 200, 'enum_queries': 8}
    return {'queries': 6000, 'spellings': 64, 'malformed': 20000, 'soup': 150000, 'hdr_queries': 2000, 'enum_queries': 60}


def describe_internal(c, e, g):
    if not isinstance(g, dict):
        return 'text layer probe failed on %r: %r' % (c['q'], g)
    for k in ('clean', 'format', 'literals', 'format2', 'actions', 'details', 'combined', 'spec_literals'):
        if k in e and e.get(k) != g.get(k):
            who = 'generated literal texts (spec)' if k == 'spec_literals' else 'model'
            return 'text layer (%s) %s differs on query %r: %s %r, implementation %r' % (c['lang'], k, c['q'], who, e.get(k), g.get(k))
    return 'text layer differs on %r' % c['q']


def describe_query(c, e, g):
    return ('spelling changes the result (%s): canonical %r -> %r ; spelling %r -> %r ; literal columns %r'
            % (c['lang'], c['canon_q'], e['canon'], c['q'], g, e['lit_cols']))


def rel_query(c, e, g):
    if g != e['canon']:
        return False
    if isinstance(g, dict) and g.get('error') == 'SyntaxError':
        return False            # a generated query is well-formed: the text layer must not break its expressions
    if isinstance(g, dict) and 'rows' in g:
        for j, v in e['lit_cols'].items():
            for row in g['rows']:
                if int(j) >= len(row) or row[int(j)] != v:
                    return False
    return True


def lit_columns(q):
    """output column index -> literal value, for select items that are a bare literal (no star before them)"""
    cols = {}
    if q['kind'] != 'select' or q['group'] is not None or q['except'] is not None:
        return cols
    off = 1 if q['distinct'] == 'dc' else 0
    for j, (parts, alias) in enumerate(q['items']):
        if any(p[0] == 'r' and ('*' in p[1]) for p in parts):
            break
        if len(parts) == 1 and parts[0][0] == 'l':
            cols[str(j + off)] = parts[0][2]
    return cols


def model_internal(cases_by_lang):
    """run entry 503 for every case; returns decoded model results in order"""
    res = {}
    for lang, code in LANGS:
        cs = cases_by_lang[lang]
        args = [lib.enc([code, c['q']]) for c in cs]
        raw = lib.run_model(503, args)
        res[lang] = (args, raw, [decode_model(m) for m in raw])
    return res


def bmp(s):
    return all(ord(ch) < 0x10000 and not (0xd800 <= ord(ch) < 0xe000) for ch in s)


def run(ctx):
    sz = sizes(ctx)
    rng = ctx.rng
    ctx.rule = ('generated select/update queries (where, order by, group by, join, limit/top, distinct [count], except, AS alias, '
                'WITH modifier) over small string tables, literal contents from the keyword/metacharacter alphabet in both '
                'quote styles; each under %d random spellings (keyword case, clause order, spaces/tabs/line breaks/comment '
                'lines/semicolons, aN vs a[N], TOP vs LIMIT, JOIN vs INNER JOIN, LEFT vs LEFT OUTER JOIN, = vs == and swapped '
                'ON sides, FROM a, UPDATE a SET); for the first queries additionally every order of up to 4 clauses x keyword case {lower, UPPER, Capitalised, aLtErNaTiNg} x whitespace {1 space, 3 spaces, TAB, LF, LF+comment+LF}; malformed and token-soup streams for the model tie; non-trivial = distinct '
                'spelling text that differs from its canonical spelling, or distinct malformed/soup text with at least one '
                'statement keyword' % sz['spellings'])
    public = {'py': [], 'js': []}
    internal = {'py': [], 'js': []}
    # ---- well-formed queries and their spellings
    for lang, _code in LANGS:
        for qi in range(sz['queries'] + sz['hdr_queries']):
            with_header = qi >= sz['queries']
            q, lits = gen_query(rng, lang)
            table, join = gen_tables(rng, lits)
            canon, canon_lits = render(q, Spelling(None, lang))
            base = {'kind': 'query', 'lang': lang, 'table': table, 'join': join if q['join'] is not None else None,
                    'canon_q': canon, 'lit_cols': lit_columns(q)}
            if with_header:
                base['names'] = ['Last, First', 'select where =', 'name']        # names only a quoted spelling can carry
                if base['join'] is not None:
                    base['join_names'] = ['k', 'x']
            n_sp = sz['spellings'] if not with_header else max(2, sz['spellings'] // 4)
            seen = set()
            public[lang].append(dict(base, q=canon, is_canon=True))
            internal[lang].append({'kind': 'internal', 'lang': lang, 'q': canon, 'spec_literals': canon_lits})
            for _ in range(n_sp):
                text, tl = render(q, Spelling(rng, lang, names=base.get('names')))
                if text in seen:
                    continue
                seen.add(text)
                public[lang].append(dict(base, q=text, is_canon=False))
                internal[lang].append({'kind': 'internal', 'lang': lang, 'q': text, 'spec_literals': tl})
                if text != canon:
                    ctx.nontriv((lang, text))
            if not with_header and qi < sz['enum_queries']:
                # bounded-exhaustive block: every clause order x keyword-case pattern x whitespace kind
                nclauses = sum(1 for k in ('where', 'order', 'group', 'join', 'except') if q[k] is not None) + 2
                perms = list(itertools.permutations(range(min(nclauses, 4))))
                cp = '#' if lang == 'py' else '//'
                for perm in perms:
                    for cm in ('lower', 'upper', 'cap', 'alt'):
                        for sep in (' ', '   ', '\t', '\n', '\n%s c\n' % cp):
                            text, tl = render(q, Spelling(rng, lang, perm=perm, sep=sep, case_mode=cm))
                            if text in seen:
                                continue
                            seen.add(text)
                            public[lang].append(dict(base, q=text, is_canon=False))
                            internal[lang].append({'kind': 'internal', 'lang': lang, 'q': text, 'spec_literals': tl})
                            ctx.nontriv((lang, text))
                            ctx.stat('enumerated_spellings')
            ctx.stat('queries_%s_%s' % (lang, q['kind']))
            for k in ('where', 'order', 'group', 'join', 'except', 'top', 'distinct', 'with'):
                if q[k] is not None:
                    ctx.stat('clause_' + k)
    # ---- malformed and soup (model tie; the malformed ones also through the public path, error class only)
    for lang, _code in LANGS:
        for _ in range(sz['malformed']):
            t = gen_malformed(rng, lang)
            internal[lang].append({'kind': 'internal', 'lang': lang, 'q': t, 'stream': 'malformed'})
            ctx.nontriv((lang, t))
        for _ in range(sz['soup']):
            t = gen_soup(rng)
            if lang == 'js' and not bmp(t):
                continue
            internal[lang].append({'kind': 'internal', 'lang': lang, 'q': t, 'stream': 'soup'})
            ctx.nontriv((lang, t))

    # ---- (i) metamorphic on the public path
    for lang, _code in LANGS:
        cs = public[lang]
        got = lib.run_impl_py('c08', cs) if lang == 'py' else lib.run_impl_js('c08', cs, shards=12)
        exp = []
        canon_res = None
        for c, g in zip(cs, got):
            if c['is_canon']:
                canon_res = g
            exp.append({'canon': canon_res, 'lit_cols': c['lit_cols']})
        ctx.compare(cs, exp, got, THEOREM + ' ; metamorphic: every spelling = canonical spelling, literals verbatim',
                    rel=rel_query, describe=describe_query, corrupt=lambda e: {'canon': ['CANARY'], 'lit_cols': {}}, shrink=None)
        ctx.count(len(cs))
        for c, g in zip(cs, got):
            if c['is_canon']:
                ctx.stat('%s_public_%s' % (lang, 'error_' + g['error'] if isinstance(g, dict) and 'error' in g else 'ok'))
                if c['lit_cols'] and isinstance(g, dict) and g.get('rows'):
                    ctx.stat('%s_literal_reaches_output' % lang)
        ctx.sample_safe(lambda: {'lang': lang, 'canonical': cs[0]['canon_q'], 'spelling': cs[1]['q'], 'result': got[1]})

    # ---- (ii) model tie
    mres = model_internal(internal)
    for lang, _code in LANGS:
        args, raw, dec = mres[lang]
        cs = internal[lang]
        for c, m in zip(cs, dec):
            c['format2'] = m['format2']          # rbql-js does not export remove_redundant_table_name
        got = lib.run_impl_py('c08', cs) if lang == 'py' else lib.run_impl_js('c08', cs, shards=12)
        got = [canon_impl_internal(g, lang) for g in got]
        exp = [expected_internal(m, g, lang, c) for m, g, c in zip(dec, got, cs)]
        ctx.compare(cs, exp, got, THEOREM, describe=describe_internal, shrink=shrink_internal)
        ctx.count(len(cs))
        # combine: implementation's combine(format, literals) vs the model's combine on the same inputs
        cargs, cexp, ccs = [], [], []
        for c, m, g in zip(cs, dec, got):
            if isinstance(g, dict) and 'combined' in g:
                cargs.append(lib.enc([m['format'], m['literals']]))
                cexp.append(g['combined'])
                ccs.append(c)
        cm = [dstr(x) for x in lib.run_model(502, cargs)]
        ctx.compare(ccs, cm, cexp, 'C08_combine_verbatim (Props/C08.v): combine = sequential replace',
                    describe=lambda c, e, g: 'combine_string_literals differs on %r: model %r implementation %r' % (c['q'], e, g))
        for c, m in zip(cs, dec):
            a = m['actions']
            ctx.stat('%s_%s' % (lang, 'error_%s' % a['error'][0] if 'error' in a else 'accepted'))
            if m['literals']:
                ctx.stat('%s_with_literals' % lang)
        ctx.cross_check_vm(503, args, raw, n=40 if ctx.tier == 'quick' else 200)
        ctx.sample_safe(lambda: {'lang': lang, 'query': cs[1]['q'], 'model': dec[1]['actions'], 'implementation': got[1].get('actions') if isinstance(got[1], dict) else got[1]})

    # ---- single-character classes: whitespace (strip / trim), (?i) folding, '.'
    for lang, code in LANGS:
        pts = list(range(0, 0x3100)) + [0xfeff, 0x2028, 0x2029, 0x212a, 0x1f600 if lang == 'py' else 0xffff]
        cs = [{'kind': 'chars', 'lang': lang, 'c': c, 'k': k} for c in pts if not (0xd800 <= c < 0xe000) for k in 'SIKE']
        if ctx.tier == 'quick':
            cs = [c for c in cs if c['c'] < 0x400 or c['c'] >= 0x1600 or c['k'] == 'S']
        margs = [lib.enc([code, ord(c['k']), c['c']]) for c in cs]
        mod = [[bool(x) for x in m] for m in lib.run_model(525, margs)]
        got = lib.run_impl_py('c08', cs) if lang == 'py' else lib.run_impl_js('c08', cs, shards=8)
        ctx.compare(cs, mod, got, 'character classes of the model (py_ws / js_ws / ci_eq / dot_ok) vs str.strip, re.IGNORECASE, "."',
                    describe=lambda c, e, g: 'character U+%04X (%s, keyword letter %s): model [ws, ci, dot] = %r, implementation %r' % (c['c'], c['lang'], c['k'], e, g))
        ctx.count(len(cs))
    ctx.exhaustive = False
    # the two sides of an ON condition: resolve_join_variables of both ports against JoinVars.v (the swap theorem's model)
    importlib.import_module('props.joinvars').run(ctx, THEOREM + ' ; C08_join_sides_swap (JoinVars.v)')
    # variable level: aN vs a[N], token boundaries, digits, record-number names (VarSpelling.v, entries 535-537)
    importlib.import_module('props.varspell').run(ctx)
    # non-ASCII identifiers / table names outside literals, above all letters whose case mappings change the length of the text
    importlib.import_module('props.c08uni').run(ctx)
    # recorded finding F5: a column named like a number captures the a[N] spelling in rbql-js (KNOWN-FINDING while it reproduces)
    importlib.import_module('props.numcols').run(ctx, THEOREM)


def shrink_internal(c, e, g):
    """shorten the query text while model and implementation still disagree"""
    q = c['q']
    lang = c['lang']
    code = 0 if lang == 'py' else 1
    budget = 60
    changed = True
    best = (c, e, g)
    while changed and budget > 0:
        changed = False
        n = len(q)
        for width in (max(1, n // 2), max(1, n // 4), 1):
            i = 0
            while i < len(q) and budget > 0:
                cand = q[:i] + q[i + width:]
                budget -= 1
                r = eval_internal({'kind': 'internal', 'lang': lang, 'q': cand}, code)
                if r is not None and r[1] != r[2]:
                    q = cand
                    best = r
                    changed = True
                else:
                    i += width
    return best


def eval_internal(c, code):
    m = decode_model(lib.run_model(503, [lib.enc([code, c['q']])], shards=1)[0])
    c = dict(c, format2=m['format2'])
    g = (lib.run_impl_py('c08', [c], shards=1) if c['lang'] == 'py' else lib.run_impl_js('c08', [c], shards=1))[0]
    g = canon_impl_internal(g, c['lang'])
    return c, expected_internal(m, g, c['lang'], c), g


def replay(ctx, case):
    if case.get('part') == 'numcols':
        return __import__('importlib').import_module('props.numcols').replay(ctx, case, THEOREM)
    if case.get('part') == 'joinvars':
        return importlib.import_module('props.joinvars').replay(ctx, case, THEOREM)
    if case.get('part') == 'c08uni':
        return importlib.import_module('props.c08uni').replay(ctx, case)
    if case.get('part') == 'varspell':
        return importlib.import_module('props.varspell').replay(ctx, case)
    lang = case.get('lang', 'py')
    code = 0 if lang == 'py' else 1
    kind = case.get('kind')
    run_impl = (lambda cs: lib.run_impl_py('c08', cs, shards=1)) if lang == 'py' else (lambda cs: lib.run_impl_js('c08', cs, shards=1))
    if kind == 'internal':
        c, e, g = eval_internal(case, code)
        ctx.compare([c], [e], [g], THEOREM, describe=describe_internal)
    elif kind == 'chars':
        mod = [[bool(x) for x in m] for m in lib.run_model(525, [lib.enc([code, ord(case['k']), case['c']])])]
        ctx.compare([case], mod, run_impl([case]), 'character classes')
    else:
        canon = dict(case, q=case['canon_q'])
        got = run_impl([canon, case])
        ctx.compare([case], [{'canon': got[0], 'lit_cols': case['lit_cols']}], [got[1]], THEOREM, rel=rel_query, describe=describe_query,
                    corrupt=lambda e: {'canon': ['CANARY'], 'lit_cols': {}})
    ctx.count(1)
