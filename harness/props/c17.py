# C17 - like(text, pattern) implements SQL LIKE exactly.
# Model: Like.v (like_seq with the per-query cache); theorems: Props/C17.v.
# Correspondence: `select like(a1, a2)` through rbql.query_table (Python) and rbql-js query_table (node);
# every row carries its own (text, pattern), so one query exercises the regex cache across many patterns.
# Second tie (props/fngen.py, job `like`): like_to_regex of both ports (and regexp_escape of rbql.js) is TRANSLATED into Gallina on every run
# (harness/translate_fn.py); the generated obligations gen_like_to_regex_eq / gen_js_like_to_regex_eq (= LikeIx.v, proved to write the text of
# Like.like_to_regex, which parse_pattern reads back) are compiled beside the correspondence run.
import itertools
import lib
from props import fngen

ALPHA = 'ab%_.*\\[(^$+?|'
THEOREM = 'C17_like_correct / C17_cache_coherent (Props/C17.v): like_seq = map SqlLike-decider'


def gen_pairs(ctx):
    rng = ctx.rng
    pairs = []
    # exhaustive small block
    maxlen = 2 if ctx.tier == 'quick' else 3
    words = [''.join(t) for n in range(maxlen + 1) for t in itertools.product(ALPHA, repeat=n)]
    if ctx.tier == 'quick':
        for t in words:
            for p in words:
                pairs.append((t, p))
    else:
        w2 = [w for w in words if len(w) <= 2]
        for t in words:
            for p in w2:
                pairs.append((t, p))
        for t in w2:
            for p in words:
                if len(p) == 3:
                    pairs.append((t, p))
    # structured random: patterns derived from the text so that matches are frequent
    nrand = 30000 if ctx.tier == 'quick' else 600000
    for _ in range(nrand):
        n = rng.randint(0, 5)
        t = ''.join(rng.choice(ALPHA) for _ in range(n))
        mode = rng.random()
        if mode < 0.5:
            p = []
            i = 0
            while i < len(t):
                r = rng.random()
                if r < 0.25:
                    p.append('_'); i += 1
                elif r < 0.45:
                    p.append('%'); i += rng.randint(0, 2)
                elif r < 0.5:
                    p.append('%')
                else:
                    p.append(t[i]); i += 1
            if rng.random() < 0.2:
                p.append('%')
            p = ''.join(p)[:5] if rng.random() < 0.7 else ''.join(p)
        else:
            p = ''.join(rng.choice(ALPHA) for _ in range(rng.randint(0, 5)))
        pairs.append((t, p))
    # patterns and texts that are also property names of the host languages' objects (a cache keyed by pattern in a plain object
    # would find inherited members), and their wildcard variants
    special = ['constructor', 'toString', 'valueOf', 'hasOwnProperty', '__proto__', 'prototype', 'length', '__class__', '__dict__', 'keys', 'get']
    for w in special:
        for p in (w, w[:-1] + '_', w[:3] + '%', '%' + w[-3:], w + '%', '_' + w[1:]):
            for t in (w, w + 'x', w[:-1], ''):
                pairs.append((t, p))
    # longer Unicode pairs, plus texts with line breaks (outside the theorem's hypothesis, inside the model)
    uni = 'ab%_.*\\é世\U0001F600 \t\n\r x'
    for _ in range(3000 if ctx.tier == 'quick' else 60000):
        t = ''.join(rng.choice(uni) for _ in range(rng.randint(0, 12)))
        if rng.random() < 0.5:
            p = ''.join(('%' if rng.random() < 0.2 else '_' if rng.random() < 0.2 else c) for c in t)
        else:
            p = ''.join(rng.choice(uni) for _ in range(rng.randint(0, 8)))
        pairs.append((t, p))
    return pairs


# Characters whose sequences are related by a Unicode EQUIVALENCE without being equal as sequences of code points: base letters and
# combining marks with precomposed twins, conjoining Hangul jamo and precomposed syllables, singleton decompositions (OHM / ANGSTROM /
# KELVIN SIGN), a composition exclusion (U+0958, which NFC itself decomposes), compatibility characters (ligature, fullwidth, circled,
# mathematical bold - astral -, micro sign) and letters with special case mappings (sharp s, long s, dotted / dotless i, final sigma).
# LIKE is defined on characters: "_ stands for exactly one character, every other character only for itself" - so two canonically
# equivalent but different sequences do NOT match each other, and a base letter followed by a combining mark is TWO characters.
EQUIV_ATOMS = ['e', 'a', 'o', 'A', 'K', 'k', 's', 'S', 'i', 'I', 'f', 'q', '\u0301', '\u0308', '\u030a', '\u0323', '\u0307', '\u0327',
               '\u00e9', '\u00e4', '\u00c5', '\u00e5', '\u1e69', '\u1e63', '\u00e7', '\u212b', '\u2126', '\u03a9', '\u212a',
               '\u1100', '\u1161', '\u11a8', '\uac00', '\uac01', '\u0958', '\u0915', '\u093c', '\ufb01', '\uff21', '\u2460', '1', '\U0001d400',
               '\u00b5', '\u03bc', '\u00df', '\u017f', '\u0130', '\u0131', '\u03c3', '\u03c2', '\u03a3', '\u01c5']


def equivalents(t):
    """the other spellings of t under the four normalisation forms and the simple case operations (may be empty)"""
    import unicodedata
    out = []
    for v in [unicodedata.normalize(f, t) for f in ('NFC', 'NFD', 'NFKC', 'NFKD')] + [t.lower(), t.upper(), t.casefold(), t.swapcase()]:
        if v != t and v not in out:
            out.append(v)
    return out


def gen_equivalence_pairs(ctx):
    """texts over EQUIV_ATOMS x patterns derived from the text OR from an equivalent spelling of it (wildcards placed per code point)"""
    rng = ctx.rng
    pairs = []

    def wild(s):
        return ''.join(('_' if rng.random() < 0.3 else '%' if rng.random() < 0.1 else ch) for ch in s)

    for _ in range(2500 if ctx.tier == 'quick' else 80000):
        t = ''.join(rng.choice(EQUIV_ATOMS) for _ in range(rng.randint(1, 5)))
        if rng.random() < 0.3:
            t = rng.choice(['caf', 'x', '10 k', '']) + t
        alts = equivalents(t)
        u = rng.choice(alts) if alts else t
        if rng.random() < 0.3:
            t, u = u, t
        form = rng.randrange(8)
        if form == 0:
            p = u                                  # an equivalent spelling as the pattern: every character stands only for itself
        elif form == 1:
            p = wild(u)
        elif form == 2:
            p = wild(t)
        elif form == 3:
            p = '_' * len(u)                       # as many characters as the OTHER spelling has
        elif form == 4:
            p = '_' * len(t)
        elif form == 5:
            k = rng.randint(0, len(u))
            p = u[:k] + '%'
        elif form == 6:
            k = rng.randint(0, len(t))
            p = rng.choice(['%', '']) + t[k:] if rng.random() < 0.5 else t[:k] + '_' * (len(t) - k)
        else:
            k = rng.randint(0, len(u))
            p = '%' + u[k:]
        pairs.append((t, p))
    return pairs


LIT_TOKENS = ['$$', '$&', '$`', '$1', '$<a>', '$0', '%', '_', '%', '_', 'a', 'b', '$', '&', '.', '*', '(', '[', '+', '?', '|', '^', '{0}', '{}']


def gen_literal_cases(ctx):
    """the pattern written as a string LITERAL in the query text (the usual way to use like()): it travels through the query
    rewriting (literals are cut out and put back), where '$' sequences, braces and quotes of the other kind must stand for themselves"""
    rng = ctx.rng
    cases = []
    for _ in range(250 if ctx.tier == 'quick' else 20000):
        q = rng.choice(['"', "'"])
        toks = LIT_TOKENS + (["$'", "'"] if q == '"' else ['$"', '"'])
        p = ''.join(rng.choice(toks) for _ in range(rng.randint(1, 4)))
        texts = set(['', p, p.replace('$$', '$'), p.replace('$&', '&'), p.replace('%', '').replace('_', 'a')])
        for _ in range(6):
            t = ''.join((''.join(rng.choice('ab$&') for _ in range(rng.randint(0, 2))) if ch == '%' else rng.choice('ab$&') if ch == '_' else ch) for ch in p)
            texts.add(t)
            texts.add(t.replace('$$', '$', 1))
            texts.add(t + rng.choice(['', '$', 'a']))
        cases.append({'rows': [[t, p] for t in sorted(texts)], 'literal': p, 'quote': q})
    return cases


def to_cases(pairs, rng):
    rng.shuffle(pairs)
    cases = []
    i = 0
    while i < len(pairs):
        n = rng.choice([1, 7, 50, 400])
        cases.append({'rows': [list(x) for x in pairs[i:i + n]]})
        i += n
    return cases


def bmp_only(case):
    return all(ord(ch) < 0x10000 for r in case['rows'] for s in r for ch in s)


def run(ctx):
    gen = fngen.start(ctx, 'like')      # translation of like_to_regex + generated obligations, beside the correspondence run
    failure = None
    try:
        run_correspondence(ctx)
    except lib.CheckFailure as e:
        failure = e
    fngen.finish(ctx, gen, search_more=(lambda langs: extended_search(ctx, langs)) if failure is None else None)
    if failure is not None:
        raise failure


def extended_search(ctx, langs):
    """a generated obligation broke and the tier's run found no failing input: the thorough tier's pair generator (capped) on the legs whose
    translation broke, through the public path"""
    class T_:
        tier = 'thorough'
        rng = ctx.rng
    pairs = gen_pairs(T_)
    ctx.rng.shuffle(pairs)
    cases = to_cases(pairs[:400000], ctx.rng)
    for name in langs:
        fl = 0 if name == 'py' else 1
        args = [lib.enc([fl, [[t, p] for t, p in c['rows']]]) for c in cases]
        model = lib.run_model(17, args)
        exp = [[bool(b) for b in m] for m in model]
        got = lib.run_impl_py('c17', cases) if fl == 0 else lib.run_impl_js('c17', cases, shards=8)
        ctx.compare([dict(c, impl=name) for c in cases], exp, got, THEOREM, shrink=shrink,
                    describe=lambda c, e, g: 'like() differs from SQL LIKE on %s (extended search): %s' % (c['impl'], first_diff(c, e, g)))
        ctx.stat('extended_search_pairs_' + name, sum(len(c['rows']) for c in cases))


def run_correspondence(ctx):
    pairs = gen_pairs(ctx)
    ctx.rule = ('all (text, pattern) over the 14-letter alphabet {a b %% _ . * \\ [ ( ^ $ + ? |} up to length %s exhaustively, '
                'structured random pairs up to length 5 (pattern derived from text), random Unicode pairs incl. LF/CR/U+2028; '
                'non-trivial = distinct pair whose pattern contains %% or _ and whose text is non-empty') % ('2x2' if ctx.tier == 'quick' else '3x2 and 2x3')
    eq_pairs = gen_equivalence_pairs(ctx)
    for t, p in eq_pairs:
        if equivalents(t) or equivalents(p):
            ctx.stat('pairs_with_a_distinct_unicode_equivalent_spelling')
    cases = to_cases(pairs + eq_pairs, ctx.rng) + gen_literal_cases(ctx)
    # the same class with the pattern written as a string literal in the query text (non-ASCII text inside the rewritten query)
    by_pat = {}
    for t, p in eq_pairs[:len(eq_pairs) // 8]:
        by_pat.setdefault(p, set()).update([t, p] + equivalents(t)[:2] + equivalents(p)[:2])
    cases += [{'rows': [[t, p] for t in sorted(ts)], 'literal': p, 'quote': ctx.rng.choice(['"', "'"])} for p, ts in sorted(by_pat.items())]
    ctx.rule += ('; Unicode equivalence class: texts over base letters + combining marks / precomposed letters / Hangul jamo and syllables / singleton and compatibility '
                 'characters / special case mappings x patterns derived from the text or from a canonically / compatibility / case equivalent spelling of it')
    ctx.rule += '; patterns written as string literals in the query text (tokens incl. $$ $& $` $\' $1 {0} and the other quote) x texts derived from them'
    for fl, name in ((0, 'py'), (1, 'js')):
        cs = cases      # astral characters on both ports: `_` is one CHARACTER (rbql-js compiles its patterns with the u flag since D19)
        args = [lib.enc([fl, [[t, p] for t, p in c['rows']]]) for c in cs]
        model = lib.run_model(17, args)
        exp = [[bool(b) for b in m] for m in model]
        got = lib.run_impl_py('c17', cs) if fl == 0 else lib.run_impl_js('c17', cs, shards=8)
        tagged = [dict(c, impl=name) for c in cs]
        ctx.compare(tagged, exp, got, THEOREM, shrink=shrink,
                    describe=lambda c, e, g: 'like() differs from SQL LIKE on %s: %s' % (c['impl'], first_diff(c, e, g)))
        ctx.cross_check_vm(17, args, model, n=60)
        for c, e in zip(cs, exp):
            ctx.count(len(c['rows']))
            for (t, p), b in zip(c['rows'], e):
                if t and ('%' in p or '_' in p):
                    ctx.nontriv((t, p))
                ctx.stat('%s_%s' % (name, 'match' if b else 'nomatch'))
            if c.get('literal') is not None:
                ctx.stat('%s_literal_pattern_queries' % name)
        ctx.sample_safe(lambda: {'impl': name, 'rows': cs[0]['rows'][:4], 'model': exp[0][:4], 'implementation': got[0][:4]})


def eval_case(case):
    fl = 0 if case.get('impl', 'py') == 'py' else 1
    args = [lib.enc([fl, [[t, p] for t, p in case['rows']]])]
    exp = [bool(b) for b in lib.run_model(17, args)[0]]
    got = (lib.run_impl_py('c17', [case]) if fl == 0 else lib.run_impl_js('c17', [case]))[0]
    return exp, got


def shrink(c, e, g):
    """a failing query of many rows -> the first single row that fails on its own, else the shortest failing prefix"""
    for row in c['rows'][:400]:
        c1 = dict(c, rows=[row])
        e1, g1 = eval_case(c1)
        if e1 != g1:
            return c1, e1, g1
    return None


def first_diff(c, e, g):
    if not isinstance(g, list) or len(g) != len(e):
        return 'result %r' % (g,)
    for (t, p), a, b in zip(c['rows'], e, g):
        if a != b:
            return 'text=%r pattern=%r model/spec=%r implementation=%r' % (t, p, a, b)
    return '?'


def replay(ctx, case):
    if 'fngen_obligation' in case:
        return fngen.replay(ctx, case)
    fl = 0 if case.get('impl', 'py') == 'py' else 1
    args = [lib.enc([fl, [[t, p] for t, p in case['rows']]])]
    exp = [[bool(b) for b in lib.run_model(17, args)[0]]]
    got = lib.run_impl_py('c17', [case]) if fl == 0 else lib.run_impl_js('c17', [case])
    ctx.count(len(case['rows']))
    ctx.compare([case], exp, got, THEOREM, describe=lambda c, e, g: 'like() differs from SQL LIKE: %s' % first_diff(c, e, g))
