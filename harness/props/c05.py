# C05 - UPDATE emits every record once, changing only assigned fields of matching rows.
# Model: Engine.v (process_update, apply_assigns, NU); theorems: Props/C05.v.
import itertools
import importlib
import lib
import qgen
import enginecheck as ec

THEOREM = 'C05_shape / C05_untouched / C05_simultaneous / C05_bad_field (Props/C05.v)'


# Characters that some library routine or other treats as a LINE BOUNDARY or as white space (str.splitlines, str.strip, \s, the
# Unicode separator classes) although they are ordinary characters of a string literal: VT FF FS GS RS US NEL LS PS, other C0 / C1
# controls, DEL, no-break / ideographic / zero-width spaces, the BOM.  They are written RAW into the query text (the renderer spells
# only LF, CR and TAB as escapes).  Not in the set: raw CR and NUL - Python's own compile() reads a raw CR as a newline and refuses
# NUL, so a literal holding one is a SyntaxError of the generated code in EVERY clause on the unchanged tree (notes/s2.md).
# Seeded change C05-13 cut the generated UPDATE statements at these characters (splitlines instead of split('\n')).
RAW_CHARS = ['\x0b', '\x0c', '\x1c', '\x1d', '\x1e', '\x1f', '\x85', '\u2028', '\u2029', '\x01', '\x08', '\x1b', '\x7f', '\xa0', '\u1680', '\u3000', '\u200b', '\ufeff']


def raw_text(r):
    return ''.join(r.choice(RAW_CHARS) if r.random() < 0.6 else r.choice(['x', 'y', ' ', 'a1', '=']) for _ in range(r.randint(1, 3)))


def raw_literals(r, g, cx, na, A, asg, where):
    """string literals (and cells) holding such characters: as a whole right-hand side, inside a concatenation / conditional, in WHERE"""
    k = r.randrange(len(asg))
    s = raw_text(r)
    x = r.random()
    if x < 0.35:
        e = ('lit', s)
    elif x < 0.6:
        e = ('add', ('fld', 'a', r.randint(0, na - 1)), ('lit', s))
    elif x < 0.8:
        e = ('add', ('lit', s), ('lit', raw_text(r)))
    else:
        e = ('cond', g.bool_expr(cx, 0), ('lit', s), ('fld', 'a', r.randint(0, na - 1)))
    asg[k] = (asg[k][0], e)
    for row in A:
        if row and r.random() < 0.3:
            row[r.randrange(len(row))] = r.choice([s, raw_text(r)])
    if r.random() < 0.3:
        where = (r.choice(['eq', 'ne']), ('fld', 'a', r.randint(0, na - 1)), ('lit', r.choice([s, raw_text(r)])))
    return where


def gen_case(ctx, g):
    r = ctx.rng
    A = g.table(max_rows=6, max_cols=4, ragged_p=0.4)
    na = max([len(x) for x in A] + [1])
    B, join, nb = None, None, None
    if r.random() < 0.3:
        nb = r.randint(1, 2)
        # (key cells include the EMPTY string: a falsy key is a key like any other - seeded change C05-11 skipped such B records)
        keys = ['a', 'b', '1', ''] if r.random() < 0.5 else ['a', 'b', '1']
        B = g.rect_table(r.randint(0, 4), nb, keys)
        for row in A:
            if row and r.random() < 0.8:
                row[0] = r.choice(keys)
        kind, sp = r.choice([('inner', 'join'), ('inner', 'inner join'), ('left', 'left join'), ('left', 'left outer join')])
        join = {'kind': kind, 'spelling': sp, 'lhs': [0], 'rhs': [0]}
    cx = {'na': na, 'nb': nb, 'update': True}
    asg = []
    for _ in range(r.randint(1, 3)):
        idx = r.randint(0, na - 1 + (1 if r.random() < 0.1 else 0))
        x = r.random()
        if x < 0.35:
            e = ('fld', 'a', r.randint(0, na - 1))          # e.g. the swap a1 = a2, a2 = a1
        elif x < 0.5:
            e = ('NU',) if r.random() < 0.5 else ('NR',)
        else:
            e = g.any_expr(cx, 1)
        asg.append((idx, e))
    where = g.bool_expr(cx, 1) if r.random() < 0.5 else None
    if join is not None and r.random() < 0.4:
        # a WHERE whose top-level operator binds looser than `and` (the template combines it with the has-partner test)
        where = (r.choice(['or', 'or', 'cond']), g.bool_expr(cx, 0), g.bool_expr(cx, 0)) if r.random() < 0.8 else where
        if where and where[0] == 'cond':
            where = ('cond', g.bool_expr(cx, 0), g.bool_expr(cx, 0), g.bool_expr(cx, 0))
    tags = []
    if r.random() < 0.12:
        where = raw_literals(r, g, cx, na, A, asg, where)
        tags.append('raw_literal')
    qa = {'kind': ('update', asg), 'where': where, 'join': join, 'update_set': r.random() < 0.5}
    return ec.make_case(r, qa, A, B, also_table=True, tags=tags)


def exhaustive_cases(ctx, limit):
    cells = ['a', 'b']
    rows = [[c] for c in cells] + [[c, d] for c in cells for d in cells]
    tables = [list(t) for n in range(0, 3) for t in itertools.product(rows, repeat=n)]
    assigns = [[(0, ('fld', 'a', 1)), (1, ('fld', 'a', 0))], [(1, ('lit', 'z'))], [(0, ('NU',))], [(0, ('add', ('fld', 'a', 0), ('lit', 'x'))), (0, ('add', ('fld', 'a', 0), ('lit', 'y')))],
               [(2, ('lit', 'q'))], [(1, ('fld', 'a', 1)), (0, ('NR',))]]
    wheres = [None, ('eq', ('fld', 'a', 0), ('lit', 'a')), ('eq', ('NF',), ('lit', 2))]
    allc = list(itertools.product(range(len(tables)), range(len(assigns)), range(len(wheres))))
    if limit is not None and len(allc) > limit:
        allc = ctx.rng.sample(allc, limit)
    out = []
    for ti, ai, wi in allc:
        qa = {'kind': ('update', assigns[ai]), 'where': wheres[wi], 'join': None}
        out.append(ec.make_case(None, qa, [list(x) for x in tables[ti]], None))
    return out


def run(ctx):
    g = qgen.Gen(ctx.rng)
    n = 4000 if ctx.tier == 'quick' else 500000
    cases = [gen_case(ctx, g) for _ in range(n)]
    cases += exhaustive_cases(ctx, 2000 if ctx.tier == 'quick' else None)
    ctx.rule = ('UPDATE [SET] lists of 1-3 assignments (targets aN / a[N], also beyond the record: bad-field errors at every position) with right-hand sides over the original record, '
                'NU, NR, literals (12%%: string literals holding raw VT / FF / FS..US / NEL / U+2028 / U+2029 / other controls and Unicode spaces); WHERE 50%%; INNER/LEFT JOIN 30%%; ragged tables; bounded enumeration: all tables <= 2 rows over 1-2 cells {a,b} x 6 assignment lists (swap, overwrite twice, NU, bad field) x 3 WHEREs (%s); '
                'non-trivial = distinct case with >= 1 output row or an error') % ('sampled' if ctx.tier == 'quick' else 'complete')
    exp, got = ec.evaluate(ctx, cases, THEOREM)
    ctx.stat('raw_control_and_separator_characters_in_literals', sum(1 for c in cases if 'raw_literal' in c.get('tags', ())))
    for c, e, g_ in list(zip(cases, exp, got))[:3]:
        ctx.sample({'query': c['q'], 'A': c['A'], 'B': c['B'], 'model': e, 'implementation': {k2: g_.get(k2) for k2 in ('events', 'pulls', 'error')} if isinstance(g_, dict) else g_})
    # rbql-js/rbql.js is an anchor of this property too: the JavaScript leg runs language-neutral queries of this shape through rbql-js
    importlib.import_module('props.c19').js_leg(ctx, THEOREM, 'update', 600 if ctx.tier == 'quick' else 60000)
    # tables with column names (named target spellings), joins with a named join table, both ports, list and file front ends
    importlib.import_module('props.c05hdr').run(ctx, THEOREM)


def replay(ctx, case):
    if case.get('part') == 'named':
        return importlib.import_module('props.c05hdr').replay(ctx, case, THEOREM)
    if case.get('impl') == 'js':
        return importlib.import_module('props.c19').replay(ctx, case)
    ec.replay(ctx, case, THEOREM)
