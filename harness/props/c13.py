# C13 - Same query, same data => same result through every front-end and backend.
# Model: the engine model (rows), the header model (Header.v) and Frontends.v (CLI outcome); theorems: Props/C13.v.
# Every entry point is compared with the MODEL's prediction for that entry point (not merely with the others).
import json
import lib
import qmodel
import qgen
import enginecheck as ec

THEOREM = 'C13_cli_success / C13_cli_failure (Props/C13.v) + engine and header models: every entry point yields the model table'
CELLS = ['a', 'b', 'ab', 'k', 'x1', '12', 'zz', 'A', 'a,b', 'q"r', ' sp ', 'é', '"', ',', 'x y', '世界', 'ß€']   # incl. cells the quoted dialect must quote
ENTRY = ['query_table', 'query', 'query_csv', 'cli_file', 'cli_stdio', 'cli_stdio_tsv', 'cli_file_csv', 'pandas', 'sqlite']


def gen_case(ctx):
    r = ctx.rng
    na = r.randint(2, 3) if r.random() < 0.85 else 1      # (one-column tables too: with an EMPTY cell the CSV line is an empty line - still a record; seeded change C13-12)
    hdr = r.sample(['id', 'name', 'val', 'grp', 'x1'], na)
    cells = CELLS + [''] * (6 if r.random() < 0.3 else 0)
    A = [[r.choice(cells) for _ in range(na)] for _ in range(r.choice([0, 1, 2, 3, 4, 5]))]     # zero-row tables included
    join = r.random() < 0.25
    hdrB, B = None, None
    if join:
        hdrB = ['k', 'w']
        B = [[r.choice(CELLS[:4] + ['a,b']), 'w%d' % i] for i in range(r.randint(0, 3))]
    # type-agnostic expressions over string cells: fields, concatenation, literals, comparisons of strings, like
    def fld():
        i = r.randint(0, na - 1)
        sp = r.random()
        txt = 'a%d' % (i + 1) if sp < 0.4 else ('a.%s' % hdr[i] if sp < 0.7 else 'a["%s"]' % hdr[i])
        return ('fld', 'a', i), txt, ('(0 0 %d)' % i) if sp < 0.4 else ('(1 0 %s)' % lib.enc(hdr[i]) if sp < 0.7 else '(2 0 %s)' % lib.enc(hdr[i]))
    def name_of(side, i, names):
        sp = r.random()
        return '%s%d' % (side, i + 1) if sp < 0.3 else ('%s.%s' % (side, names[i]) if sp < 0.7 else '%s["%s"]' % (side, names[i]))
    shape = r.random()
    if shape < 0.1 and not join and na > 1:
        # EXCEPT with columns spelled by name (also over a zero-row table: the names must still resolve)
        idxs = sorted(set(r.randint(0, na - 1) for _ in range(r.randint(1, 2))))[:na - 1]      # at least one column stays: a zero-width record has no CSV form
        q = 'select * except %s' % ', '.join(name_of('a', i, hdr) for i in idxs)
        qa = {'kind': ('except', idxs), 'where': None, 'join': None}
        return {'q': q, 'qa': qa, 'hdr': hdr, 'A': A, 'hdrB': None, 'B': None, 'hq': '(1 (%s) 0)' % ' '.join(map(str, idxs)), 'expect_fail': False}
    if shape < 0.2 and not join:
        # UPDATE with the target spelled by name
        i, j = r.randint(0, na - 1), r.randint(0, na - 1)
        q = 'update %s = %s + "-"' % (name_of('a', i, hdr), name_of('a', j, hdr))
        qa = {'kind': ('update', [(i, ('add', ('fld', 'a', j), ('lit', '-')))]), 'where': None, 'join': None}
        return {'q': q, 'qa': qa, 'hdr': hdr, 'A': A, 'hdrB': None, 'B': None, 'hq': '(2)', 'expect_fail': False}
    if shape < 0.3 and not join and A:
        # an aggregate with GROUP BY under a bound smaller than the number of groups: the writers behind TOP must still be finished
        k = r.randint(0, na - 1)
        top = r.choice([None, 1, 1, 2])
        q = 'select %s%s, count(*) group by %s' % ('top %d ' % top if top is not None else '', name_of('a', k, hdr), name_of('a', k, hdr))
        qa = {'kind': ('select', [('expr', ('fld', 'a', k)), ('agg', 'COUNT', 'count', ('lit', 1), 'star')]), 'where': None, 'join': None,
              'group': [('fld', 'a', k)], 'top': top}
        hk = name_of  # (header item of the key column: by position or by name, same column info)
        return {'q': q, 'qa': qa, 'hdr': hdr, 'A': A, 'hdrB': None, 'B': None, 'hq': '(0 ((0 0 %d) (7)) 0)' % k, 'expect_fail': False}
    items, texts, hitems = [], [], []
    for _ in range(r.randint(1, 3)):
        x = r.random()
        if x < 0.55:
            e, t, h = fld()
        elif x < 0.66:
            e1, t1, _ = fld()
            e, t, h = ('add', e1, ('lit', '-')), '%s + "-"' % t1, '(7)'
        elif x < 0.72:
            # looks INSIDE the string: a front-end that decodes the bytes differently (e.g. another default encoding) shows here
            e1, t1, _ = fld()
            e, t, h = ('len', e1), 'len(%s)' % t1, '(7)'
        elif x < 0.76:
            # values of different types that are EQUAL as Python objects (True == 1, NR is an int): the text written for a value is the
            # text of THAT value through every front-end (seeded change C13-11: a cache of rendered cells keyed by the raw value)
            e1, t1, _ = fld()
            v = r.choice(CELLS[:4])
            e, t, h = r.choice([(('eq', e1, ('lit', v)), '%s == "%s"' % (t1, v), '(7)'), (('NR',), 'NR', '(3 %s)' % lib.enc('NR')),
                                (('eq', ('NR',), ('lit', 1)), 'NR == 1', '(7)'), (('lit', 1), '1', '(7)')])
        elif x < 0.8 and not join:
            items.append(('star',)); texts.append('*'); hitems.append('(4)')
            continue
        elif x < 0.86 and join:
            # b.* / * over the join table (also the one with a header and NO records, under LEFT JOIN: one empty cell per join column, D27)
            if r.random() < 0.5:
                items.append(('starb',)); texts.append('b.*'); hitems.append('(6)')
            else:
                items.append(('star',)); texts.append('*'); hitems.append('(4)')
            continue
        elif x < 0.9 and join:
            e, t, h = ('fld', 'b', 1), 'b2', '(0 1 1)'
        else:
            e, t, h = ('lit', 'c'), '"c"', '(7)'
        items.append(('expr', e)); texts.append(t); hitems.append(h)
    if r.random() < 0.2:
        # ... and side by side in one record: 1 next to True, 0 next to False
        for e, t, h in r.choice([[(('NR',), 'NR', '(3 %s)' % lib.enc('NR')), (('eq', ('NR',), ('lit', 1)), 'NR == 1', '(7)')],
                                 [(('eq', ('NR',), ('lit', 1)), 'NR == 1', '(7)'), (('lit', 1), '1', '(7)'), (('lit', 0), '0', '(7)')],
                                 [(('lit', 0), '0', '(7)'), (('eq', ('NR',), ('lit', 1)), 'NR == 1', '(7)'), (('NR',), 'NR', '(3 %s)' % lib.enc('NR'))]]):
            items.append(('expr', e)); texts.append(t); hitems.append(h)
    where, wtxt = None, ''
    if r.random() < 0.4:
        e1, t1, _ = fld()
        v = r.choice(CELLS[:8])
        op = r.choice(['ne', 'eq', 'lt'])
        where = (op, e1, ('lit', v))
        wtxt = ' where %s %s "%s"' % (t1, {'ne': '!=', 'eq': '==', 'lt': '<'}[op], v)
    order, otxt = None, ''
    if r.random() < 0.4:
        e1, t1, _ = fld()
        rev = r.random() < 0.5
        order = ([e1], rev)
        otxt = ' order by %s%s' % (t1, ' desc' if rev else '')
    distinct = 1 if r.random() < 0.2 else 0
    top = r.choice([None, None, 1, 2])
    jq, jtxt = None, ''
    if join:
        k = r.randint(0, na - 1)
        # INNER or LEFT JOIN; 'hw': the join header's width - LEFT JOIN's all-None record has one field per join column name (fix c71773a,
        # finding D27; Join.widen), which shows when the join table has a header and NO records
        jkind, jsp = r.choice([('inner', 'join'), ('left', 'left join')])
        if jkind == 'left' and r.random() < 0.4:
            B = []
        jq = {'kind': jkind, 'spelling': jsp, 'lhs': [k], 'rhs': [0], 'hw': len(hdrB)}
        jtxt = ' %s b on %s == %s' % (jsp, name_of('a', k, hdr), name_of('b', 0, hdrB))      # keys by position or by name (also over zero-row tables)
    fail = r.random() < 0.08
    if fail:
        items.append(('expr', ('int', ('fld', 'a', 0)))); texts.append('int(a1 + "x")'); hitems.append('(7)')
        items[-1] = ('expr', ('int', ('add', ('fld', 'a', 0), ('lit', 'x'))))
    q = 'select %s%s%s%s%s%s%s' % ('top %d ' % top if top is not None else '', 'distinct ' if distinct else '', ', '.join(texts), jtxt, wtxt, otxt, '')
    qa = {'kind': ('select', items), 'where': where, 'join': jq, 'order': order, 'distinct': distinct, 'top': top}
    return {'q': q, 'qa': qa, 'hdr': hdr, 'A': A, 'hdrB': hdrB, 'B': B, 'hq': '(0 (%s) 0)' % ' '.join(hitems), 'expect_fail': fail}


def gen_dup_case(ctx):
    """DISTINCT over records that really repeat, whose values the CSV writer must quote or stringify (cells with the separator / a quote,
    len(), NR-free ints): every front-end that ends in a CSV writer must still drop the repeats (seeded change C13-9: DISTINCT remembered
    the record after the CSV writer had rewritten it in place; it had been caught by chance only)"""
    r = ctx.rng
    na = r.randint(1, 3)
    hdr = r.sample(['id', 'name', 'val', 'grp', 'x1'], na)
    pool = [[r.choice(['a,b', 'q"r', ',', '"', 'k', 'x y']) for _ in range(na)] for _ in range(2)]
    A = [list(r.choice(pool)) for _ in range(r.randint(3, 6))]
    items, texts, hitems = [], [], []
    for _ in range(r.randint(1, 2)):
        i = r.randint(0, na - 1)
        if r.random() < 0.7:
            items.append(('expr', ('fld', 'a', i))); texts.append('a%d' % (i + 1)); hitems.append('(0 0 %d)' % i)
        else:
            items.append(('expr', ('len', ('fld', 'a', i)))); texts.append('len(a%d)' % (i + 1)); hitems.append('(7)')
    qa = {'kind': ('select', items), 'where': None, 'join': None, 'order': None, 'distinct': 1, 'top': None}
    return {'q': 'select distinct ' + ', '.join(texts), 'qa': qa, 'hdr': hdr, 'A': A, 'hdrB': None, 'B': None, 'hq': '(0 (%s) 0)' % ' '.join(hitems), 'expect_fail': False}


def model(cases):
    args = [qmodel.enc_run(0, c['qa'], None, c['A'], c['B'], None) for c in cases]
    mres = lib.run_model(300, args)
    hargs = []
    for c in cases:
        ih = '((%s))' % ' '.join(lib.enc(s) for s in c['hdr'])
        jh = '()' if c['hdrB'] is None else '((%s))' % ' '.join(lib.enc(s) for s in c['hdrB'])
        hargs.append('(%s %s %s)' % (ih, jh, c['hq']))
    hres = lib.run_model(550, hargs)
    exp = []
    for m, h in zip(mres, hres):
        o = qmodel.dec_outcome(m)
        if o is None:
            exp.append(None)
            continue
        rows = [['' if v is None else str(v) for v in e[1]] for e in o['events'] if e[0] == 'W' and e[2]]
        exp.append({'rows': rows, 'header': [lib.dec_str(s) for s in h[1]] if h[0] == 1 else None, 'error': o['error']})
    return args, mres, exp


def csv_render(tables):
    """header + rows -> CSV text, rendered by the CSV writer MODEL (CsvWriter.v, entry 120: python flavour, quoted, ',', utf-8)"""
    args = [lib.enc([0, 1, ',', 1, lib.Opt(None), [[lib.Raw('(0 %s)' % lib.enc(x)) for x in r] for r in t]]) for t in tables]
    res = lib.run_model(120, args)
    return [''.join(lib.dec_str(l) + '\n' for l in m[0]) for m in res]


def csv_parse(texts_delims):
    """CSV output texts -> tables, split by the splitter MODEL (Csv.v smart_split, entry 100): quoted for ',', simple for TAB"""
    out, args, index = [], [], []
    for i, (text, d) in enumerate(texts_delims):
        lines = text.split('\n')
        if lines and lines[-1] == '':
            lines.pop()
        args.append(lib.enc([1 if d == ',' else 0, d, 0, lines]))
    res = lib.run_model(100, args) if args else []
    for m in res:
        out.append([[lib.dec_str(f) for f in x[0]] for x in m])
    return out


def check_entry(name, e, g):
    """g = what entry point `name` returned; e = model prediction"""
    if name.startswith('cli'):
        if e['error'] is not None:
            # exits non-zero with an `Error [type]` line on stderr; stdout may hold the table lines emitted before the failure
            return (g['rc'] != 0 and g['stderr_first'] is not None and g['stderr_first'].startswith('Error [')
                    and (g['header'] is None or g['header'] == e['header']))
        return (g['rc'] == 0 and g['stdout_clean'] and g['header'] == e['header'] and g['rows'] == e['rows']
                and all(k == 'warning' for k in g['stderr_kinds']))
    if e['error'] is not None:
        return g.get('error') is not None and g['error'][0] == e['error'][0]
    return g.get('error') is None and g['header'] == e['header'] and g['rows'] == e['rows']


def parse_outputs(got):
    """replace every CSV text an entry point produced by the table the splitter model reads from it"""
    todo = []
    for g in got:
        if isinstance(g, dict):
            for n in ENTRY:
                x = g.get(n)
                if isinstance(x, dict) and 'text' in x:
                    todo.append(x)
    tables = csv_parse([(x['text'], x['delim']) for x in todo])
    for x, t in zip(todo, tables):
        x['header'] = t[0] if t else None
        x['rows'] = t[1:]
        if 'rc' in x and x['rc'] != 0:
            x['stdout_len_on_failure'] = len(x['text'])


def rel(c, e, g):
    if e is None:
        return True
    if not isinstance(g, dict) or 'query_table' not in g:
        return False
    return all(check_entry(n, e, g[n]) for n in ENTRY)


def describe(c, e, g):
    bad = [n for n in ENTRY if not (isinstance(g, dict) and n in g and check_entry(n, e, g[n]))] if e else []
    return 'query %r over header %s rows %s: model %s; entry points that differ: %s' % (
        c['q'], c['hdr'], json.dumps(c['A']), json.dumps(e)[:300], json.dumps({n: (g.get(n) if isinstance(g, dict) else g) for n in bad})[:500])


def run(ctx):
    n = 120 if ctx.tier == 'quick' else 10000
    cases = [gen_case(ctx) for _ in range(n)]
    cases += [gen_dup_case(ctx) for _ in range(n // 10)]
    args, mres, exp = model(cases)
    ins = csv_render([[c['hdr']] + c['A'] for c in cases])
    joins = csv_render([([c['hdrB']] + c['B']) if c['B'] is not None else [] for c in cases])
    for c, a, b in zip(cases, ins, joins):
        c['csv_in'], c['csv_join'] = a, b
    got = lib.run_impl_py('c13', cases, extra_env={'VERIF_SCRATCH': lib.BUILD}, timeout=3000)
    parse_outputs(got)
    ctx.compare(cases, exp, got, THEOREM, rel=rel, describe=describe,
                corrupt=lambda e: {'rows': [['CANARY']], 'header': None, 'error': None})
    ctx.cross_check_vm(300, args, mres, n=30)
    for c, e in zip(cases, exp):
        ctx.count(len(ENTRY))
        if e is None:
            ctx.stat('dropped_unmodelled')
            continue
        ctx.stat('error' if e['error'] else 'ok')
        ctx.stat('join' if c['B'] is not None else 'nojoin')
        if e['error'] or e['rows']:
            ctx.nontriv((c['q'], json.dumps(c['A']), json.dumps(c['B'])))
    # the sqlite entry points (library and command line) on cells with line breaks: the RFC dialect end to end
    __import__('importlib').import_module('props.c13s').run(ctx, THEOREM)
    # the rbql-js command line and library next to the rbql-py command line on one query text, failures of every layer included (Error [type])
    __import__('importlib').import_module('props.c13js').run(ctx, THEOREM)
    ctx.sample({'query': cases[0]['q'], 'header': cases[0]['hdr'], 'A': cases[0]['A'], 'model': exp[0],
                'implementation': {k: got[0].get(k) for k in ('query_table', 'cli_stdio', 'sqlite')} if isinstance(got[0], dict) else got[0]})
    ctx.rule = ('type-agnostic queries over rectangular string tables with a header (fields as aN / a.name / a["name"], concatenation, literals, string comparisons; WHERE, ORDER BY, DISTINCT, TOP, '
                'JOIN 25%%, failing queries 8%%) through 9 entry points {query_table, query + user iterator/writer/registry, query_csv, python -m rbql (file->file, stdin->stdout, '
                '--out-format input/csv/tsv), query_pandas_dataframe, sqlite + query_sqlite_to_csv}; each compared with the model table and header; CLI: exit status, stdout carries only the table, '
                'stderr `Error [` on failure; %d queries x 9 entry points; plus (props/c13js.py) one query text through node rbql-js/cli_rbql.js (file and stdin/stdout), rbql-js query_csv and '
                'python -m rbql, succeeding and failing at every layer (engine parsing / execution errors from the model, missing join file, undecodable input, bad delimiter / encoding): '
                'outcome = Frontends.cli_outcome of the model result, `Error [type]` label included; non-trivial = distinct case with rows or an error') % n
    # adapter paths no other run reaches (bounded reads, _write_all, pandas join lookup, rbql-js writer failures) - coverage gaps, notes/covgap.md
    __import__('importlib').import_module('props.cov_csvmisc').run(ctx, THEOREM)


def replay(ctx, case):
    if case.get('part') == 'cov_csvmisc':
        return __import__('importlib').import_module('props.cov_csvmisc').replay(ctx, case, THEOREM)
    if case.get('part') == 'c13js':
        return __import__('importlib').import_module('props.c13js').replay(ctx, case, THEOREM)
    if case.get('part') in ('c13s', 'c13mono'):
        return __import__('importlib').import_module('props.c13s').replay(ctx, case, THEOREM)
    args, mres, exp = model([case])
    case['csv_in'] = csv_render([[case['hdr']] + case['A']])[0]
    case['csv_join'] = csv_render([([case['hdrB']] + case['B']) if case['B'] is not None else []])[0]
    got = lib.run_impl_py('c13', [case], shards=1, extra_env={'VERIF_SCRATCH': lib.BUILD})
    parse_outputs(got)
    ctx.count(len(ENTRY))
    ctx.compare([case], exp, got, THEOREM, rel=rel, describe=describe)
