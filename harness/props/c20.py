# C20 - The JavaScript stream reader is independent of chunk boundaries.
# Model: ReaderJs.v (run_js_stream / run_js_bulk / lines_js), Utf8.v; theorems: Props/C20.v.
# Correspondence:
#  (1) exhaustive: every input over {a " , LF CR #} up to n bytes x policies x comment prefix: the implementation is run on ALL 2^(n-1)
#      byte-level partitions, in two delivery modes (one chunk per tick / all chunks back to back), and on the bulk path; every run must
#      give the value of the model's bulk run (C20_stream_is_bulk: any partition, any continuation schedule = bulk = spec).
#  (2) UTF-8 samples with 2-, 3-, 4-byte characters and a BOM, all partitions; invalid / truncated inputs: rejected on every partition
#      and by the bulk path (C20_utf8_streaming / C20_utf8_invalid_rejected).
#  (3) a sample of concrete partitions with random continuation schedules: the stream-level model itself (run_js_stream, lines_js,
#      decode_streaming) vs the implementation, including object-mode streams that deliver EMPTY chunks (faithful model).
#  (4) one large generated file crossing the 64 KiB default chunk size through fs.createReadStream vs bulk vs model.
# Field splitting belongs to another area: for quoted policies the model's split function is a finite table obtained from
# rbql-js csv_utils.smart_split for exactly the logical rows the MODEL asks for.
import itertools
import lib
from props import c12 as p12

ALPHA = 'a",\n\r#'
THEOREM = 'C20_stream_is_bulk / C20_lines / C20_utf8_streaming (Props/C20.v): run_js_stream cfg sched chunks = run_js_bulk cfg (concat chunks)'
POLICIES = [('simple', ','), ('quoted', ','), ('quoted_rfc', ','), ('monocolumn', '')]
ENC_TAG = {'utf-8': 1, 'binary': 2}
PY_CODEC = {'utf-8': 'utf-8', 'binary': 'latin-1'}
KEYS = ('policy', 'delim', 'comment', 'header', 'modifier', 'encoding')


def cfg_sx(c):
    return [c['policy'] == 'quoted_rfc', lib.Opt(c['comment']), bool(c['header']), ENC_TAG[c['encoding']], lib.Opt(c.get('modifier'))]


def dec_jresult(m):
    if m == 4040404:
        return ['model-ERR']
    if m[0] == 0:
        return p12.dec_result(m)
    if m[0] == 1:
        return ['err', 'RbqlIOHandlingError', m[1], m[2]]
    if m[0] == 2:
        return ['err', 'RbqlIOHandlingError', 'utf8']
    return ['model-stuck']


def decoded_text(c):
    try:
        return bytes(c['data']).decode(PY_CODEC[c['encoding']])
    except UnicodeDecodeError:
        return None


def tables_for(cases):
    """split tables (line -> fields, warning) from rbql-js smart_split for the logical rows the model computes"""
    idx = [i for i, c in enumerate(cases) if p12.needs_table(c) and decoded_text(c) is not None]
    rows = lib.run_model(204, [lib.enc([cfg_sx(cases[i]), decoded_text(cases[i])]) for i in idx])
    want = {}
    per = {}
    for i, r in zip(idx, rows):
        ls = sorted(set(lib.dec_str(x) for x in r[0]))
        per[i] = ls
        want.setdefault((cases[i]['policy'], cases[i]['delim']), set()).update(ls)
    split_cases = []
    for (pol, delim), ls in sorted(want.items()):
        ls = sorted(ls)
        for k in range(0, len(ls), 2000):
            split_cases.append({'kind': 'split', 'policy': pol, 'delim': delim, 'lines': ls[k:k + 2000]})
    res = lib.run_impl_js('c20', split_cases)
    oracle = {}
    have = True
    for sc, r in zip(split_cases, res):
        if r is None or isinstance(r, dict):
            have = False
            break
        for l, fw in zip(sc['lines'], r):
            oracle[(sc['policy'], sc['delim'], l)] = (fw[0], bool(fw[1]))
    tabs = []
    for i, c in enumerate(cases):
        if i in per and have:
            tabs.append([(l, oracle[(c['policy'], c['delim'], l)]) for l in per[i]])
        else:
            tabs.append([])
    return tabs, have


def bulk_expected(cases, tabs):
    args = [lib.enc([cfg_sx(c), p12.split_sx(c, t), c['data']]) for c, t in zip(cases, tabs)]
    model = lib.run_model(212, args)
    return [dec_jresult(m) for m in model], args, model


def rel_all(c, e, g):
    return isinstance(g, dict) and 'stream' in g and len(g['stream']) == 1 and g['stream'][0][0] == e and g['bulk'] == e


def rel_invalid(c, e, g):
    """invalid / truncated UTF-8: every partition is rejected with an IO handling error; the bulk path reports the decoding error"""
    return (isinstance(g, dict) and 'stream' in g and g['bulk'] == ['err', 'RbqlIOHandlingError', 'utf8'] and e == g['bulk']
            and all(o[0][0] == 'err' and o[0][1] == 'RbqlIOHandlingError' for o in g['stream']))


def shrink_all(c, e, g):
    if not isinstance(g, dict) or 'stream' not in g:
        return None
    for o in g['stream']:
        if o[0] != e:
            c1 = {k: c[k] for k in KEYS}
            c1.update(kind='one', pieces=o[1], mode=o[2], data=c['data'])
            return c1, e, o[0]
    if g['bulk'] != e:
        c1 = {k: c[k] for k in KEYS}
        c1.update(kind='bulk', data=c['data'])
        return c1, e, g['bulk']
    return None


def describe(c, e, g):
    cfg = {k: c[k] for k in KEYS}
    if c.get('kind') == 'one':
        return 'rbql-js stream reader differs from the proved model/spec: chunks(bytes)=%r mode=%s cfg=%r: model=%r implementation=%r' % (
            c['pieces'], c['mode'], cfg, e, g)
    if c.get('kind') == 'bulk':
        return 'rbql-js bulk reader differs from the proved model/spec: bytes=%r cfg=%r: model=%r implementation=%r' % (c['data'], cfg, e, g)
    return 'rbql-js reader outcome depends on the chunking or differs from the model: bytes=%r cfg=%r: model=%r implementation=%r' % (
        c.get('data'), cfg, e, g)


def configs():
    out = []
    for pol, delim in POLICIES:
        for comment in (None, '#'):
            out.append({'policy': pol, 'delim': delim, 'comment': comment, 'header': False, 'modifier': None})
    return out


UTF8_SAMPLES = [
    'a,\u00e9\nb', '\u00e9', '\ufeffa,b\nc', '\ufeff', 'a\r\n\u00e9,"\u20ac"', '\u20ac\r\n', '"\U0001d11e\n",a', 'x\U0001d11e\r', '\ufeff#a\nb',
    '"a\r\nb",\u00e9', '\u00e9\r\n\u20ac', '\ufeff"a', '\u00df,#\n#\u00df', '\r\u00e9\n', '\ufeff\r\n\U0001d11e',
    # valid characters a shortcut validity test might take for damage: the replacement character itself, noncharacters, the last code points
    'a,\ufffd\nb', '\ufffd', '\uffff,\ud7ff\n\ue000', '\U0010ffff\r\n\ufffd', 'x\ufeffy\n',
]
INVALID_SAMPLES = [[0x61, 0xC3], [0xC3, 0x28], [0xE2, 0x82], [0xE0, 0x80, 0x80], [0xED, 0xA0, 0x80], [0xF0, 0x9D, 0x84], [0xFF, 0x0A, 0x61],
                   [0x61, 0x0A, 0xC3], [0xF4, 0x90, 0x80, 0x80], [0x80], [0x22, 0x0A, 0xC3, 0x28], [0xC0, 0xAF], [0x61, 0x2C, 0xE2, 0x82, 0x0A],
                   [0xF0, 0x80, 0x80, 0x80], [0xC3, 0xA9, 0xA9]]


def gen_cases(ctx):
    rng = ctx.rng
    cfgs = configs()
    n_full = 5 if ctx.tier == 'quick' else 6
    cases = []
    for n in range(n_full + 1):
        for t in itertools.product(ALPHA, repeat=n):
            data = [ord(x) for x in t]
            for c in cfgs:
                if ctx.tier == 'quick' and n == n_full and rng.random() < 0.5:
                    continue
                enc = 'utf-8' if rng.random() < 0.8 else 'binary'
                hdr = rng.random() < 0.3
                cases.append(dict(c, kind='all', data=data, encoding=enc, header=hdr, modes=['from', 'push']))
    if ctx.tier == 'thorough':      # one byte more, sampled
        for _ in range(6000):
            data = [ord(rng.choice(ALPHA)) for _ in range(n_full + 1)]
            for c in cfgs:
                cases.append(dict(c, kind='all', data=data, encoding='utf-8' if rng.random() < 0.8 else 'binary', header=rng.random() < 0.3,
                                  modes=['from', 'push']))
    # UTF-8 samples with multi-byte characters and BOM, both encodings, all configurations
    samples = list(UTF8_SAMPLES)
    pool = ['a', '\u00e9', '\u20ac', '\U0001d11e', '\n', '\r', '\r\n', '"', ',', '#', '\ufeff']
    for _ in range(20 if ctx.tier == 'quick' else 150):
        samples.append(''.join(rng.choice(pool) for _ in range(rng.randint(1, 4))))
    toks = ['\ufeff', 'a', '\n', '\r', '"', ',']
    for n in range(1, 4 if ctx.tier == 'quick' else 5):
        for t in itertools.product(toks, repeat=n):
            if '\ufeff' in t:
                samples.append(''.join(t))       # a BOM on the first line, on later lines, twice
    ucases = []
    for s in samples:
        data = list(s.encode('utf-8'))
        if len(data) > (9 if ctx.tier == 'quick' else 11):
            continue
        for c in cfgs:
            if len(samples) > 100 and len(data) > 6 and (c['comment'] == '#') != (c['policy'] in ('simple', 'quoted_rfc')):
                continue
            for enc in ('utf-8', 'binary'):
                if ctx.tier == 'quick' and enc == 'binary' and c['policy'] in ('simple', 'monocolumn'):
                    continue
                ucases.append(dict(c, kind='all', data=data, encoding=enc, header=rng.random() < 0.3,
                                   modifier=rng.choice([None, None, True, False]), modes=['from', 'push']))
    inv = []
    for b in INVALID_SAMPLES:
        for c in cfgs[:4] if ctx.tier == 'quick' else cfgs:
            inv.append(dict(c, kind='all', data=b, encoding='utf-8', modes=['from', 'push']))
    return cases, ucases, inv


def random_partition(rng, data, allow_empty):
    pieces, cur = [], []
    for b in data:
        cur.append(b)
        if rng.random() < 0.45:
            pieces.append(cur)
            cur = []
            if allow_empty and rng.random() < 0.3:
                pieces.append([])
    if cur:
        pieces.append(cur)
    if allow_empty and rng.random() < 0.2:
        pieces.insert(0, [])
    return pieces


def stats_for(ctx, c, e, runs):
    ctx.count(runs)
    ctx.stat('runs_policy_' + c['policy'], runs)
    ctx.stat('runs_encoding_' + c['encoding'], runs)
    kinds = []
    if e[0] == 'err':
        kinds.append('error_' + str(e[2] if e[2] == 'utf8' else 'rfc_defect'))
    elif e[0] == 'ok':
        if e[3][0]:
            kinds.append('bom_warning')
        if e[3][1] is not None:
            kinds.append('defective_line_warning')
        if e[3][2] is not None:
            kinds.append('inconsistent_fields_warning')
        if e[2] is not None:
            kinds.append('header')
        if e[4] != e[5]:
            kinds.append('NL_differs_from_NR')
        if any('\n' in f for r_ in e[1] for f in r_):
            kinds.append('multiline_record')
    d = c['data']
    if any(d[i] == 13 and d[i + 1] == 10 for i in range(len(d) - 1)):
        kinds.append('crlf_in_input')
    if any(b >= 0x80 for b in d):
        kinds.append('multibyte_input')
    for k in kinds:
        ctx.stat('model_' + k)
    if kinds or 10 in d or 13 in d or 34 in d:
        ctx.nontriv((tuple(d), c['policy'], c['comment'], c['header'], c['modifier'], c['encoding']))


def big_file_cases(ctx):
    """a file larger than three 64 KiB chunks with a CRLF, a multi-byte character and a multi-line quoted field (or a 4-byte
    character) straddling the chunk boundaries, the last line unterminated"""
    out = []
    for policy, delim in (('quoted_rfc', ','), ('simple', ',')):
        line = b'ab,"c d",\xc3\xa9\xe2\x82\xac\r\n' if policy == 'quoted_rfc' else b'ab,cd,\xc3\xa9\xe2\x82\xac\r\n'
        buf = bytearray(b'\xef\xbb\xbfh1,h2,h3\n')

        def fill_to(target, prefix_len):
            need = target - prefix_len
            while len(buf) + len(line) < need:
                buf.extend(line)
            pad = need - len(buf)
            buf.extend(b'p' * (pad - 1) + b'\n')
            assert len(buf) == need

        fill_to(65536, 2)
        buf.extend(b'q\r' + b'\nz,\xc3\xa9\r\n')                 # CR | LF
        fill_to(2 * 65536, 3)
        buf.extend(b'w,\xc3' + b'\xa9,v\r\n')                     # inside a 2-byte character
        fill_to(3 * 65536, 3)
        if policy == 'quoted_rfc':
            buf.extend(b'"m\n' + b'n",k\r\n')                       # inside a multi-line quoted field
        else:
            buf.extend(b'x\xf0\x9d' + b'\x84\x9e\r\n')             # inside a 4-byte character
        buf.extend(line * 7 + b'#c\n' + b'last,line')
        data = bytes(buf)
        data.decode('utf-8')
        assert data[65535:65537] == b'\r\n' and data[2 * 65536 - 1] == 0xc3, 'big file generator misaligned'
        for comment in (None, '#'):
            out.append({'kind': 'file', 'data': list(data), 'encoding': 'utf-8', 'policy': policy, 'delim': delim, 'comment': comment,
                        'header': True, 'modifier': None})
    return out


def run(ctx):
    ctx.exhaustive = True
    rng = ctx.rng
    n_full = 5 if ctx.tier == 'quick' else 6
    ctx.rule = ('every input over {a " , LF CR #} up to %d bytes (length %d: %s; thorough: + a sample one byte longer) x policies {simple, quoted, quoted_rfc, monocolumn} x comment prefix {None,#}, '
                'each on ALL 2^(n-1) byte-level partitions x delivery modes {one chunk per tick, back to back} + bulk path; UTF-8 samples with 2-/3-/4-byte '
                'characters and BOM on all partitions; invalid/truncated UTF-8; sampled partitions with empty chunks and random continuation schedules against the '
                'stream-level model; a 200 KB file through fs.createReadStream. non-trivial = distinct (input, cfg) containing a line break, a quote or a '
                'multi-byte character, or whose outcome has a warning, header or error') % (n_full, n_full, 'all' if ctx.tier != 'quick' else 'half of the configurations each')
    cases, ucases, inv = gen_cases(ctx)
    allc = cases + ucases
    tabs, have = tables_for(allc)
    if not have:
        raise lib.CheckFailure('rbql-js csv_utils.smart_split not available: no oracle for the quoted policies')
    exp, args, model = bulk_expected(allc, tabs)
    order = sorted(range(len(allc)), key=lambda i: -len(allc[i]['data']))
    sh = lib.NCPU
    perm = [i for k in range(sh) for i in order[k::sh]]
    got_p = lib.run_impl_js('c20', [allc[i] for i in perm], shards=sh)
    got = [None] * len(allc)
    for i, g in zip(perm, got_p):
        got[i] = g
    ctx.compare(allc, exp, got, THEOREM, rel=rel_all, describe=describe, shrink=shrink_all)
    ctx.cross_check_vm(212, args, model, n=100)
    for c, e in zip(allc, exp):
        stats_for(ctx, c, e, (1 << max(0, len(c['data']) - 1)) * 2 + 1)
    ctx.sample_safe(lambda: {'bytes': ucases[0]['data'], 'cfg': {k: ucases[0][k] for k in KEYS}, 'model_bulk': exp[len(cases)], 'implementation': got[len(cases)]})

    # invalid / truncated UTF-8
    i_exp, i_args, i_model = bulk_expected(inv, [[]] * len(inv))
    i_got = lib.run_impl_js('c20', inv)
    ctx.compare(inv, i_exp, i_got, 'C20_utf8_invalid_rejected (Props/C20.v): invalid or truncated UTF-8 is rejected by whole and by streaming decoding',
                rel=rel_invalid, describe=describe)
    for c in inv:
        ctx.count((1 << max(0, len(c['data']) - 1)) * 2 + 1)
        ctx.stat('invalid_utf8_runs', (1 << max(0, len(c['data']) - 1)) * 2 + 1)

    # (3) the stream-level model on concrete partitions, with empty chunks and random schedules
    pool = [c for c in allc if len(c['data']) >= 2] + inv
    # inputs of many short lines, cut into a first chunk of several lines and then chunks of about one line: with a slow consumer a
    # backlog sits in the reader's record queue while single records keep arriving (the queue must stay first-in first-out)
    multi = []
    for text in ('a\nb\nc\nd\ne\nf\n', 'a,1\r\nb,2\r\nc,3\r\nd,4\r\ne,5', '1\n2\n3\n4\n5\n6\n7\n8', '#x\na\n#y\nb\nc\nd\n\ne\n'):
        for pol, delim in (('simple', ','), ('monocolumn', '')):
            for comment in (None, '#'):
                multi.append({'policy': pol, 'delim': delim, 'comment': comment, 'header': False, 'modifier': None, 'encoding': 'utf-8',
                              'data': list(text.encode('utf-8')), '_multi': True})
    pool = pool + multi * 12
    nsamp = 5000 if ctx.tier == 'quick' else 60000
    ones, one_args, lines_args, lines_idx, dec_args = [], [], [], [], []
    tab_of = {id(c): t for c, t in zip(allc, tabs)}
    bulk_of = {id(c): e for c, e in zip(allc, exp)}
    srcs = []
    for _ in range(nsamp):
        c = rng.choice(pool)
        allow_empty = rng.random() < 0.4
        pieces = random_partition(rng, c['data'], allow_empty)
        mode = 'obj' if allow_empty else rng.choice(['from', 'push', 'timed'])
        if c.get('_multi'):
            d = c['data']
            cut = [i + 1 for i, b in enumerate(d) if b == 10]
            k = rng.randint(2, max(2, len(cut) - 2))
            bounds = [0, cut[min(k, len(cut)) - 1]] + [x for x in cut[k:]] + ([len(d)] if cut[-1] != len(d) else [])
            pieces = [d[a:b] for a, b in zip(bounds, bounds[1:]) if b > a]
            allow_empty, mode = False, 'timed'
        c1 = {k: c.get(k) for k in KEYS}
        c1.update(kind='one', pieces=pieces, mode=mode, data=c['data'], slow=rng.choice([1, 1, 2]) if c.get('_multi') else rng.choice([0, 0, 1, 2]))      # consumer pace: get_all_records, or a tick or two between records
        ones.append(c1)
        srcs.append(c)
        sched = [[p, rng.random() < 0.5] for p in pieces]
        one_args.append(lib.enc([cfg_sx(c1), p12.split_sx(c1, tab_of.get(id(c), [])), rng.random() < 0.5, sched]))
        dec_args.append(lib.enc(pieces))
    # runs with empty chunks leave the specification (C20_empty_chunk_refuted): the faithful model then asks the splitter about rows
    # that are not rows of the text; extend the tables with the rows of the lines the stream model hands over
    m_dec0 = lib.run_model(220, dec_args)
    ext = [i for i, c1 in enumerate(ones) if p12.needs_table(c1) and any(len(p) == 0 for p in c1['pieces']) and m_dec0[i]]
    if ext:
        lns = lib.run_model(213, [lib.enc([lib.Raw(lib.enc(x)) for x in m_dec0[i][0]]) for i in ext])
        rws = lib.run_model(205, [lib.enc([cfg_sx(ones[i]), lib.Raw(lib.enc(l))]) for i, l in zip(ext, lns)])
        want = {}
        for i, r in zip(ext, rws):
            for x in r[0]:
                want.setdefault((ones[i]['policy'], ones[i]['delim']), set()).add(lib.dec_str(x))
        sc = [{'kind': 'split', 'policy': pol, 'delim': dl, 'lines': sorted(ls)} for (pol, dl), ls in sorted(want.items())]
        orc = {}
        for c_, r_ in zip(sc, lib.run_impl_js('c20', sc)):
            for l, fw in zip(c_['lines'], r_):
                orc[(c_['policy'], c_['delim'], l)] = (fw[0], bool(fw[1]))
        for i, r in zip(ext, rws):
            c1 = ones[i]
            tab = dict(tab_of.get(id(srcs[i]), []))
            for x in r[0]:
                l = lib.dec_str(x)
                tab[l] = orc[(c1['policy'], c1['delim'], l)]
            sched = [[p_, rng.random() < 0.5] for p_ in c1['pieces']]
            one_args[i] = lib.enc([cfg_sx(c1), p12.split_sx(c1, sorted(tab.items())), rng.random() < 0.5, sched])
    m_one = lib.run_model(211, one_args)
    e_one = [dec_jresult(m) for m in m_one]
    g_one = lib.run_impl_js('c20', ones)
    ctx.compare(ones, e_one, g_one, THEOREM + ' [stream-level model run_js_stream, faithful incl. empty chunks]', describe=describe)
    ctx.cross_check_vm(211, one_args, m_one, n=60)
    ctx.count(len(ones))
    ctx.stat('stream_model_runs', len(ones))
    ctx.stat('stream_model_runs_with_empty_chunks', sum(1 for c in ones if c['mode'] == 'obj'))
    # how often the faithful stream model leaves the bulk value: only with empty chunks (C20_empty_chunk_refuted), never on a true partition
    ndiff = 0
    for c1, c, e in zip(ones, srcs, e_one):
        if id(c) in bulk_of and e != bulk_of[id(c)]:
            if all(len(p) > 0 for p in c1['pieces']):
                ctx.violation(c1, bulk_of[id(c)], e, 'C20_stream_is_bulk', 'model: stream run on a partition without empty chunks differs from the bulk run (theorem contradicted: model tie broken)', no_input=True)
            ndiff += 1
    ctx.stat('stream_model_runs_with_empty_chunk_differing_from_bulk', ndiff)
    # (3b) two readers alive at once, chunks delivered alternately: each must still give ITS bulk value (C20_stream_is_bulk is per
    # reader; the model's readers share nothing). Only inputs with a configuration in common are paired.
    upool = [c for c in ucases if len(c['data']) >= 2 and c['encoding'] == 'utf-8']
    pairs, p_exp = [], []
    for _ in range(60 if ctx.tier == 'quick' else 3000):
        ca = rng.choice(upool)
        same = [c for c in upool if all(c.get(k) == ca.get(k) for k in KEYS if k != 'data')]
        cb = rng.choice(same)
        cp = {k: ca.get(k) for k in KEYS}
        cp.update(kind='pair', pieces_a=random_partition(rng, ca['data'], False), pieces_b=random_partition(rng, cb['data'], False))
        pairs.append(cp)
        p_exp.append([bulk_of[id(ca)], bulk_of[id(cb)]])
    p_got = lib.run_impl_js('c20', pairs)
    ctx.compare(pairs, p_exp, p_got, THEOREM + ' [two readers at once: each equals its own bulk value]',
                describe=lambda c, e, g: 'two stream readers alive at once (chunks %r and %r, %s): expected their bulk values %r, got %r' % (
                    c['pieces_a'], c['pieces_b'], {k: c.get(k) for k in KEYS if k != 'data'}, e, g))
    ctx.count(2 * len(pairs))
    ctx.stat('concurrent_reader_pairs', len(pairs))
    # decode_streaming (model) vs python's incremental decoder, chunk by chunk
    m_dec = m_dec0
    import codecs
    for c1, m in zip(ones, m_dec):
        dec = codecs.getincrementaldecoder('utf-8')('strict')
        try:
            ref = [dec.decode(bytes(p)) for p in c1['pieces']]
            dec.decode(b'', final=True)
        except UnicodeDecodeError:
            ref = None
        mine = [lib.dec_str(s) for s in m[0]] if m else None
        if mine != ref:
            ctx.violation({'kind': 'utf8', 'pieces': c1['pieces']}, mine, ref, 'Utf8.decode_streaming',
                          'model decode_streaming differs from the reference incremental decoder (model tie broken)', no_input=True)
            break
    ctx.stat('utf8_streaming_model_vs_reference_decoder', len(ones))
    # whole-input decoder and encoder of Utf8.v against the reference codec: random strings, and byte strings near the valid ones
    strs, blobs = [], []
    for _ in range(1500 if ctx.tier == 'quick' else 30000):
        t = ''.join(chr(rng.choice([rng.randrange(0, 0x80), rng.randrange(0x80, 0x800), rng.randrange(0x800, 0xD800), rng.randrange(0xE000, 0x10000),
                                    rng.randrange(0x10000, 0x110000), 0x7F, 0x80, 0x7FF, 0x800, 0xFFFF, 0x10000, 0x10FFFF, 0xFEFF])) for _ in range(rng.randint(0, 5)))
        strs.append(t)
        b = bytearray(t.encode('utf-8'))
        r = rng.random()
        if b and r < 0.3:
            b[rng.randrange(len(b))] = rng.choice([0x80, 0xBF, 0xC0, 0xC1, 0xE0, 0xED, 0xF0, 0xF4, 0xF5, 0xFF, 0x9F, 0xA0, 0x8F, 0x90, rng.randrange(256)])
        elif b and r < 0.45:
            del b[rng.randrange(len(b))]
        elif r < 0.55:
            b.insert(rng.randrange(len(b) + 1), rng.randrange(0x80, 0x100))
        blobs.append(list(b))
    m_enc = lib.run_model(222, [lib.enc(t) for t in strs])
    m_whole = lib.run_model(221, [lib.enc(b) for b in blobs])
    for t, m in zip(strs, m_enc):
        if list(t.encode('utf-8')) != m:
            ctx.violation({'kind': 'utf8_encode', 'text': t}, m, list(t.encode('utf-8')), 'Utf8.utf8_encode', 'model encoder differs from the reference codec (model tie broken)', no_input=True)
            break
    for b, m in zip(blobs, m_whole):
        try:
            ref = bytes(b).decode('utf-8')
        except UnicodeDecodeError:
            ref = None
        mine = lib.dec_str(m[0]) if m else None
        if mine != ref:
            ctx.violation({'kind': 'utf8_whole', 'bytes': b}, mine, ref, 'Utf8.decode_whole', 'model decoder differs from the reference codec (model tie broken)', no_input=True)
            break
    ctx.stat('utf8_whole_and_encode_vs_reference_codec', len(strs) + len(blobs))
    ctx.stat('utf8_invalid_blobs', sum(1 for m in m_whole if not m))

    # (4) large files
    big = big_file_cases(ctx)
    b_tabs, have_b = tables_for(big)     # quoted_rfc rows of the big file: table from the implementation's smart_split
    b_exp, b_args, b_model = bulk_expected(big, b_tabs)
    b_got = lib.run_impl_js('c20', big, shards=len(big))
    ctx.compare(big, b_exp, b_got, THEOREM + ' [file > 64 KiB through fs.createReadStream]',
                rel=lambda c, e, g: isinstance(g, dict) and g.get('stream') == e and g.get('bulk') == e,
                describe=lambda c, e, g: 'large file (%d bytes, %s): stream / bulk / model differ: model %s, stream %s, bulk %s' % (
                    len(c['data']), c['policy'], summary(e), summary(g.get('stream') if isinstance(g, dict) else g), summary(g.get('bulk') if isinstance(g, dict) else g)),
                corrupt=lambda e: ['CANARY'])
    for c, e in zip(big, b_exp):
        ctx.count(2)
        ctx.stat('big_file_bytes', len(c['data']))
        ctx.stat('big_file_records', len(e[1]) if e[0] == 'ok' else 0)


def summary(o):
    if isinstance(o, list) and o and o[0] == 'ok':
        import hashlib
        return 'ok(%d records, sha1 %s, header %r, warnings %r, NL %r, NR %r)' % (
            len(o[1]), hashlib.sha1(repr(o[1]).encode()).hexdigest()[:10], o[2], o[3], o[4], o[5])
    return repr(o)[:300]


def stream_table(c1, base):
    """split table for one stream run: rows of the text plus the rows of the lines the stream model hands over (they differ
    only when empty chunks make the reader leave the specification)"""
    if not p12.needs_table(c1):
        return base
    d = lib.run_model(220, [lib.enc(c1['pieces'])])[0]
    if not d:
        return base
    lns = lib.run_model(213, [lib.enc(d[0])])[0]
    rws = lib.run_model(205, [lib.enc([cfg_sx(c1), lns])])[0]
    ls = sorted(set(lib.dec_str(x) for x in rws[0]))
    res = lib.run_impl_js('c20', [{'kind': 'split', 'policy': c1['policy'], 'delim': c1['delim'], 'lines': ls}])[0]
    tab = dict(base)
    for l, fw in zip(ls, res):
        tab[l] = (fw[0], bool(fw[1]))
    return sorted(tab.items())


def replay(ctx, case):
    kind = case.get('kind')
    if kind == 'all':
        tabs, have = tables_for([case])
        exp, args, model = bulk_expected([case], tabs)
        got = lib.run_impl_js('c20', [case])
        ctx.count(1 << max(0, len(case['data']) - 1))
        valid = decoded_text(case) is not None
        ctx.compare([case], exp, got, THEOREM, rel=rel_all if valid else rel_invalid, describe=describe, shrink=shrink_all)
        return
    if kind in ('one', 'bulk'):
        c0 = dict(case)
        tabs, have = tables_for([c0])
        exp, args, model = bulk_expected([c0], tabs)
        got = lib.run_impl_js('c20', [case])
        ctx.count(1)
        if kind == 'one':
            sched = [[p, True] for p in case['pieces']]
            m = lib.run_model(211, [lib.enc([cfg_sx(case), p12.split_sx(case, stream_table(case, tabs[0])), True, sched])])
            ctx.compare([case], [dec_jresult(m[0])], got, THEOREM + ' [stream-level model run_js_stream]', describe=describe)
            if any(len(p) == 0 for p in case['pieces']) or decoded_text(c0) is None:
                return          # empty chunks / invalid input: outside the property's quantifier, only the faithful model applies
        ctx.compare([case], exp, got, THEOREM, describe=describe)
        return
    if kind == 'pair':
        two = []
        for key in ('pieces_a', 'pieces_b'):
            c1 = {k: case.get(k) for k in KEYS}
            c1.update(kind='bulk', data=[b for p in case[key] for b in p])
            two.append(c1)
        tabs, have = tables_for(two)
        exp, _a, _m = bulk_expected(two, tabs)
        got = lib.run_impl_js('c20', [case], shards=1)
        ctx.count(2)
        ctx.compare([case], [exp], got, THEOREM)
        return
    if kind == 'file':
        tabs, have = tables_for([case])
        exp, args, model = bulk_expected([case], tabs)
        got = lib.run_impl_js('c20', [case])
        ctx.count(2)
        ctx.compare([case], exp, got, THEOREM, rel=lambda c, e, g: isinstance(g, dict) and g.get('stream') == e and g.get('bulk') == e,
                    describe=lambda c, e, g: 'large file: model %s implementation %s' % (summary(e), repr(g)[:400]))
        return
    raise lib.CheckFailure('unknown replay case kind %r' % kind)
