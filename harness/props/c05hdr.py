# C05, tables WITH column names: UPDATE [SET] over the four target spellings of the property's quantifier (aN, a[N], a.name,
# a["name"]) x {WHERE} x {INNER / LEFT JOIN with a join table that has column names too}, both ports, two entry points each:
#   * list path : rbql.query / query_table (Python), rbql-js rbql.query with TableIterator / TableWriter - the records one by one
#                 against the engine model (entry 300) and the output column names against the header model (Header.v, entry 550:
#                 an UPDATE keeps the input header);
#   * file path : query_csv with with_headers=true, file to file, the join table being a second CSV file: the OUTPUT FILE is the
#                 header line followed by one line per input record, as the engine model has the records.
# The CSV layer is not under test here (C10 / C11 / C18 are): cells and names are words without separators, quotes or line
# breaks, for which the CSV form is the fields joined by the delimiter (harness-side rendering `csv_text` below).
# What this adds: before, no UPDATE case of C05 carried column names at all (the named target spellings were never generated),
# and no UPDATE went through the file front ends.  Seeded change C05-14 (rbql-js: the writer of an UPDATE ... JOIN query was handed
# input header + join header) makes query_csv refuse the first record and query_table report five names for three-field records.
import importlib
import json
import lib
import qmodel
import enginecheck as ec

NAMES_A = ['id', 'name', 'x1', 'Val', '_u', 'two words', 'score 2']
NAMES_B = ['k', 'w', 'name', 'Bonus', 'b col']
CELLS = ['a', 'b', 'ab', '1', '2', 'k', 'x y', '']


class NamedRenderer(qmodel.Renderer):
    """field references in every spelling the header allows: tN, t[N], t.name (identifiers), t["name"] / t['name']"""
    def __init__(self, lang, rng, hdrs):
        qmodel.Renderer.__init__(self, lang, rng)
        self.hdrs = hdrs

    def fld(self, t, i):
        hdr = self.hdrs.get(t)
        r = self.rng
        opts = ['%s%d' % (t, i + 1), '%s[%d]' % (t, i + 1)]
        if hdr is not None and i < len(hdr):
            nm = hdr[i]
            if nm.replace('_', 'a').isalnum():
                opts += ['%s.%s' % (t, nm)] * 2
            q = r.choice(['"', "'"])
            opts += ['%s[%s%s%s]' % (t, q, nm, q)] * 2
        return r.choice(opts)


def gen_case(ctx, g):
    r = ctx.rng
    na = r.randint(2, 3)
    hdrA = r.sample(NAMES_A, na)
    A = [[r.choice(CELLS[:6])] + [r.choice(CELLS) for _ in range(na - 1)] for _ in range(r.randint(0, 5))]
    ragged = len(A) > 1 and r.random() < 0.2
    if ragged:
        # a record shorter than the header: assigning to the missing field names THIS record.  (Never the first record: TableIterator
        # of both ports refuses a list of column names whose length differs from the FIRST record's - a front-end check, not UPDATE's.)
        k = r.randrange(1, len(A))
        A[k] = A[k][:r.randint(1, na - 1)]
    B = join = hdrB = None
    nb = None
    if r.random() < 0.6:
        nb = 2
        hdrB = r.sample(NAMES_B, nb)
        keys = r.sample(CELLS[:6], r.randint(1, 4))
        if r.random() < 0.12:
            keys.append(keys[0])                     # two partners for one key: an UPDATE refuses that record
        B = [[k, r.choice(['p', 'q', 'r s', ''])] for k in keys]
        kind, sp = r.choice([('inner', 'join'), ('inner', 'inner join'), ('left', 'left join'), ('left', 'left outer join')])
        join = {'kind': kind, 'spelling': sp, 'lhs': [0], 'rhs': [0]}
    # Language-neutral expressions only (the same rule as the JavaScript leg, props/c19.py): a missing field and the b-fields of a
    # LEFT JOIN without partner are None / null, and `null + "x"`, `null <= "a"` mean different things in the two languages - such
    # values appear as BARE right-hand sides only, computed expressions and WHERE range over fields that exist.
    cx = {'na': na, 'nb': nb if (join and join['kind'] == 'inner') else None, 'update': True}
    asg = []
    for _ in range(r.randint(1, 3)):
        idx = r.randint(0, na - 1 + (1 if r.random() < 0.06 else 0))
        x = r.random()
        if x < 0.35:
            e = ('fld', 'a', r.randint(0, na - 1))
        elif x < 0.5 and nb:
            e = ('fld', 'b', r.randint(0, nb - 1))
        elif x < 0.6:
            e = (r.choice(['NU', 'NR']),)
        elif ragged:
            e = ('lit', r.choice(CELLS))
        else:
            e = g.str_expr(cx, 1)
        asg.append((idx, e))
    where = g.bool_expr(cx, 1) if (r.random() < 0.4 and not ragged) else None
    qa = {'kind': ('update', asg), 'where': where, 'join': join, 'update_set': r.random() < 0.5, 'join_table': 'JTBL9'}
    hdrs = {'a': hdrA, 'b': hdrB}
    c = {'qa': qa, 'A': A, 'B': B, 'hdrA': hdrA, 'hdrB': hdrB, 'fail_at': None, 'also_table': True, 'endless': None, 'tags': ['named'], 'part': 'named',
         # (the CSV writer refuses a record whose width differs from the header it was given - its own rule, C07 / C14: ragged tables go through the list path only)
         'csv': not ragged}
    qpy, qjs = NamedRenderer('py', r, hdrs).query(qa), NamedRenderer('js', r, hdrs).query(qa)
    # the same two texts for the list and for the file front ends: the join table is `b` / the file jt.csv beside the input file
    c['q'], c['qjs'] = qpy.replace('JTBL9', 'b'), qjs.replace('JTBL9', 'b')
    c['q_csv'], c['qjs_csv'] = qpy.replace('JTBL9', 'jt.csv'), qjs.replace('JTBL9', 'jt.csv')
    return c


def csv_cell(v):
    if v is None:
        return ''
    return str(v)


def csv_text(header, rows):
    """harness-side rendering, valid for the cells of this module only (no delimiter, quote, CR / LF, leading / trailing space in a cell):
    fields joined by ',' and lines ended by LF"""
    return ''.join(','.join(csv_cell(v) for v in row) + '\n' for row in [header] + rows)


def model(cases):
    """entry 300 per flavour (records, error), entry 550 (output header of an UPDATE)"""
    out = {}
    for fl, name in ((0, 'py'), (1, 'js')):
        args = [qmodel.enc_run(fl, c['qa'], None, c['A'], c['B'], None) for c in cases]
        raw = lib.run_model(300, args)
        out[name] = (args, raw, [ec.canon_model(m) for m in raw])
    hargs = ['(((%s)) %s (2))' % (' '.join(lib.enc(s) for s in c['hdrA']), '()' if c['hdrB'] is None else '((%s))' % ' '.join(lib.enc(s) for s in c['hdrB'])) for c in cases]
    hraw = lib.run_model(550, hargs)
    hdr = [[lib.dec_str(s) for s in m[1]] if m[0] == 1 else None for m in hraw]
    out['hdr'] = (hargs, hraw, hdr)
    return out


def rows_of(e):
    return [x[1] for x in e['events'] if x[0] == 'W' and x[2]]


def rel_list_py(c, e, g):
    if e is None:
        return True
    if not ec.engine_rel(c, e['run'], g):
        return False
    # the header the writer was given / query_table reports: the input header, whatever is joined
    hs = [x[1] for x in g['events'] if x[0] == 'H']
    if hs != [e['hdr']] and (hs or e['run']['error'] is None):
        return False
    return e['run']['error'] is not None or g['table']['header'] == e['hdr']


def rel_list_js(c, e, g):
    if e is None:
        return True
    if not importlib.import_module('props.c19').rel(c, e['run'], g):
        return False
    return e['run']['error'] is not None or g['header'] == e['hdr']


def rel_csv(c, e, g):
    if e is None:
        return True
    if not isinstance(g, dict) or 'out' not in g:
        return False
    if g.get('sources_ok') is not True:
        return False
    err = e['run']['error']
    if err is not None:
        return g['error'] is not None and g['error'][0] == err[0] and (err[1] == 0 or g['error'][1] == err[1])
    return g['error'] is None and g['out'] == csv_text(e['hdr'], rows_of(e['run']))


def describe(leg):
    def f(c, e, g):
        return '%s: query %r over A=%s (column names %s) B=%s (column names %s): model %s, implementation %s' % (
            leg, c[('qjs' if 'js' in leg else 'q') + ('_csv' if leg.endswith('csv') else '')], json.dumps(c['A']), c['hdrA'], json.dumps(c['B']), c['hdrB'], json.dumps(e)[:400], json.dumps(g)[:500])
    return f


def corrupt(e):
    if e is None:
        return {'run': {'events': [['F'], ['F']], 'pulls': -1, 'error': ['CANARY', 0, None]}, 'hdr': ['CANARY']}
    return {'run': dict(e['run'], error=['CANARY', 0, None]), 'hdr': e['hdr']}


LEGS = [('py list', 'py', rel_list_py), ('js list', 'js', rel_list_js), ('py csv', 'py', rel_csv), ('js csv', 'js', rel_csv)]


def run_leg(leg, cases):
    if leg == 'py list':
        return lib.run_impl_py('engine', cases)
    if leg == 'js list':
        return lib.run_impl_js('engine', cases, shards=8)
    if leg == 'py csv':
        return lib.run_impl_py('c05csv', cases, extra_env={'VERIF_SCRATCH': lib.BUILD})
    return lib.run_impl_js('c05csv', cases, shards=8, extra_env={'VERIF_SCRATCH': lib.BUILD})


def expectations(cases, m, flavour):
    return [None if e is None or h is None else {'run': e, 'hdr': h} for e, h in zip(m[flavour][2], m['hdr'][2])]


def run(ctx, theorem):
    g = importlib.import_module('props.c19').NGen(ctx.rng)
    n = 300 if ctx.tier == 'quick' else 20000
    cases = [gen_case(ctx, g) for _ in range(n)]
    m = model(cases)
    th = theorem + ' ; output header of an UPDATE: C07_names (Header.v, entry 550)'
    for leg, fl, rel in LEGS:
        idx = [i for i, c in enumerate(cases) if c['csv'] or not leg.endswith('csv')]
        lc = [cases[i] for i in idx]
        exp_all = expectations(cases, m, fl)
        got = run_leg(leg, lc)
        ctx.compare([dict(c, leg=leg) for c in lc], [exp_all[i] for i in idx], got, th, rel=rel, describe=describe(leg), corrupt=corrupt)
        ctx.count(len(lc))
    ctx.cross_check_vm(300, m['py'][0], m['py'][1], n=10)
    ctx.cross_check_vm(550, m['hdr'][0], m['hdr'][1], n=10)
    for c, e in zip(cases, m['py'][2]):
        if e is None:
            ctx.stat('named_dropped_unmodelled')
            continue
        ctx.stat('named_update' + ('_join' if c['B'] is not None else '') + ('_error' if e['error'] else ''))
        if e['error'] or rows_of(e):
            ctx.nontriv(('named', c['q'], json.dumps(c['A']), json.dumps(c['B'])))
    ctx.sample_safe(lambda: {'kind': 'UPDATE over tables with column names', 'query': cases[0]['q'], 'query_js': cases[0]['qjs'], 'A': cases[0]['A'], 'hdrA': cases[0]['hdrA'],
                             'B': cases[0]['B'], 'hdrB': cases[0]['hdrB'], 'model': m['py'][2][0], 'model_header': m['hdr'][2][0]})
    ctx.rule += ('; tables with column names: %d UPDATE [SET] lists over the target spellings aN / a[N] / a.name / a["name"] x WHERE x INNER / LEFT JOIN (join table with column names), '
                 'both ports, through rbql.query / query_table (records = engine model, output column names = input header) and file to file through query_csv with with_headers '
                 '(output file = header line + one line per input record)') % len(cases)


def replay(ctx, case, theorem):
    m = model([case])
    leg = case.get('leg', 'py list')
    fl, rel = [(f, r) for l, f, r in LEGS if l == leg][0]
    exp = expectations([case], m, fl)
    got = run_leg(leg, [case])
    ctx.count()
    ctx.compare([case], exp, got, theorem, rel=rel, describe=describe(leg))
