# csvgen.py - the SECOND tie of the pure CSV string functions (C11 / C10 / C18): translation validation next to the
# correspondence run.  harness/translate_csv.py regenerates Gallina definitions gen_py_<name> from
# $VERIF_REPO/rbql-py/rbql/csv_utils.py on every run (fail closed; the regular expressions are mapped to the hand-written
# scanners by their exact pattern text); build/gen/csv_<pid>/GenCsv.v = these definitions + the committed obligations
# gen_csv_<name>_eq : forall args, gen_py_<name> args = CsvIx.ix_<name> args  (harness/gen_csv_tie.v.tmpl), + the theorems of
# Props/C11.v / C10.v / C18.v transferred to the generated definitions (gen_C11_split_is_dialect, ...).  CsvIx_Proofs.v
# (committed, part of the .vo build) proves CsvIx = Csv.v.  step() compiles the generated file and checks every
# Print Assumptions.  A refused translation or a failing obligation is reported by finish(): the correspondence run of the
# calling check is the search for a failing input (its violations take precedence); if it finds none:
# VIOLATION property=<id> ... no-failing-input-found with the broken obligation named in the replay file.
import json
import os
import re
import shutil
import threading
import time
import lib

THEOREM = ('gen_csv_<name>_eq / gen_csv_js_<name>_eq (generated: the translations of rbql-py/rbql/csv_utils.py and rbql-js/csv_utils.js = the index models '
           'CsvIx.v / CsvIxJs.v) + C11_index_model_* / C11_js_index_model_* (Props/C11.v: the index models = Csv.v) => gen_C11_split_is_dialect, '
           'gen_C10_line_roundtrip, gen_C18_quote_agree, gen_C18_sources_agree_* ...')
CHECKER = ('python3 harness/translate_csv.py build/gen/csv_<pid> py|js (VERIF_REPO); coqc -Q coq/theories RBQL -Q build/gen/csv_<pid> RBQLGen '
           'build/gen/csv_<pid>/{GenCsv,GenCsvJs,GenCsvAgree}.v (every run; every Print Assumptions parsed)')


PARTS = {'py': ('GenCsv', 'rbql-py/rbql/csv_utils.py'), 'js': ('GenCsvJs', 'rbql-js/csv_utils.js')}


def _coqc(d, base):
    cmd = 'cd %s && ulimit -s unlimited; timeout 240 coqc -Q %s RBQL -Q %s RBQLGen %s 2>&1' % (d, os.path.join(lib.COQ, 'theories'), d, os.path.join(d, base + '.v'))
    try:
        return lib.sh(['bash', '-c', cmd], timeout=300)
    except Exception as e:                                   # noqa: BLE001
        return 99, 'coqc did not finish: %r' % e


def _closed_blocks(out, thms):
    blocks = [b for b in re.split(r'(?=Closed under the global context|Axioms:)', out) if b.startswith('Closed under') or b.startswith('Axioms:')]
    closed = {}
    for n, b in zip(thms, blocks):                 # one Print Assumptions per theorem, in order; coqc stops at the first error
        closed[n] = b.startswith('Closed under')
    return blocks, closed


def part(lang, d):
    """translate one source file, compile its generated file -> dict(ok, failed, detail, theorems, closed, facts, stage)"""
    base, rel = PARTS[lang]
    res = {'lang': lang, 'ok': False, 'failed': [], 'detail': '', 'theorems': [], 'closed': [], 'facts': None, 'stage': 'translate'}
    t0 = time.time()
    env = dict(os.environ)
    env['VERIF_REPO'] = lib.REPO
    env['PYTHONDONTWRITEBYTECODE'] = '1'
    try:
        rc, out = lib.sh(['timeout', '60', 'python3', os.path.join(lib.VERIF, 'harness', 'translate_csv.py'), d, lang], env=env, timeout=90)
    except Exception as e:                                   # noqa: BLE001
        rc, out = 99, 'translator did not finish: %r' % e
    res['translate_s'] = round(time.time() - t0, 2)
    if rc != 0:
        res['failed'] = ['translate_csv(%s)' % lang]
        res['detail'] = 'the translator refused %s (rc=%d): %s' % (rel, rc, out.strip()[-800:])
        return res
    facts = json.load(open(os.path.join(d, base + '.json')))
    res['facts'] = facts
    res['theorems'] = thms = facts['theorems']
    res['stage'] = 'coqc'
    t1 = time.time()
    rc, out = _coqc(d, base)
    res['coqc_s'] = round(time.time() - t1, 2)
    blocks, closed = _closed_blocks(out, thms)
    res['closed'] = [n for n in thms if closed.get(n)]
    if rc == 0 and len(blocks) == len(thms) and all(closed.get(n) for n in thms):
        res['ok'] = True
        return res
    m = re.search(r'\(in proof ([A-Za-z0-9_\']+)\)', out)
    first = m.group(1) if m else next((n for n in thms if not closed.get(n)), base + '.v')
    res['failed'] = [first]
    res['not_checked'] = [n for n in thms if n not in closed and n != first]
    tail = '\n'.join(l for l in out.split('\n') if l.strip() and not l.startswith('Closed under'))
    res['detail'] = ('the translation of %s no longer equals the hand model: obligation %s fails (coqc rc=%d; the obligations after it were not checked: %s): %s'
                     % (rel, first, rc, ', '.join(res['not_checked']) or '-', tail.strip()[-600:]))
    return res


AGREE_THEOREMS = ['gen_C18_sources_agree_smart_split', 'gen_C18_sources_agree_quote_field']


def step(ctx, keep=False):
    """both translations (in parallel), then - when both went through - the file that states that the two translated sources
    are the same functions -> dict(ok, failed, detail, dir, theorems, closed, parts)"""
    d = os.path.join(lib.BUILD, 'gen', 'csv_%d' % os.getpid())
    shutil.rmtree(d, ignore_errors=True)
    os.makedirs(d)
    parts = {}

    def run(lang):
        try:
            parts[lang] = part(lang, d)
        except Exception as e:                               # noqa: BLE001
            parts[lang] = {'lang': lang, 'ok': False, 'failed': ['csvgen.part(%s)' % lang], 'detail': 'csvgen part raised %r' % e, 'theorems': [], 'closed': [], 'facts': None, 'stage': 'harness'}
    ths = [threading.Thread(target=run, args=(lang,)) for lang in PARTS]
    for th in ths:
        th.start()
    for th in ths:
        th.join()
    res = {'dir': d, 'parts': parts, 'theorems': [], 'closed': [], 'failed': [], 'detail': ''}
    for lang in PARTS:
        res['theorems'] += parts[lang]['theorems']
        res['closed'] += parts[lang]['closed']
        res['failed'] += parts[lang]['failed']
        if parts[lang]['detail']:
            res['detail'] += ('; ' if res['detail'] else '') + parts[lang]['detail']
    if all(parts[lang]['ok'] for lang in PARTS):
        shutil.copy(os.path.join(lib.VERIF, 'harness', 'gen_csv_agree.v.tmpl'), os.path.join(d, 'GenCsvAgree.v'))
        t1 = time.time()
        rc, out = _coqc(d, 'GenCsvAgree')
        res['agree_coqc_s'] = round(time.time() - t1, 2)
        blocks, closed = _closed_blocks(out, AGREE_THEOREMS)
        res['theorems'] += AGREE_THEOREMS
        res['closed'] += [n for n in AGREE_THEOREMS if closed.get(n)]
        if not (rc == 0 and len(blocks) == len(AGREE_THEOREMS) and all(closed.get(n) for n in AGREE_THEOREMS)):
            res['failed'] += [next((n for n in AGREE_THEOREMS if not closed.get(n)), 'GenCsvAgree.v')]
            res['detail'] += 'GenCsvAgree.v: ' + out.strip()[-400:]
    res['ok'] = not res['failed']
    res['failed_langs'] = [lang for lang in PARTS if not parts[lang]['ok']]
    if res['ok'] and not keep:
        shutil.rmtree(d, ignore_errors=True)
    return res


def start(ctx):
    """run step() beside the correspondence run (it only spawns processes)"""
    box = {}

    def bg():
        try:
            box['res'] = step(ctx)
        except Exception as e:                               # noqa: BLE001
            box['res'] = {'ok': False, 'failed': ['csvgen.step'], 'detail': 'csvgen step raised %r' % e, 'dir': '', 'theorems': [], 'closed': [], 'parts': {}, 'failed_langs': ['py', 'js']}
    th = threading.Thread(target=bg)
    th.start()
    return th, box, len(ctx.violations)


def finish(ctx, handle, search_more=None):
    th, box, nviol0 = handle
    th.join()
    res = box['res']
    report(ctx, res, nviol0, search_more)


def report(ctx, res, nviol0=None, search_more=None):
    ctx.generated_checker = CHECKER
    for n in res['theorems']:
        ctx.generated_obligations[n] = n in res['closed']
    summary = {}
    for lang, pr in res.get('parts', {}).items():
        facts = pr.get('facts') or {}
        if not pr['theorems']:
            ctx.generated_obligations['translate_csv(%s)' % lang] = False
        ctx.stat('csvgen_%s_functions_translated' % lang, len(facts.get('functions', [])))
        ctx.stat('csvgen_%s_ast_nodes' % lang, sum(f['ast_nodes'] for f in facts.get('functions', [])))
        summary[lang] = {'ok': pr['ok'], 'stage': pr['stage'], 'failed': pr['failed'], 'translate_s': pr.get('translate_s'), 'coqc_s': pr.get('coqc_s'),
                         'functions': facts.get('functions'), 'skipped_functions': facts.get('skipped'), 'patterns_mapped_to_scanners': facts.get('patterns'),
                         'generated_theorems': pr['theorems']}
    summary['agree_coqc_s'] = res.get('agree_coqc_s')
    ctx.notes.append({'csv_translation': summary})
    if res['ok']:
        ctx.sample({'kind': 'generated obligation', 'theorem': 'gen_csv_split_quoted_str_eq',
                    'statement': 'forall src dlm preserve, gen_py_split_quoted_str src dlm preserve = ix_split_quoted_str src dlm preserve',
                    'source': 'rbql-py/rbql/csv_utils.py translated on this run', 'closed_under_the_global_context': True})
        ctx.sample({'kind': 'generated theorem', 'theorem': 'gen_C18_sources_agree_smart_split',
                    'statement': 'gen_js_smart_split src dlm (policy_name pol) preserve = gen_py_smart_split src dlm (policy_name pol) preserve',
                    'source': 'both csv_utils files translated on this run', 'closed_under_the_global_context': True})
        return
    found = nviol0 is not None and len(ctx.violations) > nviol0
    if not found and search_more is not None:
        try:
            search_more(res.get('failed_langs') or ['py', 'js'])
        except lib.CheckFailure as e:
            ctx.notes.append('extended search after a broken obligation could not complete: %s' % str(e)[-300:])
        found = len(ctx.violations) > nviol0
    if found:
        ctx.notes.append('csv_utils translation obligations broken (%s); a concrete failing input was found and reported above' % ', '.join(res['failed']))
        return
    ctx.obligation_failed(res['failed'], res['detail'], THEOREM, case={'csvgen_obligation': res['failed'], 'generated_dir': res['dir'], 'repo': lib.REPO})


def replay(ctx, case):
    res = step(ctx, keep=True)
    ctx.count()
    report(ctx, res, nviol0=len(ctx.violations))
