# csvgen.py - the SECOND tie of the pure CSV string functions (C11 / C10 / C18): translation validation next to the
# correspondence run.  harness/translate_csv.py regenerates Gallina definitions gen_py_<name> from
# $VERIF_REPO/rbql-py/rbql/csv_utils.py on every run (fail closed; the regular expressions are mapped to the hand-written
# scanners by their exact pattern text); build/gen/csv_<pid>/GenCsv.v = these definitions + the committed obligations
# gen_csv_<name>_eq : forall args, gen_py_<name> args = CsvIx.ix_<name> args  (harness/gen_csv_tie.v.tmpl), + the theorems of
# Props/C11.v / C10.v / C18.v transferred to the generated definitions (gen_C11_split_is_dialect, ...).  CsvIx_Proofs.v
# (committed, part of the .vo build) proves CsvIx = Csv.v.  step() compiles the generated file and checks every
# Print Assumptions.  A refused translation or a failing obligation is reported by finish(): the correspondence run of the
# calling check is the search for a failing input (its violations take precedence); if it finds none:
# VIOLATION property=<id> ... no-failing-input-found with the broken obligation named in the replay file.
import json
import os
import re
import shutil
import threading
import time
import lib

THEOREM = ('gen_csv_<name>_eq (generated: the translation of rbql-py/rbql/csv_utils.py = the index model CsvIx.v) + '
           'C11_index_model_* (Props/C11.v: CsvIx.v = Csv.v) => gen_C11_split_is_dialect, gen_C10_line_roundtrip, gen_C18_quote_agree ...')
CHECKER = ('python3 harness/translate_csv.py build/gen/csv_<pid> (VERIF_REPO); coqc -Q coq/theories RBQL -Q build/gen/csv_<pid> RBQLGen '
           'build/gen/csv_<pid>/GenCsv.v (every run; every Print Assumptions parsed)')


def step(ctx, keep=False):
    """translate csv_utils.py, compile the generated file -> dict(ok, failed, detail, dir, theorems, facts, stage)"""
    d = os.path.join(lib.BUILD, 'gen', 'csv_%d' % os.getpid())
    shutil.rmtree(d, ignore_errors=True)
    os.makedirs(d)
    res = {'ok': False, 'failed': [], 'detail': '', 'dir': d, 'theorems': [], 'closed': [], 'facts': None, 'stage': 'translate'}
    t0 = time.time()
    env = dict(os.environ)
    env['VERIF_REPO'] = lib.REPO
    env['PYTHONDONTWRITEBYTECODE'] = '1'
    try:
        rc, out = lib.sh(['timeout', '60', 'python3', os.path.join(lib.VERIF, 'harness', 'translate_csv.py'), d], env=env, timeout=90)
    except Exception as e:                                   # noqa: BLE001
        rc, out = 99, 'translator did not finish: %r' % e
    res['translate_s'] = round(time.time() - t0, 2)
    if rc != 0:
        res['failed'] = ['translate_csv']
        res['detail'] = 'the translator refused rbql-py/rbql/csv_utils.py (rc=%d): %s' % (rc, out.strip()[-800:])
        return res
    facts = json.load(open(os.path.join(d, 'GenCsv.json')))
    res['facts'] = facts
    res['theorems'] = thms = facts['theorems']
    res['stage'] = 'coqc'
    t1 = time.time()
    cmd = 'cd %s && ulimit -s unlimited; timeout 240 coqc -Q %s RBQL -Q %s RBQLGen %s 2>&1' % (d, os.path.join(lib.COQ, 'theories'), d, os.path.join(d, 'GenCsv.v'))
    try:
        rc, out = lib.sh(['bash', '-c', cmd], timeout=300)
    except Exception as e:                                   # noqa: BLE001
        rc, out = 99, 'coqc did not finish: %r' % e
    res['coqc_s'] = round(time.time() - t1, 2)
    blocks = [b for b in re.split(r'(?=Closed under the global context|Axioms:)', out) if b.startswith('Closed under') or b.startswith('Axioms:')]
    closed = {}
    for n, b in zip(thms, blocks):                 # one Print Assumptions per theorem, in order; coqc stops at the first error
        closed[n] = b.startswith('Closed under')
    res['closed'] = [n for n in thms if closed.get(n)]
    if rc == 0 and len(blocks) == len(thms) and all(closed.get(n) for n in thms):
        res['ok'] = True
        if not keep:
            shutil.rmtree(d, ignore_errors=True)
        return res
    m = re.search(r'\(in proof ([A-Za-z0-9_\']+)\)', out)
    first = m.group(1) if m else next((n for n in thms if not closed.get(n)), 'GenCsv.v')
    res['failed'] = [first]
    res['not_checked'] = [n for n in thms if n not in closed and n != first]
    tail = '\n'.join(l for l in out.split('\n') if l.strip() and not l.startswith('Closed under'))
    res['detail'] = ('the translation of csv_utils.py no longer equals the hand model: obligation %s fails (coqc rc=%d; the obligations after it were not checked: %s): %s'
                     % (first, rc, ', '.join(res['not_checked']) or '-', tail.strip()[-600:]))
    return res


def start(ctx):
    """run step() beside the correspondence run (it only spawns processes)"""
    box = {}

    def bg():
        try:
            box['res'] = step(ctx)
        except Exception as e:                               # noqa: BLE001
            box['res'] = {'ok': False, 'failed': ['csvgen.step'], 'detail': 'csvgen step raised %r' % e, 'dir': '', 'theorems': [], 'closed': [], 'facts': None, 'stage': 'harness'}
    th = threading.Thread(target=bg)
    th.start()
    return th, box, len(ctx.violations)


def finish(ctx, handle, search_more=None):
    th, box, nviol0 = handle
    th.join()
    res = box['res']
    report(ctx, res, nviol0, search_more)


def report(ctx, res, nviol0=None, search_more=None):
    facts = res.get('facts') or {}
    ctx.generated_checker = CHECKER
    for n in res['theorems']:
        ctx.generated_obligations[n] = n in res['closed']
    if not res['theorems']:
        ctx.generated_obligations['translate_csv'] = False
    ctx.stat('csvgen_functions_translated', len(facts.get('functions', [])))
    ctx.stat('csvgen_ast_nodes', sum(f['ast_nodes'] for f in facts.get('functions', [])))
    ctx.notes.append({'csv_translation': {'ok': res['ok'], 'stage': res['stage'], 'failed': res['failed'], 'translate_s': res.get('translate_s'), 'coqc_s': res.get('coqc_s'),
                                          'functions': facts.get('functions'), 'skipped_functions': facts.get('skipped'), 'patterns_mapped_to_scanners': facts.get('patterns'),
                                          'generated_theorems': res['theorems'], 'not_translated': 'rbql-js/csv_utils.js (tied by the correspondence run only)'}})
    if res['ok']:
        ctx.sample({'kind': 'generated obligation', 'theorem': 'gen_csv_split_quoted_str_eq',
                    'statement': 'forall src dlm preserve, gen_py_split_quoted_str src dlm preserve = ix_split_quoted_str src dlm preserve',
                    'source': 'rbql-py/rbql/csv_utils.py translated on this run', 'closed_under_the_global_context': True})
        return
    found = nviol0 is not None and len(ctx.violations) > nviol0
    if not found and search_more is not None:
        try:
            search_more()
        except lib.CheckFailure as e:
            ctx.notes.append('extended search after a broken obligation could not complete: %s' % str(e)[-300:])
        found = len(ctx.violations) > nviol0
    if found:
        ctx.notes.append('csv_utils.py translation obligations broken (%s); a concrete failing input was found and reported above' % ', '.join(res['failed']))
        return
    ctx.obligation_failed(res['failed'], res['detail'], THEOREM, case={'csvgen_obligation': res['failed'], 'generated_dir': res['dir'], 'repo': lib.REPO})


def replay(ctx, case):
    res = step(ctx, keep=True)
    ctx.count()
    report(ctx, res, nviol0=len(ctx.violations))
