# Variable-level spellings aN vs a[N], record-number names (VarSpelling.v, entries 535-537) - helper of props/c08.py, not a property.
# Four streams, both ports:
#  map     token soup over {a b 1 0 9 [ ] _ . x space ( ) , " '} and glued fragments (a01, a0, xa1, a1_, a[1]a[2], ...), both prefixes:
#          the model's variable map (numbered_vars, entry 535) against rbql_engine.parse_basic_variables + parse_array_variables /
#          the exported rbql-js functions called directly (additional probe, hasattr-guarded), AND against an independent
#          regex-free reading of the theorems' own predicates (occurs_name / occurs_index: C08_var_index, C08_var_only_if_occurs).
#  query   structured queries through the PUBLIC path rbql.query_table / rbql-js query_table over ragged tables: a select list of
#          field-variable tokens (both prefixes with a JOIN, N up to 10^25 in Python / below 2^53 in rbql-js, wrapped in
#          parentheses / list indexing), each query spelled three ways (every token aN / every token a[N] / mixed); the expected
#          table is computed from the MODEL's lookup of every token (entry 535), so all spellings must give the model's table,
#          not merely agree with each other.
#  nr      NR / aNR / a.NR / bNR / b.NR through the public path, expected from nr_lookup (entry 537).
#  header  tables WITH column names, some of them numerals ("1", "2", "10"): the index each token reads = lookup (entry 536) over the
#          model's get_variables_map (entry 522).
# Findings of this layer (notes/vars08.md) are inputs on which the unchanged code leaves the property while the FAITHFUL model
# predicts exactly what the code does (C08_var_index_js_numeric_column_refuted, C08_record_number_bdotNR_refuted, the 2^53 limit
# of rbql-js): such a case is compared with the property's value first; if the implementation instead shows exactly the faithful
# model's prediction it is counted under 'finding_*' in the evidence and is not a violation; anything else is.
import json
import lib

THEOREM = ('C08_var_index / C08_var_only_if_occurs / C08_aN_bracket_equiv / C08_record_number_spellings (Props/C08.v); '
           'model = VarSpelling.numbered_vars + lookup + nr_lookup')
SOUP = ['a', 'b', '1', '0', '9', '[', ']', '_', '.', 'x', ' ', '(', ')', ',', '"', "'"]
FRAGS = ['a1', 'a[1]', 'b2', 'b[10]', 'a01', 'a0', 'a[0]', 'a[01]', 'aNR', 'a.NR', 'NR', 'a12', 'a[12]', 'b1', 'xa1', 'a1x', '_a1', 'a1_',
         '-a1', '(a1)', 'a1,', 'a[1]a[2]', 'a[ 1 ]', 'a9', 'b[9]', 'a10', 'a[109]', 'ab1', 'a.b1', 'a1.b1', '[a[1]]', ']a[1]', ']a1',
         'a1[', 'a[1', 'a1]', 'b[1][0]', 'a[b[1]]', 'a90', 'a[90]', "'a5'", '"b[7]"', 'a1b2', 'a1 b2', 'A1', 'a١']
LANGS = (('py', 0), ('js', 1))
JS_EXACT = 2 ** 53


def is_word(ch):
    return ch == '_' or ('a' <= ch <= 'z') or ('A' <= ch <= 'Z') or ('0' <= ch <= '9')


def is_digit(ch):
    return '0' <= ch <= '9'


def occurrences(text, p):
    """the theorems' predicates read off the text without a regex engine:
    names = {N : occurs_name text p N}; idx_sure = {N : occurs_index text p N}; idx_loose = the same without the 'not after ]' clause"""
    names, sure, loose = set(), set(), set()
    n = len(text)
    for i in range(n):
        if text[i] != p or (i > 0 and is_word(text[i - 1])):
            continue
        j = i + 1
        k = j
        while k < n and is_digit(text[k]):
            k += 1
        if k > j and text[j] != '0' and (k == n or not is_word(text[k])):
            names.add(int(text[j:k]))
        if j < n and text[j] == '[':
            k = j + 1
            while k < n and is_digit(text[k]):
                k += 1
            if k > j + 1 and text[j + 1] != '0' and k < n and text[k] == ']':
                loose.add(int(text[j + 1:k]))
                if i == 0 or text[i - 1] != ']':
                    sure.add(int(text[j + 1:k]))
    return names, sure, loose


def model_maps(items):
    """items: [(lang code, text, prefix)] -> per item None (not modelled) or {key: (initialize, index, lookup or None)}"""
    args = [lib.enc([code, t, ord(p)]) for code, t, p in items]
    raw = lib.run_model(535, args)
    out = []
    for m in raw:
        if m == 4040404:
            raise lib.CheckFailure('entry 535 could not decode its argument')
        if m[0] == 2:
            out.append(None)
        else:
            out.append({lib.dec_str(e[0]): (bool(e[1]), e[2], (e[3][0] if e[3] else None)) for e in m[1]})
    return args, raw, out


# ------------------------------------------------------------------ stream 1: maps on soup

def gen_soup(rng):
    if rng.random() < 0.5:
        return ''.join(rng.choice(SOUP) for _ in range(rng.randint(1, 14)))
    parts = []
    for _ in range(rng.randint(1, 5)):
        parts.append(rng.choice(FRAGS) if rng.random() < 0.7 else ''.join(rng.choice(SOUP) for _ in range(rng.randint(1, 4))))
    return rng.choice(['', ' ', ',', '+', ')', '']).join(parts)


def run_maps(ctx):
    rng = ctx.rng
    n = 4000 if ctx.tier == 'quick' else 120000
    texts = set(FRAGS)
    while len(texts) < n:
        texts.add(gen_soup(rng))
    texts = sorted(texts)
    # a few big numbers: Python any size, rbql-js exact below 2^53
    texts += ['a%d' % (10 ** 25 + 7), 'a[%d] + a%d' % (10 ** 30, 2 ** 53 - 1), 'b%d,b[%d]' % (2 ** 53 - 1, 2 ** 53 - 2)]
    for lang, code in LANGS:
        cases = [{'kind': 'map', 'q': t, 'prefix': p, 'lang': lang, 'part': 'varspell'} for t in texts for p in 'ab']
        args, raw, mm = model_maps([(code, c['q'], c['prefix']) for c in cases])
        got = lib.run_impl_py('varspell', cases) if lang == 'py' else lib.run_impl_js('varspell', cases, shards=8)
        cs, exp, gt = [], [], []
        for c, m, g in zip(cases, mm, got):
            if m is None:
                ctx.stat('%s_map_not_modelled' % lang)
                continue
            if isinstance(g, dict) and g.get('missing'):
                ctx.stat('%s_map_functions_not_exported' % lang)
                continue
            # the theorems' predicates on this very text (independent reading; instance check of C08_var_index / only_if)
            names, sure, loose = occurrences(c['q'], c['prefix'])
            mnames = {int(k[1:]) for k in m if '[' not in k}
            midx = {int(k[2:-1]) for k in m if '[' in k}
            ok = (mnames == names and sure <= midx <= loose and all(v == (True, int(k.strip('ab[]')) - 1, int(k.strip('ab[]')) - 1) for k, v in m.items()))
            if not ok:
                ctx.violation(c, {'names': sorted(names), 'index_sure': sorted(sure), 'index_at_most': sorted(loose)},
                              {k: list(v) for k, v in m.items()}, THEOREM,
                              'the extracted model does not satisfy C08_var_index / C08_var_only_if_occurs on %r (prefix %s)' % (c['q'], c['prefix']), no_input=True)
            cs.append(c)
            exp.append({'map': sorted([k, v[0], str(v[1])] for k, v in m.items())})
            gt.append(g)
            ctx.stat('%s_map_size_%d' % (lang, min(len(m), 3)))
            if m:
                ctx.nontriv(('map', lang, c['q'], c['prefix']))
            if midx != loose:
                ctx.stat('map_index_after_closing_bracket_not_matched')
        for e, g in zip(exp, gt):
            if isinstance(g, dict) and 'map' in g and rel_map(None, e, g) and g != e:
                ctx.stat('%s_implementation_map_has_extra_unused_variables' % lang)
        ctx.compare(cs, exp, gt, THEOREM + ' ; variable map of parse_basic_variables + parse_array_variables', rel=rel_map,
                    describe=lambda c, e, g: 'variable map (%s, prefix %s) of %r: model %s, implementation %s' % (c['lang'], c['prefix'], c['q'], json.dumps(e), json.dumps(g)),
                    shrink=shrink_map)
        ctx.count(len(cs))
        ctx.cross_check_vm(535, args, raw, n=25 if ctx.tier == 'quick' else 150)
        ctx.sample_safe(lambda: {'stream': 'map', 'lang': lang, 'text': cs[7]['q'], 'prefix': cs[7]['prefix'], 'model': exp[7], 'implementation': gt[7]})


def well_formed_entry(e):
    """[key, initialize, index text] is a numbered variable bound to its own field: aN / a[N], N >= 1 canonical, index N-1"""
    k, ini, idx = e
    if not ini or len(k) < 2 or k[0] not in 'ab':
        return False
    body = k[2:-1] if (k[1] == '[' and k[-1] == ']') else k[1:]
    return body.isascii() and body.isdigit() and body[0] != '0' and idx == str(int(body) - 1)


def rel_map(c, e, g):
    """property-shaped: every variable the model binds (= every token that occurs, C08_var_index) is bound by the implementation
    to the same index; what the implementation binds BEYOND that must be numbered variables bound to their own field (an unused
    extra variable is harmless: the exactness of the model, C08_var_only_if_occurs, is reported in the evidence, not demanded)"""
    if not (isinstance(g, dict) and isinstance(g.get('map'), list) and isinstance(e, dict) and isinstance(e.get('map'), list)):
        return False
    gm = [list(x) for x in g['map']]
    return all(list(x) in gm for x in e['map']) and all(well_formed_entry(x) for x in gm) and len({x[0] for x in gm}) == len(gm)


def eval_map(c):
    code = 0 if c['lang'] == 'py' else 1
    _a, _r, mm = model_maps([(code, c['q'], c['prefix'])])
    g = (lib.run_impl_py if c['lang'] == 'py' else lib.run_impl_js)('varspell', [c], shards=1)[0]
    if mm[0] is None:
        return c, None, None
    return c, {'map': sorted([k, v[0], str(v[1])] for k, v in mm[0].items())}, g


def shrink_map(c, e, g):
    q = c['q']
    best = (c, e, g)
    budget = 40
    i = 0
    while i < len(q) and budget > 0:
        cand = dict(c, q=q[:i] + q[i + 1:])
        budget -= 1
        r = eval_map(cand)
        if r[1] is not None and not rel_map(None, r[1], r[2]):
            q = cand['q']
            best = r
        else:
            i += 1
    return best


# ------------------------------------------------------------------ stream 2: structured queries, three spellings each

def gen_table(rng, nrows, maxw, tag):
    return [['%s%d_%d' % (tag, r, c) for c in range(rng.randint(1, maxw))] for r in range(nrows)]


def tok(p, n, sp):
    return '%s%d' % (p, n) if sp == 0 else '%s[%d]' % (p, n)


WRAPS = ['%s', '%s', '(%s)', '[%s][0]', '( %s )']


def gen_struct(rng, lang):
    join = rng.random() < 0.35
    table = gen_table(rng, rng.randint(1, 4), 6, 'r')
    jt = None
    if join:
        jt = gen_table(rng, rng.randint(1, 3), 5, 's')
        keys = [r[0] for r in table]
        for i, r in enumerate(jt):
            r[0] = rng.choice(keys) if rng.random() < 0.8 else 'nokey%d' % i
    big = [12, 100, 2 ** 31, 10 ** 15, 2 ** 53 - 1] + ([10 ** 25, 2 ** 53 + 1, 2 ** 64] if lang == 'py' else [])
    items = []
    for _ in range(rng.randint(1, 4)):
        p = 'b' if join and rng.random() < 0.45 else 'a'
        n = rng.choice([1, 1, 2, 2, 3, 3, 4, 5, 6, 7]) if rng.random() < 0.85 else rng.choice(big)
        items.append((p, n, rng.choice(WRAPS)))
    sep = rng.choice([', ', ',', ' , '])
    onsp = (rng.randint(0, 1), rng.randint(0, 1))
    tail = rng.choice(['', '', ' where NR > 0', ' order by NR'])

    def text(spell):
        q = 'select ' + sep.join(w % tok(p, n, spell(i)) for i, (p, n, w) in enumerate(items))
        if join:
            q += ' join B on %s == %s' % (tok('a', 1, onsp[0]), tok('b', 1, onsp[1]))
        return q + tail
    mixed = [rng.randint(0, 1) for _ in items]
    spellings = []
    for name, f in (('name', lambda i: 0), ('index', lambda i: 1), ('mixed', lambda i: mixed[i])):
        spellings.append((name, text(f), [tok(p, n, f(i)) for i, (p, n, w) in enumerate(items)]))
    return {'table': table, 'join': jt, 'items': [(p, n) for p, n, w in items]}, spellings


def expected_rows(table, jt, idxs):
    """select of fields: idxs = [(prefix, index or None)]"""
    rows = []
    pairs = [(a, None) for a in table] if jt is None else [(a, b) for a in table for b in jt if b[0] == a[0]]
    for a, b in pairs:
        row = []
        for p, i in idxs:
            r = a if p == 'a' else b
            row.append(r[i] if i < len(r) else None)
        rows.append(row)
    return rows


def run_queries(ctx):
    rng = ctx.rng
    n = 500 if ctx.tier == 'quick' else 12000
    for lang, code in LANGS:
        cases = []
        for gi in range(n):
            base, spellings = gen_struct(rng, lang)
            for name, q, toks in spellings:
                cases.append({'kind': 'query', 'q': q, 'table': base['table'], 'join': base['join'], 'lang': lang, 'part': 'varspell',
                              'spelling': name, 'tokens': toks, 'items': base['items'], 'group': gi})
        items = []
        for c in cases:
            items.append((code, c['q'], 'a'))
            items.append((code, c['q'], 'b'))
        args, raw, mm = model_maps(items)
        got = lib.run_impl_py('varspell', cases) if lang == 'py' else lib.run_impl_js('varspell', cases, shards=12)
        cs, exp, gt = [], [], []
        for k, (c, g) in enumerate(zip(cases, got)):
            ma, mb = mm[2 * k], mm[2 * k + 1]
            if ma is None or mb is None:
                ctx.stat('%s_query_not_modelled' % lang)
                continue
            idxs, ok = [], True
            for (p, nn), t in zip(c['items'], c['tokens']):
                m = ma if p == 'a' else mb
                if t not in m or m[t][2] is None:
                    ok = False
                    break
                idxs.append((p, m[t][2]))
            if not ok:          # cannot happen for a rendered token (C08_var_index); fail closed
                ctx.violation(c, None, None, THEOREM, 'the model does not bind a rendered token of %r' % c['q'], no_input=True)
                continue
            cs.append(c)
            exp.append({'rows': expected_rows(c['table'], c['join'], idxs)})
            gt.append(g)
            ctx.stat('%s_query_%s' % (lang, c['spelling']))
            if c['join'] is not None:
                ctx.stat('%s_query_with_join' % lang)
            if any(i >= len(r) for r in c['table'] for p, i in idxs if p == 'a'):
                ctx.stat('%s_query_reads_beyond_a_short_record' % lang)
            ctx.nontriv(('query', lang, c['q'], json.dumps(c['table'])))
        ctx.compare(cs, exp, gt, THEOREM + ' ; every spelling of a field variable reads the field the model binds it to',
                    describe=lambda c, e, g: '%s query %r (%s spelling) over %s%s: model %s, implementation %s' % (
                        c['lang'], c['q'], c['spelling'], json.dumps(c['table']), ' join ' + json.dumps(c['join']) if c['join'] else '', json.dumps(e), json.dumps(g)))
        ctx.count(len(cs))
        ctx.sample_safe(lambda: {'stream': 'query', 'lang': lang, 'queries': [c['q'] for c in cs[:3]], 'table': cs[0]['table'], 'model': exp[0], 'implementation': gt[0]})


# ------------------------------------------------------------------ stream 3: record-number names

A_NR = ['NR', 'aNR', 'a.NR']
B_NR = ['bNR', 'b.NR']


def run_nr(ctx):
    rng = ctx.rng
    n = 300 if ctx.tier == 'quick' else 5000
    for lang, code in LANGS:
        cases = []
        for _ in range(n):
            table = gen_table(rng, rng.randint(1, 4), 3, 'r')
            join = rng.random() < 0.6
            jt = None
            names = [rng.choice(A_NR) for _ in range(rng.randint(1, 3))]
            q_tail = ''
            if join:
                jt = gen_table(rng, rng.randint(1, 3), 3, 's')
                for i, r in enumerate(jt):
                    r[0] = table[i % len(table)][0]
                names += [rng.choice(B_NR) for _ in range(rng.randint(1, 2))]
                with_field = rng.random() < 0.6
                if with_field:
                    names.append('b1')
                # ON: a field pair, or record numbers on both sides (then the join map may stay empty)
                q_tail = ' join B on ' + (rng.choice(['a1 == b1', 'a[1] == b[1]']) if with_field or rng.random() < 0.5 else '%s == %s' % (rng.choice(A_NR), rng.choice(B_NR)))
            rng.shuffle(names)
            q = 'select ' + ', '.join(names) + q_tail
            cases.append({'kind': 'query', 'q': q, 'table': table, 'join': jt, 'lang': lang, 'part': 'varspell', 'names_used': names, 'stream': 'nr'})
        items = [(code, c['q'], 'b') for c in cases]
        _a, _r, mb = model_maps(items)
        nargs = []
        for c, m in zip(cases, mb):
            jm = 0 if c['join'] is None else (2 if m else 1)
            c['jm'] = jm
            nargs.append(lib.enc([code, c['q'], jm, [x for x in c['names_used'] if x != 'b1']]))
        nres = lib.run_model(537, nargs)
        got = lib.run_impl_py('varspell', cases) if lang == 'py' else lib.run_impl_js('varspell', cases, shards=8)
        cs, exp, gt = [], [], []
        for c, nr, g in zip(cases, nres, got):
            on = c['q'].split(' on ')[1] if c['join'] is not None else None
            if c['join'] is None:
                pairs = [(i + 1, None, a, None) for i, a in enumerate(c['table'])]
            elif on in ('a1 == b1', 'a[1] == b[1]'):
                pairs = [(i + 1, j + 1, a, b) for i, a in enumerate(c['table']) for j, b in enumerate(c['join']) if a[0] == b[0]]
            else:
                pairs = [(i + 1, j + 1, a, b) for i, a in enumerate(c['table']) for j, b in enumerate(c['join']) if i == j]
            prop = [[(b[0] if x == 'b1' else (i if x in A_NR else j)) for x in c['names_used']] for i, j, a, b in pairs]
            bound = iter(nr)
            faithful_ok = all((x == 'b1') or bool(next(bound)) for x in c['names_used'])
            if not faithful_ok:
                # the faithful model says a name is NOT bound (rbql-py: b.NR with an empty join map): finding F3
                if isinstance(g, dict) and 'error' in g and (not pairs or g['error'] == 'RbqlRuntimeError') or (not pairs and g == {'rows': []}):
                    ctx.stat('finding_F3_%s_bdotNR_unbound_with_empty_join_map' % lang)
                    continue
            cs.append(c)
            exp.append({'rows': prop})
            gt.append(g)
            ctx.stat('%s_nr_%s' % (lang, 'join_map_%d' % c['jm']))
            ctx.nontriv(('nr', lang, c['q'], json.dumps(c['table'])))
        ctx.compare(cs, exp, gt, THEOREM + ' ; record-number names',
                    describe=lambda c, e, g: '%s query %r over %s join %s: model %s, implementation %s' % (c['lang'], c['q'], json.dumps(c['table']), json.dumps(c['join']), json.dumps(e), json.dumps(g)))
        ctx.count(len(cs))
        ctx.cross_check_vm(537, nargs, nres, n=15)


# ------------------------------------------------------------------ stream 4: tables with column names (numerals among them)

NAME_POOL = ['1', '2', '10', 'x', 'y z', 'c', 'k2', '3', 'Name']


def run_header(ctx):
    rng = ctx.rng
    n = 400 if ctx.tier == 'quick' else 6000
    protos = []
    for _ in range(n):
        w = rng.randint(1, 4)
        names = rng.sample(NAME_POOL, w)
        table = [['v%d_%d' % (r, c) for c in range(w if r == 0 else rng.randint(1, w + 1))] for r in range(rng.randint(1, 3))]
        toks = []
        for _k in range(rng.randint(1, 4)):
            kind = rng.random()
            if kind < 0.55:
                toks.append(tok('a', rng.choice([1, 1, 2, 2, 3, 4, 10]), rng.randint(0, 1)))
            else:
                nm = rng.choice(names)
                forms = ['a["%s"]' % nm, "a['%s']" % nm] + (['a.' + nm] if nm.isidentifier() else [])
                toks.append(rng.choice(forms))
        protos.append({'names': names, 'table': table, 'tokens': toks, 'q': 'select ' + ', '.join(toks)})
    vargs = [lib.enc([0, p['q'], ord('a'), lib.Opt(p['names']), lib.Opt(len(p['table'][0]))]) for p in protos]
    vm = lib.run_model(522, vargs)
    for lang, code in LANGS:
        largs, keep = [], []
        for p, v in zip(protos, vm):
            if v[0] != 0:
                continue
            vmap = '(' + ' '.join('(%s %d %d)' % (lib.enc(lib.dec_str(k)), 1 if i else 0, nn) for k, i, nn in v[1]) + ')'
            largs.append(lib.enc([code, ord('a'), lib.Raw(vmap), p['tokens']]))
            keep.append(p)
        lres = lib.run_model(536, largs)
        cases = [{'kind': 'query', 'q': p['q'], 'table': p['table'], 'names': p['names'], 'lang': lang, 'part': 'varspell', 'stream': 'header', 'tokens': p['tokens']} for p in keep]
        got = lib.run_impl_py('varspell', cases) if lang == 'py' else lib.run_impl_js('varspell', cases, shards=8)
        cs, exp, gt = [], [], []
        for c, lr, g in zip(cases, lres, got):
            prop_idx = []
            for t in c['tokens']:
                if t.startswith('a["') or t.startswith("a['"):
                    prop_idx.append(c['names'].index(t[3:-2]))
                elif t.startswith('a.'):
                    prop_idx.append(c['names'].index(t[2:]))
                else:
                    prop_idx.append(int(t.strip('a[]')) - 1)
            # (attribute tokens a.name are not read through [lookup]: rbql-js reads the same property as a["name"], Python the attribute)
            faithful_idx = [(pi if t.startswith('a.') else (x[0] if x else None)) for x, t, pi in zip(lr, c['tokens'], prop_idx)]
            rows = lambda idxs: [[(r[i] if i < len(r) else None) for i in idxs] for r in c['table']]
            if faithful_idx != prop_idx:
                # the faithful model itself leaves the property (rbql-js: a[N] and a column called N share one key): finding F1
                if None not in faithful_idx and g == {'rows': rows(faithful_idx)}:
                    ctx.stat('finding_F1_%s_numeral_column_name_captures_index_spelling' % lang)
                    continue
            cs.append(c)
            exp.append({'rows': rows(prop_idx)})
            gt.append(g)
            ctx.stat('%s_header_cases' % lang)
            ctx.nontriv(('header', lang, c['q'], json.dumps(c['names'])))
        ctx.compare(cs, exp, gt, THEOREM + ' ; tables with column names: every token reads its own column',
                    describe=lambda c, e, g: '%s query %r, column names %s, table %s: expected %s, implementation %s' % (c['lang'], c['q'], json.dumps(c['names']), json.dumps(c['table']), json.dumps(e), json.dumps(g)))
        ctx.count(len(cs))
        ctx.cross_check_vm(536, largs, lres, n=15)


# ------------------------------------------------------------------ fixed probes of the 2^53 limit of rbql-js (finding F2), evidence only

def run_limits(ctx):
    t = [['x', 'y'], ['p']]
    n = 2 ** 53 + 1
    cases = [{'kind': 'query', 'q': 'select a%d' % n, 'table': t, 'lang': 'js', 'part': 'varspell'},
             {'kind': 'query', 'q': 'select a[%d]' % n, 'table': t, 'lang': 'js', 'part': 'varspell'}]
    gj = lib.run_impl_js('varspell', cases, shards=1)
    gp = lib.run_impl_py('varspell', cases, shards=1)
    ok = {'rows': [[None], [None]]}
    ctx.compare([dict(c, lang='py') for c in cases], [ok, ok], gp, THEOREM + ' ; N above 2^53 (Python: unbounded integers)')
    ctx.count(2)
    if gj[0] != ok and gj[1] == ok:
        ctx.stat('finding_F2_js_name_spelling_fails_above_2pow53')
    elif gj != [ok, ok]:
        ctx.compare(cases, [ok, ok], gj, THEOREM + ' ; N above 2^53 in rbql-js')


def run(ctx, theorem=None):
    if isinstance(getattr(ctx, 'rule', None), str):
        ctx.rule += ('; variable level (props/varspell.py): token soup and glued variable fragments for the variable maps of both ports, structured '
                     'select lists of field-variable tokens in three spellings (all aN / all a[N] / mixed) over ragged tables with and without JOIN, '
                     'record-number names, tables with numeral column names; non-trivial = distinct text binding at least one variable / distinct (query, table)')
    run_maps(ctx)
    run_queries(ctx)
    run_nr(ctx)
    run_header(ctx)
    run_limits(ctx)


def replay(ctx, case, theorem=None):
    lang = case.get('lang', 'py')
    code = 0 if lang == 'py' else 1
    run_impl = (lib.run_impl_py if lang == 'py' else lib.run_impl_js)
    ctx.count(1)
    if case.get('kind') == 'map':
        c, e, g = eval_map(case)
        if e is not None:
            ctx.compare([c], [e], [g], THEOREM, rel=rel_map)
        return
    g = run_impl('varspell', [case], shards=1)
    if case.get('stream') in ('nr', 'header'):
        # replayed against the stored expectation's recipe is stream-specific; re-run the whole (small) stream instead
        run_nr(ctx) if case.get('stream') == 'nr' else run_header(ctx)
        return
    _a, _r, mm = model_maps([(code, case['q'], 'a'), (code, case['q'], 'b')])
    if mm[0] is None or mm[1] is None:
        return
    idxs = []
    for (p, nn), t in zip(case['items'], case['tokens']):
        m = mm[0] if p == 'a' else mm[1]
        idxs.append((p, m[t][2]))
    ctx.compare([case], [{'rows': expected_rows(case['table'], case['join'], idxs)}], g, THEOREM)
