#!/usr/bin/env python3
# fn_variants.py [seeds|variants|all] [name-prefix ...]  - rehearsal for harness/translate_fn.py + the generated obligations (C17 / C09 / C18).
#   seeds     every seeded/*/patch.diff and seeded/harmless/*/patch.diff is applied to a scratch copy of rbql-py / rbql-js; for each job and
#             language the STATIC verdict is computed: SAME (the translated definitions are textually those of the unchanged tree - the
#             patch does not touch a translated function), CLOSED (changed, translated, every obligation proved), REFUSED (translator),
#             UNPROVED (an obligation).  A harmless patch must be SAME or CLOSED; a breaking patch that is not SAME must be REFUSED / UNPROVED.
#   variants  hand-made edits (class EQ = behaviour-preserving, wanted CLOSED; DIFF = behaviour-changing, must ALARM).  The class is not
#             taken on trust: old and new function are run (CPython / node) on every argument of a bounded domain and compared.
# Nothing outside a temporary directory is written.  Exit 1 on a DIFF variant / breaking seed that is CLOSED, a misclassified variant, or a
# harmless seed that alarms.
import itertools
import json
import os
import shutil
import subprocess
import sys
import tempfile

HERE = os.path.dirname(os.path.abspath(__file__))
VERIF = os.path.dirname(HERE)
BASE = os.environ.get('VERIF_REPO_BASE', '/repo')
THEORIES = os.path.join(VERIF, 'coq', 'theories')
PY = 'rbql-py/rbql/rbql_engine.py'
JS = 'rbql-js/rbql.js'
JOBS = {'like': {'py': 'GenLike', 'js': 'GenLikeJs'}, 'vars': {'py': 'GenVars', 'js': 'GenVarsJs'}}

# (name, class, job, lang, base harmless patch or None, [(old text, new text), ...])
VARIANTS = [
    ('control-unchanged-like-py', 'EQ', 'like', 'py', None, []),
    ('control-unchanged-vars-js', 'EQ', 'vars', 'js', None, []),
    # ---- like_to_regex, Python
    ('like-py-for-range', 'EQ', 'like', 'py', None, [("    while i < len(pattern):\n", "    for i in range(len(pattern)):\n"), ("        i += 1\n    converted += re.escape(pattern[p:i])", "    i = len(pattern)\n    converted += re.escape(pattern[p:i])")]),
    ('like-py-not-in-continue', 'EQ', 'like', 'py', 'C17-h1', []),
    ('like-py-swapped-test', 'EQ', 'like', 'py', None, [("    while i < len(pattern):", "    while len(pattern) > i:")]),
    ('like-py-eq-chain', 'EQ', 'like', 'py', None, [("if pattern[i] in ['_', '%']:", "if pattern[i] == '_' or pattern[i] == '%':")]),
    ('like-py-percent-first', 'EQ', 'like', 'py', None, [("            if pattern[i] == '_':\n                converted += '.'\n            else:\n                converted += '.*'",
                                                         "            if pattern[i] == '%':\n                converted += '.*'\n            else:\n                converted += '.'")]),
    ('like-py-anchor-first', 'EQ', 'like', 'py', None, [("    converted = ''\n    while i < len(pattern)", "    converted = '^'\n    while i < len(pattern)"), ("    return '^' + converted + '$'", "    return converted + '$'")]),
    ('like-py-slice-to-len', 'EQ', 'like', 'py', None, [("    converted += re.escape(pattern[p:i])\n    return", "    converted += re.escape(pattern[p:len(pattern)])\n    return")]),
    ('like-py-no-escape', 'DIFF', 'like', 'py', None, [("            converted += re.escape(pattern[p:i])\n", "            converted += pattern[p:i]\n")]),
    ('like-py-underscore-star', 'DIFF', 'like', 'py', None, [("                converted += '.'\n", "                converted += '.*'\n")]),
    ('like-py-off-by-one', 'DIFF', 'like', 'py', None, [("            p = i + 1\n", "            p = i\n")]),
    ('like-py-no-end-anchor', 'DIFF', 'like', 'py', None, [("    return '^' + converted + '$'", "    return '^' + converted")]),
    ('like-py-only-percent', 'DIFF', 'like', 'py', None, [("if pattern[i] in ['_', '%']:", "if pattern[i] in ['%']:")]),
    ('like-py-tail-dropped', 'DIFF', 'like', 'py', None, [("    converted += re.escape(pattern[p:i])\n    return", "    return")]),
    ('like-py-stop-early', 'DIFF', 'like', 'py', None, [("    while i < len(pattern):", "    while i < len(pattern) - 1:")]),
    ('like-py-seed-h1-broken', 'DIFF', 'like', 'py', 'C17-h1', [("        run_start = i + 1\n", "        run_start = i\n")]),
    # ---- like_to_regex / regexp_escape, JavaScript
    ('like-js-for-loop', 'EQ', 'like', 'js', 'C17-h2', []),
    ('like-js-inlined-escape', 'EQ', 'like', 'js', None, [("converted += regexp_escape(pattern.substring(p, i));\n            p = i + 1;", "converted += pattern.substring(p, i).replace(/[.*+?^${}()|[\\]\\\\]/g, '\\\\$&');\n            p = i + 1;")]),
    ('like-js-strict-eq', 'EQ', 'like', 'js', None, [("if (pattern.charAt(i) == '_' || pattern.charAt(i) == '%') {", "if (pattern.charAt(i) === '%' || pattern.charAt(i) === '_') {")]),
    ('like-js-escape-misses-dot', 'DIFF', 'like', 'js', None, [("text.replace(/[.*+?^${}()|[\\]\\\\]/g, '\\\\$&')", "text.replace(/[*+?^${}()|[\\]\\\\]/g, '\\\\$&')")]),
    ('like-js-escape-doubles', 'DIFF', 'like', 'js', None, [("'\\\\$&');  // $& means", "'\\\\\\\\$&');  // $& means")]),
    ('like-js-substring-off', 'DIFF', 'like', 'js', None, [("converted += regexp_escape(pattern.substring(p, i));\n            p = i + 1;", "converted += regexp_escape(pattern.substring(p, i + 1));\n            p = i + 1;")]),
    ('like-js-h2-broken', 'DIFF', 'like', 'js', 'C17-h2', [("(c === '_' ? '.' : '.*')", "(c === '%' ? '.' : '.*')")]),
    # ---- escape of a column name / prefilter
    ('esc-py-else-branch', 'EQ', 'vars', 'py', None, [("    if quote_char == '\"':\n        return column_name.replace('\"', '\\\\\"')\n    return column_name.replace(\"'\", \"\\\\'\")",
                                                       "    if quote_char == \"'\":\n        return column_name.replace(\"'\", \"\\\\'\")\n    else:\n        return column_name.replace('\"', '\\\\\"')")]),
    ('esc-py-chained', 'EQ', 'vars', 'py', None, [("    column_name = column_name.replace('\\\\', '\\\\\\\\')\n    column_name = column_name.replace('\\n', '\\\\n')\n", "    column_name = column_name.replace('\\\\', '\\\\\\\\').replace('\\n', '\\\\n')\n")]),
    ('esc-py-backslash-last', 'DIFF', 'vars', 'py', None, [("    column_name = column_name.replace('\\\\', '\\\\\\\\')\n    column_name = column_name.replace('\\n', '\\\\n')\n", "    column_name = column_name.replace('\\n', '\\\\n')\n    column_name = column_name.replace('\\\\', '\\\\\\\\')\n")]),
    ('esc-py-no-tab', 'DIFF', 'vars', 'py', None, [("    column_name = column_name.replace('\\t', '\\\\t')\n", "")]),
    ('esc-py-no-assert', 'DIFF', 'vars', 'py', None, [("    assert quote_char in ['\"', \"'\"]\n", "")]),
    ('pre-py-all-comprehension-style', 'EQ', 'vars', 'py', None, [("        if query_text.find(continuous_segment) == -1:\n            return False", "        if continuous_segment not in query_text:\n            return False")]),
    ('pre-py-any-segment', 'DIFF', 'vars', 'py', None, [("        if query_text.find(continuous_segment) == -1:\n            return False\n    return True", "        if query_text.find(continuous_segment) != -1:\n            return True\n    return False")]),
    ('pre-py-narrower-class', 'DIFF', 'vars', 'py', None, [("re.findall('[-a-zA-Z0-9_:;+=!.,()%^#@&* ]+', column_name)", "re.findall('[-a-zA-Z0-9_:;+=!.,()%^#@&*]+', column_name)")]),
    ('esc-js-quote-order', 'EQ', 'vars', 'js', None, [("    if (quote_char === \"'\")\n        return column_name.replace(/'/g, \"\\\\'\");\n    if (quote_char === '\"')\n        return column_name.replace(/\"/g, '\\\\\"');",
                                                       "    if (quote_char === '\"')\n        return column_name.replace(/\"/g, '\\\\\"');\n    if (quote_char === \"'\")\n        return column_name.replace(/'/g, \"\\\\'\");")]),
    ('esc-js-not-global', 'DIFF', 'vars', 'js', None, [("column_name.replace(/\\n/g, '\\\\n')", "column_name.replace(/\\n/, '\\\\n')")]),
    ('esc-js-wrong-letter', 'DIFF', 'vars', 'js', None, [("column_name.replace(/\\r/g, '\\\\r')", "column_name.replace(/\\r/g, '\\\\n')")]),
    ('pre-js-includes', 'EQ', 'vars', 'js', None, [("        if (query_text.indexOf(continuous_segment) == -1)\n            return false;", "        if (!query_text.includes(continuous_segment))\n            return false;")]),
    ('pre-js-always-true', 'DIFF', 'vars', 'js', None, [("        if (query_text.indexOf(continuous_segment) == -1)\n            return false;", "        if (query_text.indexOf(continuous_segment) == -2)\n            return false;")]),
]


def scratch(tmp, name):
    d = os.path.join(tmp, name)
    shutil.rmtree(d, ignore_errors=True)
    for sub in ('rbql-py/rbql', 'rbql-js'):
        os.makedirs(os.path.join(d, sub), exist_ok=True)
        for f in os.listdir(os.path.join(BASE, sub)):
            p = os.path.join(BASE, sub, f)
            if os.path.isfile(p):
                shutil.copy(p, os.path.join(d, sub, f))
    return d


def apply_patch(d, patch):
    r = subprocess.run(['patch', '-p1', '-s', '-f', '--no-backup-if-mismatch', '-i', patch], cwd=d, capture_output=True, text=True)
    return r.returncode == 0 or 'rbql' not in r.stdout       # hunks for files outside the two directories are ignored


def definitions(repo, job, lang):
    r = subprocess.run(['python3', os.path.join(HERE, 'translate_fn.py'), '--print', 'X_', job, lang], env=dict(os.environ, VERIF_REPO=repo), capture_output=True, text=True)
    return r.returncode, r.stdout, r.stderr.strip()


def verdict(repo, out, job, lang):
    base = JOBS[job][lang]
    shutil.rmtree(out, ignore_errors=True)
    r = subprocess.run(['python3', os.path.join(HERE, 'translate_fn.py'), out, job, lang], env=dict(os.environ, VERIF_REPO=repo), capture_output=True, text=True)
    if r.returncode != 0:
        return 'REFUSED', r.stderr.strip()[-200:]
    c = subprocess.run('ulimit -s unlimited; timeout 240 coqc -Q %s RBQL -Q %s RBQLGen %s 2>&1' % (THEORIES, out, os.path.join(out, base + '.v')), shell=True, capture_output=True, text=True)
    thms = json.load(open(os.path.join(out, base + '.json')))['theorems']
    if c.returncode == 0 and c.stdout.count('Closed under the global context') == len(thms):
        return 'CLOSED', ''
    import re
    m = re.search(r'\(in proof ([A-Za-z0-9_\']+)\)', c.stdout)
    return 'UNPROVED', (m.group(1) if m else c.stdout.strip()[-200:])


def seeds(prefixes):
    tmp = tempfile.mkdtemp(prefix='fnvar_')
    bad = 0
    base_defs = {(j, l): definitions(BASE, j, l)[1] for j in JOBS for l in JOBS[j]}
    sd = os.path.join(VERIF, 'seeded')
    names = sorted(n for n in os.listdir(sd) if n != 'harmless') + sorted('harmless/' + n for n in os.listdir(os.path.join(sd, 'harmless')))
    rows = []
    for n in names:
        if prefixes and not any(n.split('/')[-1].startswith(p) for p in prefixes):
            continue
        patch = os.path.join(sd, n, 'patch.diff')
        if not os.path.exists(patch):
            continue
        txt = open(patch, encoding='utf-8', errors='replace').read()
        if 'rbql_engine.py' not in txt and 'rbql-js/rbql.js' not in txt:
            continue
        d = scratch(tmp, 'seed')
        apply_patch(d, patch)
        harmless = n.startswith('harmless/')
        for j in JOBS:
            for l in JOBS[j]:
                rc, defs, err = definitions(d, j, l)
                if rc == 0 and defs == base_defs[(j, l)]:
                    continue
                v, detail = verdict(d, os.path.join(tmp, 'out'), j, l)
                ok = (v == 'CLOSED') if harmless else (v != 'CLOSED')
                rows.append((n, j, l, v, detail, ok))
                print('%-16s %-5s %-3s %-9s %s %s' % (n, j, l, v, '' if ok else '<== WRONG', detail[:160]), flush=True)
                bad += 0 if ok else 1
    shutil.rmtree(tmp, ignore_errors=True)
    print('seeds: %d patches change a translated function; %d wrong verdicts' % (len(rows), bad))
    return bad


PY_DRIVER = r'''
import sys, json, itertools, importlib.util
def load(p):
    import ast, types
    tree = ast.parse(open(p, encoding='utf-8').read())
    ns = {}
    for st in tree.body:          # the top-level functions and plain imports only (the module itself is part of a package)
        if isinstance(st, ast.FunctionDef) or (isinstance(st, ast.Import)) or (isinstance(st, ast.Assign) and all(isinstance(t, ast.Name) for t in st.targets)):
            try:
                exec(compile(ast.Module(body=[st], type_ignores=[]), p, 'exec'), ns)
            except Exception:
                pass
    return types.SimpleNamespace(**ns)
m = load(sys.argv[1])
job = sys.argv[2]
out = []
def call(f, *a):
    try:
        return f(*a)
    except Exception as e:
        return 'EXC ' + type(e).__name__
if job == 'like':
    for n in range(6):
        for t in itertools.product('a%_.\\', repeat=n):
            out.append(call(m.like_to_regex, ''.join(t)))
else:
    names = [''.join(t) for n in range(5) for t in itertools.product('a\\\n\t"\'', repeat=n)] + ['\r', 'a\rb', 'x y', 'é-1']
    for nm in names:
        for q in ['"', "'", '`', '', 'ab']:
            out.append(call(m.python_string_escape_column_name, nm, q))
    qs = ['', 'a', 'x y', 'select a["x y"]', 'ab cd', 'é', 'a-1', 'x']
    for nm in ['', 'a', 'x y', 'x"y', 'ab"cd', 'é a', 'a-1', 'q x q', 'x\ty']:
        for q in qs:
            out.append(call(m.query_probably_has_dictionary_variable, q, nm))
print(json.dumps(out))
'''

JS_DRIVER = r'''
const fs = require('fs'); const vm = require('vm');
const src = fs.readFileSync(process.argv[2], 'utf-8'); const job = process.argv[3];
function cut(name) { const i = src.search(new RegExp('^function ' + name + '\\(', 'm')); if (i < 0) return ''; const j = src.indexOf('\n}', i); return src.substring(i, j + 2); }
const consts = src.split('\n').filter(l => /^const regexp_special_chars/.test(l)).join('\n');
const code = consts + '\nfunction assert(c) { if (!c) throw new Error("assert"); }\n' + ['regexp_escape', 'like_to_regex', 'js_string_escape_column_name', 'get_all_matches', 'query_probably_has_dictionary_variable'].map(cut).join('\n');
const ctx = {}; vm.createContext(ctx); vm.runInContext(code, ctx);
function call(f, ...a) { try { return vm.runInContext(f, ctx)(...a); } catch (e) { return 'EXC'; } }
function words(alpha, maxn) { let out = ['']; let cur = ['']; for (let n = 0; n < maxn; n++) { let nxt = []; for (const w of cur) for (const c of alpha) nxt.push(w + c); out = out.concat(nxt); cur = nxt; } return out; }
const out = [];
if (job == 'like') { for (const w of words(['a', '%', '_', '.', '\\', ']'], 5)) out.push(call('like_to_regex', w)); }
else {
  for (const nm of words(['a', '\\', '\n', '\t', '"', "'", '\r', '`'], 3)) for (const q of ['"', "'", '`', '', 'ab']) out.push(call('js_string_escape_column_name', nm, q));
  for (const nm of ['', 'a', 'x y', 'x"y', 'ab"cd', 'é a', 'a-1', 'q x q', 'x\ty']) for (const q of ['', 'a', 'x y', 'select a["x y"]', 'ab cd', 'é', 'a-1', 'x']) out.push(call('query_probably_has_dictionary_variable', q, nm));
}
console.log(JSON.stringify(out));
'''


def behaviour(repo, job, lang, tmp):
    if lang == 'py':
        drv = os.path.join(tmp, 'drv.py')
        open(drv, 'w').write(PY_DRIVER)
        r = subprocess.run(['/venv/bin/python', drv, os.path.join(repo, PY), job], capture_output=True, text=True, env=dict(os.environ, PYTHONDONTWRITEBYTECODE='1'))
    else:
        drv = os.path.join(tmp, 'drv.js')
        open(drv, 'w').write(JS_DRIVER)
        r = subprocess.run(['node', drv, os.path.join(repo, JS), job], capture_output=True, text=True)
    if r.returncode != 0:
        return 'DRIVER FAILED: ' + r.stderr[-300:]
    return r.stdout


def variants(prefixes):
    tmp = tempfile.mkdtemp(prefix='fnvar_')
    bad = 0
    counts = {'EQ': [0, 0], 'DIFF': [0, 0]}
    base_beh = {}
    for name, cls, job, lang, patch, edits in VARIANTS:
        if prefixes and not any(name.startswith(p) for p in prefixes):
            continue
        d = scratch(tmp, 'var')
        if patch is not None:
            apply_patch(d, os.path.join(VERIF, 'seeded', 'harmless', patch, 'patch.diff'))
        rel = PY if lang == 'py' else JS
        text = open(os.path.join(d, rel), encoding='utf-8').read()
        missing = False
        for old, new in edits:
            if text.count(old) != 1:
                print('%-34s EDIT DOES NOT APPLY (%d occurrences of %r)' % (name, text.count(old), old[:50]))
                missing = True
                break
            text = text.replace(old, new)
        if missing:
            bad += 1
            continue
        open(os.path.join(d, rel), 'w', encoding='utf-8').write(text)
        if (job, lang) not in base_beh:
            base_beh[(job, lang)] = behaviour(BASE, job, lang, tmp)
        same = behaviour(d, job, lang, tmp) == base_beh[(job, lang)]
        if same != (cls == 'EQ'):
            print('%-34s MISCLASSIFIED: declared %s, bounded comparison says %s' % (name, cls, 'equal' if same else 'different'))
            bad += 1
            continue
        v, detail = verdict(d, os.path.join(tmp, 'out'), job, lang)
        alarm = v != 'CLOSED'
        counts[cls][0] += 1
        counts[cls][1] += 1 if alarm else 0
        wrong = cls == 'DIFF' and not alarm
        print('%-34s %-4s %-4s %-3s %-9s %s %s' % (name, cls, job, lang, v, '<== UNSOUND' if wrong else ('(alarm on a preserving edit)' if cls == 'EQ' and alarm else ''), detail[:140]), flush=True)
        bad += 1 if wrong else 0
    shutil.rmtree(tmp, ignore_errors=True)
    print('variants: behaviour-changing %d, of which alarm %d; behaviour-preserving %d, of which closed %d' % (counts['DIFF'][0], counts['DIFF'][1], counts['EQ'][0], counts['EQ'][0] - counts['EQ'][1]))
    return bad


def main():
    args = sys.argv[1:]
    mode = args[0] if args and args[0] in ('seeds', 'variants', 'all') else 'all'
    prefixes = [a for a in args if a not in ('seeds', 'variants', 'all')]
    bad = 0
    if mode in ('seeds', 'all'):
        bad += seeds(prefixes)
    if mode in ('variants', 'all'):
        bad += variants(prefixes)
    return 1 if bad else 0


if __name__ == '__main__':
    sys.exit(main())
