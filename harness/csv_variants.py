#!/usr/bin/env python3
# csv_variants.py [name-prefix ...]  - rehearsal for harness/translate_csv.py + the obligations gen_csv_<name>_eq (C11 / C10 / C18).
# Every variant is a small textual edit of rbql-py/rbql/csv_utils.py (optionally on top of a patch of seeded/harmless/).  It is
#   EQ    behaviour-preserving: wanted verdict CLOSED (translated, every obligation proved).  A verdict ALARM (refused, or an
#         obligation not proved) is what the brief prescribes for an unproved obligation without a failing input - it is counted
#         and listed, not an error of this script;
#   DIFF  behaviour-changing: the verdict must be ALARM, otherwise the script fails (the second tie would be unsound).
# The class of each variant is not taken on trust: the edited module and the original are both imported and compared on
# every line of length <= 6 over the alphabet {quote, comma, space, x, TAB} x delimiters x policies x modes, and on every
# field of length <= 5 over {quote, comma, LF, CR, x} for the two quoting functions; EQ must agree everywhere, DIFF must differ.
# Nothing outside a temporary directory is written.  Exit 1 on a DIFF variant that is CLOSED or on a misclassified variant.
import importlib.util
import itertools
import os
import shutil
import subprocess
import sys
import tempfile

HERE = os.path.dirname(os.path.abspath(__file__))
VERIF = os.path.dirname(HERE)
BASE = os.environ.get('VERIF_REPO_BASE', '/repo')
REL = 'rbql-py/rbql/csv_utils.py'

# (name, class, base harmless patch or None, [(old text, new text), ...])
VARIANTS = [
    ('control-unchanged', 'EQ', None, []),
    ('in-operator-fast-path', 'EQ', None, [("if src.find('\"') == -1: # Optimization", "if '\"' not in src: # Optimization")]),
    ('in-operator-quote-field', 'EQ', None, [("    if src.find('\"') != -1:\n        return '\"{}\"'.format(src.replace('\"', '\"\"'))\n    if src.find(delim) != -1:\n        return '\"{}\"'.format(src)\n    return src",
                                              "    if '\"' in src:\n        return '\"{}\"'.format(src.replace('\"', '\"\"'))\n    if delim in src:\n        return '\"{}\"'.format(src)\n    return src")]),
    ('find-ge-zero', 'EQ', None, [("if src.find(delim) != -1 or src.find('\\n') != -1 or src.find('\\r') != -1:", "if src.find(delim) >= 0 or '\\n' in src or 0 <= src.find('\\r'):")]),
    ('elif-chain', 'EQ', None, [("    if policy == 'whitespace':", "    elif policy == 'whitespace':"), ("    if policy == 'monocolumn':", "    elif policy == 'monocolumn':"),
                                 ("    return split_quoted_str(src, dlm, preserve_quotes_and_whitespaces)\n\n\ndef extract_line", "    else:\n        return split_quoted_str(src, dlm, preserve_quotes_and_whitespaces)\n\n\ndef extract_line")]),
    ('nested-else-returns', 'EQ', None, [("    if policy == 'simple':\n        return (src.split(dlm), False)\n    if policy == 'whitespace':\n        return (split_whitespace_separated_str(src, preserve_quotes_and_whitespaces), False)\n    if policy == 'monocolumn':\n        return ([src], False)\n    return split_quoted_str(src, dlm, preserve_quotes_and_whitespaces)",
                                          "    if policy == 'simple':\n        fields = src.split(dlm)\n    elif policy == 'whitespace':\n        fields = split_whitespace_separated_str(src, preserve_quotes_and_whitespaces)\n    elif policy == 'monocolumn':\n        fields = [src]\n    else:\n        return split_quoted_str(src, dlm, preserve_quotes_and_whitespaces)\n    return (fields, False)")]),
    ('uidx-negative-test', 'EQ', None, [("    if uidx == -1:\n", "    if uidx < 0:\n")]),
    ('len-ge-two', 'EQ', None, [("if preserve_whitespaces and len(result) > 1:", "if preserve_whitespaces and len(result) >= 2:")]),
    ('swapped-comparisons', 'EQ', None, [("while cidx < len(src):", "while len(src) > cidx:"), ("if cidx == len(src): # The last", "if len(src) == cidx: # The last")]),
    ('warning-by-if', 'EQ', None, [("        warning = warning or extraction_report[1]\n", "        if extraction_report[1]:\n            warning = True\n")]),
    ('concatenation-for-format', 'EQ', None, [("return '\"{}\"'.format(src)\n    return src\n\n\ndef rfc", "return '\"' + src + '\"'\n    return src\n\n\ndef rfc")]),
    ('field-inlined', 'EQ', None, [("    field = src[cidx:uidx]\n    warning = warning or field.find('\"') != -1\n    result.append(field)\n", "    warning = warning or '\"' in src[cidx:uidx]\n    result.append(src[cidx:uidx])\n")]),
    ('rgx-by-if-statement', 'EQ', None, [("    rgx = field_rgx_external_whitespaces if allow_external_whitespaces else field_rgx\n", "    if allow_external_whitespaces:\n        rgx = field_rgx_external_whitespaces\n    else:\n        rgx = field_rgx\n")]),
    ('none-test-inverted', 'EQ', None, [("    if match_obj is not None:\n        match_end = match_obj.span()[1]\n        if match_end == len(src) or src.startswith(dlm, match_end):",
                                         "    if not (match_obj is None):\n        match_end = match_obj.end()\n        if src.startswith(dlm, match_end) or match_end == len(src):")]),
    ('span-unpacked', 'EQ', None, [("        match_end = match_obj.span()[1]\n", "        match_start, match_end = match_obj.span()\n")]),
    ('augmented-assignment', 'EQ', None, [("    return (uidx + len(dlm), warning)", "    uidx += len(dlm)\n    return (uidx, warning)")]),
    ('compiled-patterns-at-module-level', 'EQ', None, [("field_rgx_external_whitespaces = re.compile(' *' + field_regular_expression + ' *')\n", "field_rgx_external_whitespaces = re.compile(' *' + field_regular_expression + ' *')\nws_rgx = re.compile('[^ ]+')\nws_rgx_preserve = re.compile(' *[^ ]+ *')\n"),
                                                        ("    rgxp = re.compile(\" *[^ ]+ *\") if preserve_whitespaces else re.compile(\"[^ ]+\")\n", "    rgxp = ws_rgx_preserve if preserve_whitespaces else ws_rgx\n")]),
    ('comprehension-for-loop', 'EQ', None, [("    result = []\n    for m in rgxp.finditer(src):\n        result.append(m.group())\n", "    result = [m.group(0) for m in rgxp.finditer(src)]\n")]),
    ('findall', 'EQ', None, [("    result = []\n    for m in rgxp.finditer(src):\n        result.append(m.group())\n", "    result = rgxp.findall(src)\n")]),
    ('early-return-no-preserve', 'EQ', None, [("    if preserve_whitespaces and len(result) > 1:\n        for i in range(len(result) - 1):\n            result[i] = result[i][:-1]\n    return result",
                                               "    if not preserve_whitespaces:\n        return result\n    for i in range(len(result) - 1):\n        result[i] = result[i][:-1]\n    return result")]),
    ('on-top-of-C10-h1', 'EQ', 'C10-h1', []),
    ('on-top-of-C11-h1', 'EQ', 'C11-h1', []),
    ('on-top-of-C18-h1', 'EQ', 'C18-h1', []),
    ('C11-h1+in-operator', 'EQ', 'C11-h1', [("if src.find('\"') == -1: # Optimization", "if '\"' not in src: # Optimization")]),
    # ---- behaviour-changing: must alarm
    ('D-match-end-off-by-one', 'DIFF', None, [("if match_end == len(src) or", "if match_end >= len(src) - 1 or")]),
    ('D-delimiter-length-one', 'DIFF', None, [("return (uidx + len(dlm), warning)", "return (uidx + 1, warning)")]),
    ('D-startswith-first-char', 'DIFF', None, [("src.startswith(dlm, match_end):", "src[match_end:match_end + 1] == dlm[:1]:")]),
    ('D-trailing-ge', 'DIFF', None, [("if cidx == len(src): # The last", "if cidx >= len(src): # The last")]),
    ('D-no-unescape', 'DIFF', None, [("result.append(match_obj.group(1).replace('\"\"', '\"'))", "result.append(match_obj.group(1))")]),
    ('D-always-external-whitespaces', 'DIFF', None, [("allow_external_whitespaces = dlm != ' '", "allow_external_whitespaces = True")]),
    ('D-warning-overwritten', 'DIFF', None, [("    warning = warning or field.find('\"') != -1\n", "    warning = field.find('\"') != -1\n")]),
    ('D-loop-warning-overwritten', 'DIFF', None, [("        warning = warning or extraction_report[1]\n", "        warning = extraction_report[1]\n")]),
    ('D-chop-without-preserve', 'DIFF', None, [("if preserve_whitespaces and len(result) > 1:", "if len(result) > 1:")]),
    ('D-chop-all', 'DIFF', None, [("for i in range(len(result) - 1):", "for i in range(len(result)):")]),
    ('D-rstrip', 'DIFF', None, [("result[i] = result[i][:-1]", "result[i] = result[i].rstrip(' ')")]),
    ('D-find-positive', 'DIFF', None, [("    if src.find(delim) != -1:\n        return '\"{}\"'.format(src)\n    return src\n\n\ndef rfc", "    if src.find(delim) > 0:\n        return '\"{}\"'.format(src)\n    return src\n\n\ndef rfc")]),
    ('D-pattern-text', 'DIFF', None, [('re.compile(" *[^ ]+ *")', 're.compile(" *[^ ]+ ?")')]),
    ('lazy-quantifier-in-field-pattern', 'EQ', None, [("""field_regular_expression = '"((?:[^"]*"")*[^"]*)"'""", """field_regular_expression = '"((?:[^"]*"")*[^"]*?)"'""")]),
    ('D-policy-name', 'DIFF', None, [("if policy == 'monocolumn':", "if policy == 'monocolumn' or policy == 'simple ':")]),
    ('D-fast-path-dropped-quote-test', 'DIFF', None, [("if src.find('\"') == -1: # Optimization", "if src.find('\"') != 0: # Optimization")]),
    ('D-rfc-no-cr', 'DIFF', None, [(" or src.find('\\r') != -1:", ":")]),
    ('D-quote-not-doubled', 'DIFF', None, [("def rfc_quote_field(src, delim):\n    # A single regexp can be used to find all 4 characters simultaneously, but this approach doesn't significantly improve performance according to my tests.\n    if src.find('\"') != -1:\n        return '\"{}\"'.format(src.replace('\"', '\"\"'))",
                                            "def rfc_quote_field(src, delim):\n    if src.find('\"') != -1:\n        return '\"{}\"'.format(src.replace('\"', '\\\\\"'))")]),
    ('D-C10-h1-wrong-tail', 'DIFF', 'C10-h1', [("return [field[:-1] for field in result[:-1]] + result[-1:]", "return [field[:-1] for field in result[:-1]] + result[-2:]")]),
]

POLICIES = ['simple', 'quoted', 'quoted_rfc', 'whitespace', 'monocolumn', 'simple ']


def load(path, name):
    spec = importlib.util.spec_from_file_location(name, path)
    m = importlib.util.module_from_spec(spec)
    spec.loader.exec_module(m)
    return m


def behaviour(mod):
    out = []
    alpha = '", x\t'
    for n in range(0, 7):
        for tup in itertools.product(alpha, repeat=n):
            line = ''.join(tup)
            for dlm in (',', ' ', ', ', 'xx', '  '):
                for pol in POLICIES:
                    for pr in (False, True):
                        try:
                            out.append(mod.smart_split(line, dlm, pol, pr))
                        except Exception as e:                   # noqa: BLE001
                            out.append(('EXC', type(e).__name__))
    for n in range(0, 6):
        for tup in itertools.product('",\n\rx', repeat=n):
            f = ''.join(tup)
            for dlm in (',', 'x,'):
                out.append((mod.quote_field(f, dlm), mod.rfc_quote_field(f, dlm)))
    return out


def verdict(repo, out):
    shutil.rmtree(out, ignore_errors=True)
    env = dict(os.environ, VERIF_REPO=repo, PYTHONDONTWRITEBYTECODE='1')
    p = subprocess.run([sys.executable, os.path.join(HERE, 'translate_csv.py'), out], env=env, capture_output=True, text=True)
    if p.returncode != 0:
        return 'ALARM', 'refused: ' + p.stderr.strip().replace(repo + '/', '')[-200:]
    q = subprocess.run(['bash', '-c', 'ulimit -s unlimited; timeout 240 coqc -Q %s RBQL -Q . RBQLGen GenCsv.v 2>&1' % os.path.join(VERIF, 'coq', 'theories')], cwd=out, capture_output=True, text=True)
    if q.returncode != 0:
        import re
        m = re.search(r'\(in proof ([A-Za-z0-9_]+)\)', q.stdout)
        return 'ALARM', 'obligation %s not proved' % (m.group(1) if m else '?: ' + q.stdout[-200:].replace('\n', ' '))
    return 'CLOSED', '%d theorems closed under the global context' % q.stdout.count('Closed under the global context')


def main():
    prefixes = sys.argv[1:]
    base_text = open(os.path.join(BASE, REL), encoding='utf-8').read()
    tmp = tempfile.mkdtemp(prefix='csvvar_')
    try:
        orig_dir = os.path.join(tmp, 'orig')
        os.makedirs(orig_dir)
        open(os.path.join(orig_dir, 'csv_utils.py'), 'w', encoding='utf-8').write(base_text)
        ref = None
        bad = 0
        counts = {'EQ': [0, 0], 'DIFF': [0, 0]}
        alarms = []
        for name, cls, patch, edits in VARIANTS:
            if prefixes and not any(name.startswith(p) for p in prefixes):
                continue
            repo = os.path.join(tmp, 'repo_' + name)
            os.makedirs(os.path.join(repo, 'rbql-py', 'rbql'))
            path = os.path.join(repo, REL)
            open(path, 'w', encoding='utf-8').write(base_text)
            if patch:
                r = subprocess.run(['patch', '-p1', '-s', '-i', os.path.join(VERIF, 'seeded', 'harmless', patch, 'patch.diff')], cwd=repo, capture_output=True, text=True)
                if r.returncode != 0:
                    print('%-36s BASE PATCH DOES NOT APPLY' % name)
                    bad += 1
                    continue
            text = open(path, encoding='utf-8').read()
            ok = True
            for old, new in edits:
                if text.count(old) != 1:
                    print('%-36s EDIT DOES NOT APPLY (%d occurrences): %r' % (name, text.count(old), old[:50]))
                    ok = False
                    break
                text = text.replace(old, new)
            if not ok:
                bad += 1
                continue
            open(path, 'w', encoding='utf-8').write(text)
            if ref is None:
                ref = behaviour(load(os.path.join(orig_dir, 'csv_utils.py'), 'csv_utils_orig'))
            try:
                same = behaviour(load(path, 'csv_utils_' + str(abs(hash(name))))) == ref
            except Exception as e:                               # noqa: BLE001
                same = False
                print('  (%s: the edited module failed: %r)' % (name, e))
            if same != (cls == 'EQ'):
                print('%-36s MISCLASSIFIED: declared %s but the bounded comparison says %s' % (name, cls, 'equal' if same else 'different'))
                bad += 1
                continue
            v, detail = verdict(repo, os.path.join(tmp, 'out_' + name))
            counts[cls][0] += 1
            if v == 'CLOSED':
                counts[cls][1] += 1
            status = 'ok'
            if cls == 'DIFF' and v == 'CLOSED':
                status = 'UNSOUND: a behaviour-changing edit passed'
                bad += 1
            if cls == 'EQ' and v == 'ALARM':
                status = 'alarm on a harmless edit'
                alarms.append(name)
            print('%-36s %-4s -> %-6s %-28s %s' % (name, cls, v, status, detail[:150]))
            sys.stdout.flush()
        print('EQ: %d variants, %d closed, %d alarm (%s); DIFF: %d variants, %d alarm, %d closed' % (
            counts['EQ'][0], counts['EQ'][1], counts['EQ'][0] - counts['EQ'][1], ', '.join(alarms) or '-', counts['DIFF'][0], counts['DIFF'][0] - counts['DIFF'][1], counts['DIFF'][1]))
        return 1 if bad else 0
    finally:
        shutil.rmtree(tmp, ignore_errors=True)


if __name__ == '__main__':
    sys.exit(main())
