#!/usr/bin/env python3
# csv_variants.py [name-prefix ...]  - rehearsal for harness/translate_csv.py + the obligations gen_csv_<name>_eq (C11 / C10 / C18).
# Every variant is a small textual edit of rbql-py/rbql/csv_utils.py - or, names js-*, of rbql-js/csv_utils.js, compared through node -
# (optionally on top of a patch of seeded/harmless/).  It is
#   EQ    behaviour-preserving: wanted verdict CLOSED (translated, every obligation proved).  A verdict ALARM (refused, or an
#         obligation not proved) is what the brief prescribes for an unproved obligation without a failing input - it is counted
#         and listed, not an error of this script;
#   DIFF  behaviour-changing: the verdict must be ALARM, otherwise the script fails (the second tie would be unsound).
# The class of each variant is not taken on trust: the edited module and the original are both imported and compared on
# every line of length <= 6 over the alphabet {quote, comma, space, x, TAB} x delimiters x policies x modes, and on every
# field of length <= 5 over {quote, comma, LF, CR, x} for the two quoting functions; EQ must agree everywhere, DIFF must differ.
# Nothing outside a temporary directory is written.  Exit 1 on a DIFF variant that is CLOSED or on a misclassified variant.
import importlib.util
import itertools
import os
import shutil
import subprocess
import sys
import tempfile

HERE = os.path.dirname(os.path.abspath(__file__))
VERIF = os.path.dirname(HERE)
BASE = os.environ.get('VERIF_REPO_BASE', '/repo')
REL = 'rbql-py/rbql/csv_utils.py'
REL_JS = 'rbql-js/csv_utils.js'
THEORIES = os.environ.get('VERIF_THEORIES', os.path.join(VERIF, 'coq', 'theories'))

# (name, class, base harmless patch or None, [(old text, new text), ...])
VARIANTS = [
    ('control-unchanged', 'EQ', None, []),
    ('in-operator-fast-path', 'EQ', None, [("if src.find('\"') == -1: # Optimization", "if '\"' not in src: # Optimization")]),
    ('in-operator-quote-field', 'EQ', None, [("    if src.find('\"') != -1:\n        return '\"{}\"'.format(src.replace('\"', '\"\"'))\n    if src.find(delim) != -1:\n        return '\"{}\"'.format(src)\n    return src",
                                              "    if '\"' in src:\n        return '\"{}\"'.format(src.replace('\"', '\"\"'))\n    if delim in src:\n        return '\"{}\"'.format(src)\n    return src")]),
    ('find-ge-zero', 'EQ', None, [("if src.find(delim) != -1 or src.find('\\n') != -1 or src.find('\\r') != -1:", "if src.find(delim) >= 0 or '\\n' in src or 0 <= src.find('\\r'):")]),
    ('elif-chain', 'EQ', None, [("    if policy == 'whitespace':", "    elif policy == 'whitespace':"), ("    if policy == 'monocolumn':", "    elif policy == 'monocolumn':"),
                                 ("    return split_quoted_str(src, dlm, preserve_quotes_and_whitespaces)\n\n\ndef extract_line", "    else:\n        return split_quoted_str(src, dlm, preserve_quotes_and_whitespaces)\n\n\ndef extract_line")]),
    ('nested-else-returns', 'EQ', None, [("    if policy == 'simple':\n        return (src.split(dlm), False)\n    if policy == 'whitespace':\n        return (split_whitespace_separated_str(src, preserve_quotes_and_whitespaces), False)\n    if policy == 'monocolumn':\n        return ([src], False)\n    return split_quoted_str(src, dlm, preserve_quotes_and_whitespaces)",
                                          "    if policy == 'simple':\n        fields = src.split(dlm)\n    elif policy == 'whitespace':\n        fields = split_whitespace_separated_str(src, preserve_quotes_and_whitespaces)\n    elif policy == 'monocolumn':\n        fields = [src]\n    else:\n        return split_quoted_str(src, dlm, preserve_quotes_and_whitespaces)\n    return (fields, False)")]),
    ('uidx-negative-test', 'EQ', None, [("    if uidx == -1:\n", "    if uidx < 0:\n")]),
    ('len-ge-two', 'EQ', None, [("if preserve_whitespaces and len(result) > 1:", "if preserve_whitespaces and len(result) >= 2:")]),
    ('swapped-comparisons', 'EQ', None, [("while cidx < len(src):", "while len(src) > cidx:"), ("if cidx == len(src): # The last", "if len(src) == cidx: # The last")]),
    ('warning-by-if', 'EQ', None, [("        warning = warning or extraction_report[1]\n", "        if extraction_report[1]:\n            warning = True\n")]),
    ('concatenation-for-format', 'EQ', None, [("return '\"{}\"'.format(src)\n    return src\n\n\ndef rfc", "return '\"' + src + '\"'\n    return src\n\n\ndef rfc")]),
    ('field-inlined', 'EQ', None, [("    field = src[cidx:uidx]\n    warning = warning or field.find('\"') != -1\n    result.append(field)\n", "    warning = warning or '\"' in src[cidx:uidx]\n    result.append(src[cidx:uidx])\n")]),
    ('rgx-by-if-statement', 'EQ', None, [("    rgx = field_rgx_external_whitespaces if allow_external_whitespaces else field_rgx\n", "    if allow_external_whitespaces:\n        rgx = field_rgx_external_whitespaces\n    else:\n        rgx = field_rgx\n")]),
    ('none-test-inverted', 'EQ', None, [("    if match_obj is not None:\n        match_end = match_obj.span()[1]\n        if match_end == len(src) or src.startswith(dlm, match_end):",
                                         "    if not (match_obj is None):\n        match_end = match_obj.end()\n        if src.startswith(dlm, match_end) or match_end == len(src):")]),
    ('span-unpacked', 'EQ', None, [("        match_end = match_obj.span()[1]\n", "        match_start, match_end = match_obj.span()\n")]),
    ('augmented-assignment', 'EQ', None, [("    return (uidx + len(dlm), warning)", "    uidx += len(dlm)\n    return (uidx, warning)")]),
    ('compiled-patterns-at-module-level', 'EQ', None, [("field_rgx_external_whitespaces = re.compile(' *' + field_regular_expression + ' *')\n", "field_rgx_external_whitespaces = re.compile(' *' + field_regular_expression + ' *')\nws_rgx = re.compile('[^ ]+')\nws_rgx_preserve = re.compile(' *[^ ]+ *')\n"),
                                                        ("    rgxp = re.compile(\" *[^ ]+ *\") if preserve_whitespaces else re.compile(\"[^ ]+\")\n", "    rgxp = ws_rgx_preserve if preserve_whitespaces else ws_rgx\n")]),
    ('comprehension-for-loop', 'EQ', None, [("    result = []\n    for m in rgxp.finditer(src):\n        result.append(m.group())\n", "    result = [m.group(0) for m in rgxp.finditer(src)]\n")]),
    ('findall', 'EQ', None, [("    result = []\n    for m in rgxp.finditer(src):\n        result.append(m.group())\n", "    result = rgxp.findall(src)\n")]),
    ('early-return-no-preserve', 'EQ', None, [("    if preserve_whitespaces and len(result) > 1:\n        for i in range(len(result) - 1):\n            result[i] = result[i][:-1]\n    return result",
                                               "    if not preserve_whitespaces:\n        return result\n    for i in range(len(result) - 1):\n        result[i] = result[i][:-1]\n    return result")]),
    # equal only at the level of split_quoted_str (a dropped warning of extract_next_field is raised again by a later field: the quote is
    # still in the rest of the line) - the obligation of extract_next_field itself cannot hold: an alarm that needs a global argument
    ('warning-overwritten-in-extract', 'EQ', None, [("    warning = warning or field.find('\"') != -1\n", "    warning = field.find('\"') != -1\n")]),
    ('on-top-of-C10-h1', 'EQ', 'C10-h1', []),
    ('on-top-of-C11-h1', 'EQ', 'C11-h1', []),
    ('on-top-of-C18-h1', 'EQ', 'C18-h1', []),
    ('C11-h1+in-operator', 'EQ', 'C11-h1', [("if src.find('\"') == -1: # Optimization", "if '\"' not in src: # Optimization")]),
    # ---- behaviour-changing: must alarm
    ('D-match-end-off-by-one', 'DIFF', None, [("if match_end == len(src) or", "if match_end >= len(src) - 1 or")]),
    ('D-delimiter-length-one', 'DIFF', None, [("return (uidx + len(dlm), warning)", "return (uidx + 1, warning)")]),
    ('D-startswith-first-char', 'DIFF', None, [("src.startswith(dlm, match_end):", "src[match_end:match_end + 1] == dlm[:1]:")]),
    ('D-trailing-ge', 'DIFF', None, [("if cidx == len(src): # The last", "if cidx >= len(src): # The last")]),
    ('D-no-unescape', 'DIFF', None, [("result.append(match_obj.group(1).replace('\"\"', '\"'))", "result.append(match_obj.group(1))")]),
    ('D-always-external-whitespaces', 'DIFF', None, [("allow_external_whitespaces = dlm != ' '", "allow_external_whitespaces = True")]),
    ('D-loop-warning-overwritten', 'DIFF', None, [("        warning = warning or extraction_report[1]\n", "        warning = extraction_report[1]\n")]),
    ('D-chop-without-preserve', 'DIFF', None, [("if preserve_whitespaces and len(result) > 1:", "if len(result) > 1:")]),
    ('D-chop-all', 'DIFF', None, [("for i in range(len(result) - 1):", "for i in range(len(result)):")]),
    ('D-rstrip', 'DIFF', None, [("result[i] = result[i][:-1]", "result[i] = result[i].rstrip(' ')")]),
    ('D-find-positive', 'DIFF', None, [("    if src.find(delim) != -1:\n        return '\"{}\"'.format(src)\n    return src\n\n\ndef rfc", "    if src.find(delim) > 0:\n        return '\"{}\"'.format(src)\n    return src\n\n\ndef rfc")]),
    ('D-pattern-text', 'DIFF', None, [('re.compile(" *[^ ]+ *")', 're.compile(" *[^ ]+ ?")')]),
    ('lazy-quantifier-in-field-pattern', 'EQ', None, [("""field_regular_expression = '"((?:[^"]*"")*[^"]*)"'""", """field_regular_expression = '"((?:[^"]*"")*[^"]*?)"'""")]),
    ('D-policy-name', 'DIFF', None, [("if policy == 'monocolumn':", "if policy == 'monocolumn' or policy == 'simple ':")]),
    ('D-fast-path-dropped-quote-test', 'DIFF', None, [("if src.find('\"') == -1: # Optimization", "if src.find('\"') != 0: # Optimization")]),
    ('D-rfc-no-cr', 'DIFF', None, [(" or src.find('\\r') != -1:", ":")]),
    ('D-quote-not-doubled', 'DIFF', None, [("def rfc_quote_field(src, delim):\n    # A single regexp can be used to find all 4 characters simultaneously, but this approach doesn't significantly improve performance according to my tests.\n    if src.find('\"') != -1:\n        return '\"{}\"'.format(src.replace('\"', '\"\"'))",
                                            "def rfc_quote_field(src, delim):\n    if src.find('\"') != -1:\n        return '\"{}\"'.format(src.replace('\"', '\\\\\"'))")]),
    ('D-C10-h1-wrong-tail', 'DIFF', 'C10-h1', [("return [field[:-1] for field in result[:-1]] + result[-1:]", "return [field[:-1] for field in result[:-1]] + result[-2:]")]),
]

# JavaScript: (name, class, base harmless patch or None, edits) on rbql-js/csv_utils.js
VARIANTS_JS = [
    ('js-control-unchanged', 'EQ', None, []),
    ('js-includes', 'EQ', None, [("    if (src.indexOf('\"') == -1) // Optimization", "    if (!src.includes('\"')) // Optimization")]),
    ('js-uidx-negative-test', 'EQ', None, [("    if (uidx == -1)\n", "    if (uidx < 0)\n")]),
    ('js-concatenation-for-template', 'EQ', None, [("        var escaped = src.replace(/\"/g, '\"\"');\n        return `\"${escaped}\"`;\n    }\n    return src;\n}\n\n\nfunction rfc",
                                                     "        var escaped = src.replace(/\"/g, '\"\"');\n        return '\"' + escaped + '\"';\n    }\n    return src;\n}\n\n\nfunction rfc")]),
    ('js-absolute-match-end', 'EQ', None, [("        let match_end = match_obj[0].length;\n        if (cidx + match_end == src.length || src.startsWith(dlm, cidx + match_end)) {", "        let match_end = cidx + match_obj[0].length;\n        if (match_end == src.length || src.startsWith(dlm, match_end)) {"),
                                            ("            return [cidx + match_end + dlm.length, false];", "            return [match_end + dlm.length, false];")]),
    ('js-destructured-report', 'EQ', None, [("        var extraction_report = extract_next_field(src, dlm, preserve_quotes_and_whitespaces, allow_external_whitespaces, cidx, result);\n        cidx = extraction_report[0];\n        warning = warning || extraction_report[1];",
                                             "        const [next_cidx, field_warning] = extract_next_field(src, dlm, preserve_quotes_and_whitespaces, allow_external_whitespaces, cidx, result);\n        cidx = next_cidx;\n        warning = warning || field_warning;")]),
    ('js-while-for-for', 'EQ', None, [("        for (let i = 0; i < result.length - 1; i++) {\n            result[i] = result[i].slice(0, -1);\n        }", "        let i = 0;\n        while (i < result.length - 1) {\n            result[i] = result[i].slice(0, -1);\n            i++;\n        }")]),
    ('js-on-top-of-C10-h2', 'EQ', 'C10-h2', []),
    ('js-on-top-of-C11-h2', 'EQ', 'C11-h2', []),
    ('js-on-top-of-C18-h2', 'EQ', 'C18-h2', []),
    ('js-on-top-of-C20-h2', 'EQ', 'C20-h2', []),
    # wave h3/h4: a private mutating helper whose result is indexed in place (C11-h4); sticky patterns + shared global patterns
    # with `lastIndex = 0` before the exec loop (C18-h4)
    ('js-on-top-of-C11-h4', 'EQ', 'C11-h4', []),
    ('js-on-top-of-C18-h4', 'EQ', 'C18-h4', []),
    ('js-on-top-of-C10-h4', 'EQ', 'C10-h4', []),
    # behaviour-preserving per call (every exec loop runs to completion and leaves lastIndex = 0), but the object is shared and
    # the translator cannot know who else uses it: refused by the freshness rule - an alarm that is accepted
    ('js-C18-h4-without-reset', 'EQ', 'C18-h4', [("    rgxp.lastIndex = 0; // Start from", "    // Start from")]),
    # ---- behaviour-changing
    ('js-D-relative-match-end', 'DIFF', None, [("if (cidx + match_end == src.length ||", "if (match_end == src.length ||")]),
    ('js-D-startswith-relative', 'DIFF', None, [("src.startsWith(dlm, cidx + match_end)) {", "src.startsWith(dlm, match_end)) {")]),
    ('js-D-delimiter-length-one', 'DIFF', None, [("    return [uidx + dlm.length, warning];", "    return [uidx + 1, warning];")]),
    ('js-D-replace-first-only', 'DIFF', None, [("result.push(match_obj[1].replace(/\"\"/g, '\"'));", "result.push(match_obj[1].replace(/\"\"/, '\"'));")]),
    ('js-D-chop-all', 'DIFF', None, [("i < result.length - 1; i++", "i < result.length; i++")]),
    ('js-D-chop-two', 'DIFF', None, [("result[i].slice(0, -1)", "result[i].slice(0, -2)")]),
    ('js-D-substring-off', 'DIFF', None, [("    var field = src.substring(cidx, uidx);", "    var field = src.substring(cidx + 1, uidx);")]),
    ('js-D-sticky-wrong-lastindex', 'DIFF', 'C10-h2', [("    rgx.lastIndex = cidx; //", "    rgx.lastIndex = 0; //")]),
    ('js-D-inlined-without-continue', 'DIFF', 'C11-h2', [("                cidx = match_end + dlm.length;\n                continue;\n", "                cidx = match_end + dlm.length;\n")]),
    ('js-D-helper-does-not-escape', 'DIFF', 'C18-h2', [("    const escaped = src.replace(/\"/g, '\"\"');\n    return `\"${escaped}\"`;", "    const escaped = src;\n    return `\"${escaped}\"`;")]),
    ('js-D-C11-h4-guard-or', 'DIFF', 'C11-h4', [("    if (match_end != src.length && !src.startsWith(dlm, match_end)) {", "    if (match_end != src.length || !src.startsWith(dlm, match_end)) {")]),
    ('js-D-C11-h4-helper-length-one', 'DIFF', 'C11-h4', [("    return [field_end + dlm.length, field.indexOf('\"') != -1];", "    return [field_end + 1, field.indexOf('\"') != -1];")]),
    ('js-D-C18-h4-lastindex-one', 'DIFF', 'C18-h4', [("    rgxp.lastIndex = 0; // Start from", "    rgxp.lastIndex = 1; // Start from")]),
    ('js-D-C18-h4-sticky-off-by-one', 'DIFF', 'C18-h4', [("    rgx.lastIndex = cidx;\n", "    rgx.lastIndex = cidx + 1;\n")]),
    ('js-D-rfc-no-lf', 'DIFF', None, [(" || src.indexOf('\\n') != -1 || src.indexOf('\\r') != -1) {", " || src.indexOf('\\r') != -1) {")]),
]

NODE_BEHAVIOUR = r"""
const m = require(process.argv[2]);
const crypto = require('crypto');
const h = crypto.createHash('sha1');
const NL = String.fromCharCode(10), CR = String.fromCharCode(13), TAB = String.fromCharCode(9);
function prod(alpha, n, f) { const rec = (p, k) => { if (k == 0) { f(p); return; } for (const c of alpha) rec(p + c, k - 1); }; rec('', n); }
for (let n = 0; n <= 6; n++) prod('", x' + TAB, n, line => {
  for (const dlm of [',', ' ', ', ', 'xx', '  ']) for (const pol of ['simple', 'quoted', 'quoted_rfc', 'whitespace', 'monocolumn', 'simple ']) for (const pr of [false, true]) {
    let r; try { r = JSON.stringify(m.smart_split(line, dlm, pol, pr)); } catch (e) { r = 'EXC ' + e.name; }
    h.update(r + NL);
  }});
for (let n = 0; n <= 5; n++) prod('",x' + NL + CR, n, f => { for (const dlm of [',', 'x,']) h.update(JSON.stringify([m.quote_field(f, dlm), m.rfc_quote_field(f, dlm)]) + NL); });
console.log(h.digest('hex'));
"""

POLICIES = ['simple', 'quoted', 'quoted_rfc', 'whitespace', 'monocolumn', 'simple ']


def load(path, name):
    spec = importlib.util.spec_from_file_location(name, path)
    m = importlib.util.module_from_spec(spec)
    spec.loader.exec_module(m)
    return m


def behaviour(mod):
    out = []
    alpha = '", x\t'
    for n in range(0, 7):
        for tup in itertools.product(alpha, repeat=n):
            line = ''.join(tup)
            for dlm in (',', ' ', ', ', 'xx', '  '):
                for pol in POLICIES:
                    for pr in (False, True):
                        try:
                            out.append(mod.smart_split(line, dlm, pol, pr))
                        except Exception as e:                   # noqa: BLE001
                            out.append(('EXC', type(e).__name__))
    for n in range(0, 6):
        for tup in itertools.product('",\n\rx', repeat=n):
            f = ''.join(tup)
            for dlm in (',', 'x,'):
                out.append((mod.quote_field(f, dlm), mod.rfc_quote_field(f, dlm)))
    return out


def behaviour_js(path, tmp):
    script = os.path.join(tmp, 'behaviour.js')
    if not os.path.exists(script):
        open(script, 'w').write(NODE_BEHAVIOUR)
    p = subprocess.run(['node', script, path], capture_output=True, text=True, timeout=600)
    return p.stdout.strip() if p.returncode == 0 else 'FAILED ' + p.stderr[-200:]


def verdict(repo, out, lang='py'):
    shutil.rmtree(out, ignore_errors=True)
    env = dict(os.environ, VERIF_REPO=repo, PYTHONDONTWRITEBYTECODE='1')
    p = subprocess.run([sys.executable, os.path.join(HERE, 'translate_csv.py'), out, lang], env=env, capture_output=True, text=True)
    if p.returncode != 0:
        return 'ALARM', 'refused: ' + p.stderr.strip().replace(repo + '/', '')[-200:]
    q = subprocess.run(['bash', '-c', 'ulimit -s unlimited; timeout 240 coqc -Q %s RBQL -Q . RBQLGen %s.v 2>&1' % (THEORIES, 'GenCsvJs' if lang == 'js' else 'GenCsv')], cwd=out, capture_output=True, text=True)
    if q.returncode != 0:
        import re
        m = re.search(r'\(in proof ([A-Za-z0-9_]+)\)', q.stdout)
        return 'ALARM', 'obligation %s not proved' % (m.group(1) if m else '?: ' + q.stdout[-200:].replace('\n', ' '))
    return 'CLOSED', '%d theorems closed under the global context' % q.stdout.count('Closed under the global context')


def main():
    prefixes = sys.argv[1:]
    base_text = open(os.path.join(BASE, REL), encoding='utf-8').read()
    tmp = tempfile.mkdtemp(prefix='csvvar_')
    try:
        orig_dir = os.path.join(tmp, 'orig')
        os.makedirs(orig_dir)
        open(os.path.join(orig_dir, 'csv_utils.py'), 'w', encoding='utf-8').write(base_text)
        ref = None
        bad = 0
        counts = {'EQ': [0, 0], 'DIFF': [0, 0]}
        alarms = []
        base_js = open(os.path.join(BASE, REL_JS), encoding='utf-8').read()
        os.makedirs(os.path.join(orig_dir, 'js'))
        open(os.path.join(orig_dir, 'js', 'csv_utils.js'), 'w', encoding='utf-8').write(base_js)
        ref_js = None
        for name, cls, patch, edits in VARIANTS + VARIANTS_JS:
            if prefixes and not any(name.startswith(p) for p in prefixes):
                continue
            js = name.startswith('js-')
            repo = os.path.join(tmp, 'repo_' + name)
            os.makedirs(os.path.join(repo, 'rbql-py', 'rbql'))
            os.makedirs(os.path.join(repo, 'rbql-js'))
            open(os.path.join(repo, REL), 'w', encoding='utf-8').write(base_text)
            open(os.path.join(repo, REL_JS), 'w', encoding='utf-8').write(base_js)
            if js:
                shutil.copy(os.path.join(BASE, 'rbql-js', 'rbql_csv.js'), os.path.join(repo, 'rbql-js', 'rbql_csv.js'))   # (some patches touch it too)
            path = os.path.join(repo, REL_JS if js else REL)
            if patch:
                r = subprocess.run(['patch', '-p1', '-s', '-i', os.path.join(VERIF, 'seeded', 'harmless', patch, 'patch.diff')], cwd=repo, capture_output=True, text=True)
                if r.returncode != 0:
                    print('%-36s BASE PATCH DOES NOT APPLY' % name)
                    bad += 1
                    continue
            text = open(path, encoding='utf-8').read()
            ok = True
            for old, new in edits:
                if text.count(old) != 1:
                    print('%-36s EDIT DOES NOT APPLY (%d occurrences): %r' % (name, text.count(old), old[:50]))
                    ok = False
                    break
                text = text.replace(old, new)
            if not ok:
                bad += 1
                continue
            open(path, 'w', encoding='utf-8').write(text)
            if js:
                if ref_js is None:
                    ref_js = behaviour_js(os.path.join(orig_dir, 'js', 'csv_utils.js'), tmp)
                    if ref_js.startswith('FAILED'):
                        print('the node comparison script fails on the unchanged file: ' + ref_js)
                        return 1
                got_js = behaviour_js(path, tmp)
                same = got_js == ref_js
                if got_js.startswith('FAILED'):
                    print('  (%s: the edited module failed under node: %s)' % (name, got_js[-120:]))
            else:
                if ref is None:
                    ref = behaviour(load(os.path.join(orig_dir, 'csv_utils.py'), 'csv_utils_orig'))
                try:
                    same = behaviour(load(path, 'csv_utils_' + str(abs(hash(name))))) == ref
                except Exception as e:                               # noqa: BLE001
                    same = False
                    print('  (%s: the edited module failed: %r)' % (name, e))
            if same != (cls == 'EQ'):
                print('%-36s MISCLASSIFIED: declared %s but the bounded comparison says %s' % (name, cls, 'equal' if same else 'different'))
                bad += 1
                continue
            v, detail = verdict(repo, os.path.join(tmp, 'out_' + name), 'js' if js else 'py')
            counts[cls][0] += 1
            if v == 'CLOSED':
                counts[cls][1] += 1
            status = 'ok'
            if cls == 'DIFF' and v == 'CLOSED':
                status = 'UNSOUND: a behaviour-changing edit passed'
                bad += 1
            if cls == 'EQ' and v == 'ALARM':
                status = 'alarm on a harmless edit'
                alarms.append(name)
            print('%-36s %-4s -> %-6s %-28s %s' % (name, cls, v, status, detail[:150]))
            sys.stdout.flush()
        print('EQ: %d variants, %d closed, %d alarm (%s); DIFF: %d variants, %d alarm, %d closed' % (
            counts['EQ'][0], counts['EQ'][1], counts['EQ'][0] - counts['EQ'][1], ', '.join(alarms) or '-', counts['DIFF'][0], counts['DIFF'][0] - counts['DIFF'][1], counts['DIFF'][1]))
        return 1 if bad else 0
    finally:
        shutil.rmtree(tmp, ignore_errors=True)


if __name__ == '__main__':
    sys.exit(main())
