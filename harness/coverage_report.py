#!/usr/bin/env python3
# coverage_report.py [IDs...] - development aid: runs the quick checks with VERIF_COVERAGE set and lists the lines of the implementation
# (rbql-py/rbql/*.py by a settrace hook in every Python process, rbql-js/*.js by NODE_V8_COVERAGE) that NO correspondence run executed.
# A line no run reaches is a place where a change cannot be seen: the output is a list of generator gaps to close. Not part of any check.
import ast
import glob
import json
import os
import shutil
import subprocess
import sys

VERIF = os.path.dirname(os.path.dirname(os.path.abspath(__file__)))
REPO = os.environ.get('VERIF_REPO', '/repo')
OUT = '/tmp/verif_cov'


def py_lines(path):
    """line numbers that carry code (start lines of statements)"""
    tree = ast.parse(open(path).read())
    lines = set()
    for node in ast.walk(tree):
        if isinstance(node, ast.stmt) and not isinstance(node, (ast.FunctionDef, ast.ClassDef, ast.Import, ast.ImportFrom)):
            if isinstance(node, ast.Expr) and isinstance(node.value, ast.Constant) and isinstance(node.value.value, str):
                continue
            lines.add(node.lineno)
    return lines


def main():
    ids = sys.argv[1:] or ['C%02d' % i for i in range(1, 21)]
    if not os.environ.get('COV_KEEP'):
        shutil.rmtree(OUT, ignore_errors=True)
        os.makedirs(OUT)
        for p in ids:
            env = dict(os.environ, VERIF_COVERAGE=OUT, VERIF_EVIDENCE_DIR=os.path.join(OUT, 'ev'))
            r = subprocess.run([os.path.join(VERIF, 'check'), p, '--tier', 'quick'], env=env, capture_output=True, text=True)
            print(p, [l for l in r.stdout.split('\n') if 'tier=' in l or 'VIOLATION' in l][:2], flush=True)
    seen = {}
    for f in glob.glob(os.path.join(OUT, 'py_*.txt')):
        for l in open(f):
            fn, _, ln = l.rstrip('\n').rpartition(':')
            seen.setdefault(fn, set()).add(int(ln))
    print('== rbql-py')
    for path in sorted(glob.glob(os.path.join(REPO, 'rbql-py', 'rbql', '*.py'))):
        code = py_lines(path)
        hit = seen.get(os.path.realpath(path), set())
        miss = sorted(code - hit)
        print('%s: %d of %d statement lines never executed' % (os.path.basename(path), len(miss), len(code)))
        src = open(path).read().split('\n')
        for ln in miss:
            print('   %5d  %s' % (ln, src[ln - 1].strip()[:110]))
    print('== rbql-js (functions / blocks with count 0)')
    # one bitmap per source file, OR-ed over the processes: within ONE process report the ranges are nested (apply outer first, an inner
    # range overrides); a range with count 0 in one process says nothing about another process, where the same text may have run
    # without being listed as a range of its own (V8 lists a block only where its count differs from the enclosing one)
    cov = {}
    texts = {}
    for f in glob.glob(os.path.join(OUT, 'v8', '*.json')):
        try:
            d = json.load(open(f))
        except Exception:
            continue
        for sc in d.get('result', []):
            url = sc['url'].replace('file://', '')
            if not url.startswith(os.path.join(REPO, 'rbql-js')):
                continue
            if url not in texts:
                texts[url] = open(url, encoding='utf-8').read()
                cov[url] = bytearray(len(texts[url]))
            n = len(texts[url])
            one = bytearray(n)
            ranges = [(rg['startOffset'], rg['endOffset'], rg['count']) for fn in sc['functions'] for rg in fn['ranges']]
            for a, b, cnt in sorted(ranges, key=lambda x: (x[0], -x[1])):
                v = 1 if cnt > 0 else 0
                one[a:min(b, n)] = bytes([v]) * (min(b, n) - a)
            total = cov[url]
            for i in range(n):
                if one[i]:
                    total[i] = 1
    for url in sorted(cov):
        text = texts[url]
        n = len(text)
        covered = cov[url]
        miss = []
        pos = 0
        for ln, line in enumerate(text.split('\n'), 1):
            seg = covered[pos:pos + len(line)]
            st = line.strip()
            if st and not st.startswith('//') and st not in ('}', '{', '});', '};') and len(seg) and not any(seg[len(line) - len(line.lstrip()):]):
                miss.append((ln, st))
            pos += len(line) + 1
        print('%s: %d lines never executed' % (os.path.basename(url), len(miss)))
        for ln, st in miss:
            print('   %5d  %s' % (ln, st[:110]))


if __name__ == '__main__':
    main()
