# qmodel.py - query ASTs of the modelled fragment (DESIGN 3.3): encoding for the Coq model (sx text),
# rendering into RBQL query text for the Python and the JS engine, decoding of model outcomes.
# Expressions are nested tuples:  ('fld','a',i) ('NR',) ('NF',) ('bNR',) ('bNF',) ('NU',) ('lit', v)
#   ('add',x,y) ('eq',x,y) ('ne',x,y) ('lt',x,y) ('le',x,y) ('and',x,y) ('or',x,y) ('not',x) ('len',x) ('int',x)
#   ('like',x,y) ('cond',c,x,y) ('list',[x..])
# Items: ('expr',e) ('star',) ('stara',) ('starb',) ('unnest',e) ('agg',kind,spelling,e)
# Query: dict(kind=('select',items)|('except',idxs)|('update',[(idx,e)..]), where=e|None,
#             join=None|dict(kind='inner'|'left'|'strict', spelling=str, lhs=[None|i..], rhs=[None|j..]),
#             group=None|[e..], order=None|([e..], reverse), distinct=0|1|2, top=None|n, top_spelling='top'|'limit')
from fractions import Fraction
import lib

AGG_KINDS = ['MIN', 'MAX', 'SUM', 'AVG', 'VARIANCE', 'MEDIAN', 'COUNT', 'ARRAY_AGG', 'ANY_VALUE']
EXPR_TAGS = {'fld': 0, 'NR': 1, 'NF': 2, 'bNR': 3, 'bNF': 4, 'NU': 5, 'lit': 6, 'add': 7, 'eq': 8, 'ne': 9, 'lt': 10,
             'le': 11, 'and': 12, 'or': 13, 'not': 14, 'len': 15, 'int': 16, 'like': 17, 'cond': 18, 'list': 19,
             'bmax': 20, 'bmin': 21, 'bmaxl': 22, 'bminl': 23, 'bsuml': 24}


# ---------------------------------------------------------------- encoding for the model
def enc_atom(v):
    if v is None:
        return '(0)'
    if v is True or v is False:
        return '(1 %d)' % (1 if v else 0)
    if isinstance(v, int):
        return '(2 %s)' % lib.enc(lib.Z(v))
    if isinstance(v, str):
        return '(3 %s)' % lib.enc(v)
    if isinstance(v, Fraction):
        return '(4 %s %d)' % (lib.enc(lib.Z(v.numerator)), v.denominator)
    raise TypeError(repr(v))


def enc_expr(e):
    t = e[0]
    tag = EXPR_TAGS[t]
    if t == 'fld':
        return '(0 %d %d)' % (0 if e[1] == 'a' else 1, e[2])
    if t in ('NR', 'NF', 'bNR', 'bNF', 'NU'):
        return '(%d)' % tag
    if t == 'lit':
        return '(6 %s)' % enc_atom(e[1])
    if t in ('list', 'bmax', 'bmin'):
        return '(%d (%s))' % (tag, ' '.join(enc_expr(x) for x in e[1]))
    return '(%d %s)' % (tag, ' '.join(enc_expr(x) for x in e[1:]))


def enc_item(it):
    t = it[0]
    if t == 'expr':
        return '(0 %s)' % enc_expr(it[1])
    if t == 'star':
        return '(1)'
    if t == 'stara':
        return '(2)'
    if t == 'starb':
        return '(3)'
    if t == 'unnest':
        return '(4 %s)' % enc_expr(it[1])
    if t == 'agg':
        return '(5 %d %s)' % (AGG_KINDS.index(it[1]), enc_expr(it[3]))
    raise ValueError(it)


def enc_opt(x, f):
    return '()' if x is None else '(%s)' % f(x)


def enc_query(q):
    k = q['kind']
    if k[0] == 'select':
        ks = '(0 (%s))' % ' '.join(enc_item(i) for i in k[1])
    elif k[0] == 'except':
        ks = '(1 (%s))' % ' '.join(str(i) for i in sorted(k[1]))      # the code sorts the indices; duplicates are kept
    else:
        ks = '(2 (%s))' % ' '.join('(%d %s)' % (i, enc_expr(e)) for i, e in k[1])
    j = q.get('join')
    js = '()'
    if j:
        kk = {'inner': 0, 'left': 1, 'strict': 2}[j['kind']]
        # 'hw' = number of names in the header of the join table (absent / None = no join header): after build() the engines raise
        # max_record_len to it, so LEFT JOIN's all-None record has one field per join column (fix c71773a, D27; Join.widen)
        js = '((%d (%s) (%s)%s))' % (kk, ' '.join('()' if x is None else '(%d)' % x for x in j['lhs']),
                                     ' '.join('()' if x is None else '(%d)' % x for x in j['rhs']),
                                     '' if j.get('hw') is None else ' (%d)' % j['hw'])
    g = q.get('group')
    gs = '()' if g is None else '((%s))' % ' '.join(enc_expr(e) for e in g)
    o = q.get('order')
    os_ = '()' if o is None else '(((%s) %d))' % (' '.join(enc_expr(e) for e in o[0]), 1 if o[1] else 0)
    return '(%s %s %s %s %s %d %s)' % (ks, enc_opt(q.get('where'), enc_expr), js, gs, os_, q.get('distinct', 0),
                                       enc_opt(q.get('top'), str))


def enc_table(t):
    return '(%s)' % ' '.join('(%s)' % ' '.join(enc_atom(c) for c in r) for r in t)


def enc_run(fl, q, hdr, A, B, fail_at=None):
    h = '()' if hdr is None else '((%s))' % ' '.join(lib.enc(s) for s in hdr)
    return '(%d %s %s %s %s %s)' % (fl, enc_query(q), h, enc_table(A), enc_table(B or []),
                                    '()' if fail_at is None else '(%d)' % fail_at)


# ---------------------------------------------------------------- decoding of model outcomes
def dec_atom(x):
    t = x[0]
    if t == 0:
        return None
    if t == 1:
        return bool(x[1])
    if t == 2:
        return lib.dec_Z(x[1])
    if t == 3:
        return lib.dec_str(x[1])
    if t == 4:
        return {'frac': [lib.dec_Z(x[1]), x[2]]}
    raise ValueError(x)


def dec_val(x):
    return dec_atom(x[1]) if x[0] == 0 else [dec_atom(a) for a in x[1]]


def dec_row(x):
    return [dec_val(v) for v in x]


XERR = {0: 'type', 1: 'value', 2: 'badfield', 3: 'parsing', 4: 'runtime', 5: 'unmodelled'}


def dec_outcome(o):
    """model outcome -> canonical dict {events, pulls, error}; error = [class, nr, field] ; None if unmodelled"""
    events = []
    for e in o[0]:
        if e[0] == 0:
            events.append(['H', None if not e[1] else [lib.dec_str(s) for s in e[1][0]]])
        elif e[0] == 1:
            events.append(['W', dec_row(e[1]), bool(e[2])])
        else:
            events.append(['F'])
    err = None
    if o[2]:
        cls, nr, xe = o[2][0]
        if cls == 4 or xe[0] == 5:
            return None
        c = {0: 'P', 1: 'R', 2: 'IO', 3: 'O'}[cls]
        field = None
        if xe[0] == 2:
            field = xe[1]
        if xe[0] == 4 and xe[1] == 5:
            field = 'B'
        err = [c, nr, field]
    return {'events': events, 'pulls': o[1], 'error': err}


def frac_to_float_hex(v):
    """canonical form of model values for comparison with implementation values (floats as hex)"""
    if isinstance(v, dict) and 'frac' in v:
        return {'f': float(Fraction(v['frac'][0], v['frac'][1])).hex()}
    if isinstance(v, list):
        return [frac_to_float_hex(x) for x in v]
    return v


# ---------------------------------------------------------------- rendering
def py_str_literal(s, rng=None):
    q = '"' if (rng is None or rng.random() < 0.5) else "'"
    out = []
    for ch in s:
        if ch == '\\':
            out.append('\\\\')
        elif ch == q:
            out.append('\\' + q)
        elif ch == '\n':
            out.append('\\n')
        elif ch == '\r':
            out.append('\\r')
        elif ch == '\t':
            out.append('\\t')
        else:
            out.append(ch)
    return q + ''.join(out) + q


def js_str_literal(s, rng=None):
    return py_str_literal(s, rng)      # the same escapes mean the same in a JS string literal


class Renderer:
    def __init__(self, lang='py', rng=None):
        self.lang = lang
        self.rng = rng

    def lit(self, v):
        if v is None:
            return 'None' if self.lang == 'py' else 'null'
        if v is True:
            return 'True' if self.lang == 'py' else 'true'
        if v is False:
            return 'False' if self.lang == 'py' else 'false'
        if isinstance(v, int):
            return str(v) if v >= 0 else '(%d)' % v
        return py_str_literal(v, self.rng)

    def fld(self, t, i):
        if self.rng is not None and self.rng.random() < 0.3:
            return '%s[%d]' % (t, i + 1)
        return '%s%d' % (t, i + 1)

    def expr(self, e):
        t = e[0]
        py = self.lang == 'py'
        if t == 'fld':
            return self.fld(e[1], e[2])
        if t in ('NR', 'NF', 'bNR', 'bNF', 'NU'):
            return t
        if t == 'lit':
            return self.lit(e[1])
        if t == 'list':
            return '[' + ', '.join(self.expr(x) for x in e[1]) + ']'
        if t in ('bmax', 'bmin'):
            return ('max' if t == 'bmax' else 'min') + '(' + ', '.join(self.expr(x) for x in e[1]) + ')'
        if t in ('bmaxl', 'bminl', 'bsuml'):
            return {'bmaxl': 'max', 'bminl': 'min', 'bsuml': 'sum'}[t] + '(' + self.expr(e[1]) + ')'
        x = [self.expr(a) for a in e[1:]]
        if t == 'add':
            return '(%s + %s)' % (x[0], x[1])
        if t == 'eq':
            return '(%s == %s)' % (x[0], x[1]) if py else '(%s === %s)' % (x[0], x[1])
        if t == 'ne':
            return '(%s != %s)' % (x[0], x[1]) if py else '(%s !== %s)' % (x[0], x[1])
        if t == 'lt':
            return '(%s < %s)' % (x[0], x[1])
        if t == 'le':
            return '(%s <= %s)' % (x[0], x[1])
        if t == 'and':
            return '(%s and %s)' % (x[0], x[1]) if py else '(%s && %s)' % (x[0], x[1])
        if t == 'or':
            return '(%s or %s)' % (x[0], x[1]) if py else '(%s || %s)' % (x[0], x[1])
        if t == 'not':
            return '(not %s)' % x[0] if py else '(!%s)' % x[0]
        if t == 'len':
            return 'len(%s)' % x[0] if py else '%s.length' % x[0]
        if t == 'int':
            return 'int(%s)' % x[0] if py else 'parseInt(%s)' % x[0]
        if t == 'like':
            return 'like(%s, %s)' % (x[0], x[1])
        if t == 'cond':
            return '(%s if %s else %s)' % (x[1], x[0], x[2]) if py else '(%s ? %s : %s)' % (x[0], x[1], x[2])
        raise ValueError(e)

    def top(self, e):
        """an expression in a top-level position (select item, WHERE, key, right-hand side): sometimes without its outermost parentheses"""
        s = self.expr(e)
        if (self.rng is not None and self.rng.random() < 0.5 and e[0] in ('add', 'eq', 'ne', 'lt', 'le', 'and', 'or', 'not', 'cond')
                and s.startswith('(') and s.endswith(')')):
            return s[1:-1]
        return s

    def item(self, it):
        t = it[0]
        if t == 'expr':
            return self.top(it[1])
        if t == 'star':
            return '*'
        if t == 'stara':
            return 'a.*'
        if t == 'starb':
            return 'b.*'
        if t == 'unnest':
            return '%s(%s)' % (it[2] if len(it) > 2 else 'UNNEST', self.expr(it[1]))
        if t == 'agg':
            if it[1] == 'COUNT' and len(it) > 4 and it[4] == 'star':
                return '%s(*)' % it[2]
            return '%s(%s)' % (it[2], self.expr(it[3]))
        raise ValueError(it)

    def keyvar(self, side, x):
        if x is None:
            if side == 'a':
                return self.rng.choice(['NR', 'aNR', 'a.NR']) if self.rng else 'NR'
            return self.rng.choice(['bNR', 'b.NR']) if self.rng else 'bNR'
        return self.fld(side, x)

    def query(self, q, kw=lambda s: s):
        k = q['kind']
        parts = []
        if k[0] in ('select', 'except'):
            head = kw('select')
            if q.get('top') is not None and q.get('top_spelling', 'top') == 'top':
                head += ' ' + kw('top') + ' %d' % q['top']
            if q.get('distinct', 0) == 1:
                head += ' ' + kw('distinct')
            elif q.get('distinct', 0) == 2:
                head += ' ' + kw('distinct') + ' ' + kw('count')
            if k[0] == 'select':
                head += ' ' + ', '.join(self.item(i) for i in k[1])
            else:
                head += ' *'
            parts.append(head)
            if k[0] == 'except':
                parts.append(kw('except') + ' ' + ', '.join(self.fld('a', i) for i in k[1]))
        else:
            head = kw('update') + (' ' + kw('set') if q.get('update_set') else '')
            head += ' ' + ', '.join('%s = %s' % (self.fld('a', i), self.top(e)) for i, e in k[1])
            parts.append(head)
        rest = []
        j = q.get('join')
        if j:
            pairs = []
            for l, r in zip(j['lhs'], j['rhs']):
                a, b = self.keyvar('a', l), self.keyvar('b', r)
                eqs = '==' if (self.rng is None or self.rng.random() < 0.7) else '='
                if self.rng is not None and self.rng.random() < 0.3:
                    a, b = b, a          # swapped sides, also when the a-side is NR / the b-side is bNR
                pairs.append('%s %s %s' % (a, eqs, b))
            rest.append(kw(j['spelling']) + ' ' + q.get('join_table', 'b') + ' ' + kw('on') + ' ' + (' ' + kw('and') + ' ').join(pairs))
        if q.get('where') is not None:
            rest.append(kw('where') + ' ' + self.top(q['where']))
        if q.get('group') is not None:
            rest.append(kw('group by') + ' ' + ', '.join(self.top(e) for e in q['group']))
        if q.get('order') is not None:
            s = kw('order by') + ' ' + ', '.join(self.top(e) for e in q['order'][0])
            if q['order'][1]:
                s += ' ' + kw('desc')
            elif q.get('asc_explicit'):
                s += ' ' + kw('asc')
            rest.append(s)
        if q.get('top') is not None and q.get('top_spelling', 'top') == 'limit':
            rest.append(kw('limit') + ' %d' % q['top'])
        if self.rng is not None and q.get('shuffle_clauses', True):
            self.rng.shuffle(rest)
        return ' '.join(parts + rest)
