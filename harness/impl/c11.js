// C11 implementation side (rbql-js): csv_utils.smart_split (exported by the csv_utils module) on every line and mode.
// Only 'direct' modes are meaningful here; any other mode yields 'absent'.
const path = require('path');

function enum_lines(alphabet, length, start, count) {
    const k = alphabet.length;
    const out = [];
    for (let idx = start; idx < start + count; idx++) {
        let chars = [];
        let v = idx;
        for (let i = 0; i < length; i++) {
            chars.push(alphabet[v % k]);
            v = Math.floor(v / k);
        }
        out.push(chars.join(''));
    }
    return out;
}

module.exports.run_case = async function (c, repo) {
    const csv_utils = require(path.join(repo, 'rbql-js', 'csv_utils.js'));
    const lines = c.lines ? c.lines : enum_lines(c.enum[0], c.enum[1], c.enum[2], c.enum[3]);
    return lines.map(line => c.modes.map(m => {
        if (m[0] != 'direct' || typeof csv_utils.smart_split !== 'function')
            return 'absent';
        const r = csv_utils.smart_split(line, c.dlm, m[1], m[2]);
        return [r[0], !!r[1]];
    }));
};
