// c06h.js - C06, list clause, concrete side of the heap theorem for rbql-js: one query over arrays with a writer that MUTATES
// what it is handed.  writer 'mutating': rbql.query with a user writer that overwrites every field and pushes one more;
// 'csv': rbql_csv.CSVWriter over a dummy stream; 'table': query_table, then the caller rewrites every output row.
// Observed: sources deep-equal to the snapshot, same row objects, no emitted row is a source row object.
const path = require('path');

module.exports.run_case = async function (c, repo) {
    const rbql = require(path.join(repo, 'rbql-js', 'rbql.js'));
    const A = c.A.map(r => r.slice());
    const B = c.B ? c.B.map(r => r.slice()) : null;
    const snapA = JSON.stringify(A), snapB = JSON.stringify(B);
    const rowsA = A.slice(), rowsB = B ? B.slice() : null;
    const src = new Set(rowsA.concat(rowsB || []));
    let err = null;
    let handed = [];
    class MutWriter extends rbql.RBQLOutputWriter {
        async write(fields) {
            handed.push(fields);
            for (let i = 0; i < fields.length; i++) fields[i] = 'MUT';
            fields.push('MUT+');
            return true;
        }
        async finish() {}
        get_warnings() { return []; }
        set_header() {}
    }
    try {
        if (c.writer === 'table') {
            const out = [];
            await rbql.query_table(c.qjs, A, out, [], B, c.hdrA || null, c.hdrB || null, []);
            handed = out.slice();
            for (const r of out) {
                for (let i = 0; i < r.length; i++) r[i] = 'MUT';
                r.push('MUT+');
            }
        } else {
            const it = new rbql.TableIterator(A, null, true);
            const reg = B ? new rbql.SingleTableRegistry(B, null, true) : null;
            let wr;
            if (c.writer === 'csv') {
                const rbql_csv = require(path.join(repo, 'rbql-js', 'rbql_csv.js'));
                const stream = {write() { return true; }, on() {}, setDefaultEncoding() {}, end(a, b, cb) { if (cb) cb(); }};
                class IdCSVWriter extends rbql_csv.CSVWriter {
                    async write(fields) { handed.push(fields); return await super.write(fields); }
                }
                wr = new IdCSVWriter(stream, false, null, ',', 'quoted');
            } else {
                wr = new MutWriter();
            }
            await rbql.query(c.qjs, it, wr, [], reg);
        }
    } catch (e) {
        err = [(e && e.constructor && e.constructor.name) || 'Error', String((e && e.message) || e).slice(0, 120)];
    }
    let same = A.length === rowsA.length && A.every((r, i) => r === rowsA[i]);
    if (B) same = same && B.length === rowsB.length && B.every((r, i) => r === rowsB[i]);
    return {sources_ok: same && JSON.stringify(A) === snapA && JSON.stringify(B) === snapB, alias: handed.some(r => src.has(r)), error: err, emitted: handed.length};
};
