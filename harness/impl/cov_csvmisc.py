# cov_csvmisc.py - rbql-py side of harness/props/cov_csvmisc.py: bounded reads (get_all_records(n) of the CSV and sqlite iterators),
# CSVWriter._write_all, an unknown JOIN table through the pandas front-end.
import io
import os
import shutil
import sqlite3
import tempfile
import rbql
from rbql import rbql_csv, rbql_engine
import engine as EN


class CountingRaw(io.RawIOBase):
    def __init__(self, f):
        self.f = f
        self.n = 0

    def readable(self):
        return True

    def readinto(self, b):
        d = self.f.read(len(b))
        b[:len(d)] = d
        self.n += len(d)
        return len(d)


def run_head(c):
    d = tempfile.mkdtemp(prefix='covmisc_', dir=os.environ.get('VERIF_SCRATCH'))
    try:
        p = os.path.join(d, 'in.csv')
        data = ''.join(l + '\n' for l in c['lines']).encode('utf-8')
        with open(p, 'wb') as f:
            f.write(data)
        with open(p, 'rb') as f:
            raw = CountingRaw(f)
            it = rbql_csv.CSVRecordIterator(io.BufferedReader(raw), 'utf-8', ',', 'simple', has_header=c['with_header'])
            recs = it.get_all_records() if c['n'] is None else it.get_all_records(c['n'])
            return {'records': recs, 'consumed': raw.n, 'size': len(data)}
    finally:
        shutil.rmtree(d, ignore_errors=True)


def run_sqlite_head(c):
    from rbql import rbql_sqlite
    con = sqlite3.connect(':memory:')
    con.execute('create table t (x text, y text)')
    con.executemany('insert into t values (?, ?)', [tuple(r) for r in c['rows']])
    con.commit()
    it = rbql_sqlite.SqliteRecordIterator(con, 't')
    recs = it.get_all_records() if c['n'] is None else it.get_all_records(c['n'])
    res = {'records': [list(r) for r in recs]}
    con.close()
    return res


def run_write_all(c):
    def writer(stream):
        return rbql_csv.CSVWriter(stream, False, None, c['delim'], c['policy'])
    table = [list(r) for r in c['table']]
    s1 = io.StringIO()
    w1 = writer(s1)
    if not hasattr(w1, '_write_all'):
        return {'absent': True}
    w1._write_all(table)
    s2 = io.StringIO()
    w2 = writer(s2)
    for r in c['table']:
        w2.write(list(r))
    w2.finish()
    return {'absent': False, 'text': s1.getvalue(), 'text_by_write': s2.getvalue(), 'table_intact': table == c['table'],
            'warnings': sorted(w1.get_warnings()) == sorted(w2.get_warnings())}


def run_pandas_join(c):
    import pandas
    df = pandas.DataFrame(c['A'], columns=c['hdrA'])
    jdf = None if c['B'] is None else pandas.DataFrame(c['B'], columns=c['hdrB'])
    res = {}
    try:
        out = rbql.query_pandas_dataframe(c['q'], df, [], jdf)
        res['pandas'] = {'error': None, 'rows': out.values.tolist()}
    except Exception as e:
        res['pandas'] = {'error': EN.canon_error(e), 'rows': None}
    out = []
    try:
        rbql.query_table(c['q'], [list(r) for r in c['A']], out, [], None if c['B'] is None else [list(r) for r in c['B']], c['hdrA'], c['hdrB'])
        res['table'] = {'error': None, 'rows': out}
    except Exception as e:
        res['table'] = {'error': EN.canon_error(e), 'rows': None}
    return res


def run_distinct_csv(c):
    import csv
    d = tempfile.mkdtemp(prefix='covmisc_', dir=os.environ.get('VERIF_SCRATCH'))
    try:
        inp, outp = os.path.join(d, 'in.csv'), os.path.join(d, 'out.csv')
        with open(inp, 'w', encoding='utf-8', newline='') as f:
            csv.writer(f, lineterminator='\n').writerows(c['rows'])
        try:
            rbql.query_csv(c['q'], inp, ',', 'quoted', outp, ',', 'quoted', 'utf-8', [], False)
        except Exception as e:
            return {'error': EN.canon_error(e), 'rows': None}
        with open(outp, encoding='utf-8', newline='') as f:
            return {'error': None, 'rows': [row for row in csv.reader(f)]}
    finally:
        shutil.rmtree(d, ignore_errors=True)


def run_case(c):
    if c['kind'] == 'distinct_csv':
        return run_distinct_csv(c)
    return {'head': run_head, 'sqlite_head': run_sqlite_head, 'write_all': run_write_all, 'pandas_join': run_pandas_join}[c['kind']](c)
