# py_driver.py <module> <in.json> <out.json> - runs under /venv/bin/python with PYTHONPATH=<repo>/rbql-py.
# Imports harness/impl/<module>.py and calls run_case(case) for every case; a fresh process per shard.
import importlib
import json
import os
import sys
import warnings

warnings.simplefilter('ignore')
sys.setrecursionlimit(10000)
here = os.path.dirname(os.path.abspath(__file__))
sys.path.insert(0, here)
repo = os.environ.get('VERIF_REPO', '/repo')
import rbql
assert os.path.realpath(rbql.__file__).startswith(os.path.realpath(repo) + os.sep), 'rbql imported from %s, not from %s' % (rbql.__file__, repo)

mod = importlib.import_module(sys.argv[1])
cases = json.load(open(sys.argv[2]))
out = []
for c in cases:
    try:
        out.append(mod.run_case(c))
    except BaseException as e:  # a driver-level failure is reported as data, compared like any result
        if isinstance(e, (KeyboardInterrupt, SystemExit)):
            raise
        out.append({'driver_exception': type(e).__name__, 'msg': str(e)[:300]})
with open(sys.argv[3], 'w') as f:
    json.dump(out, f)
