// C06, list sources handed to a CSV writer (rbql-js): rbql.query(TableIterator(A), CSVWriter over a sink, SingleTableRegistry(B))
const path = require('path');
const {Writable} = require('stream');

class Sink extends Writable {
    constructor() { super(); this.chunks = []; }
    _write(chunk, enc, cb) { this.chunks.push(Buffer.isBuffer(chunk) ? chunk : Buffer.from(chunk, enc)); cb(); }
}

function objs(table) {
    const out = [];
    const walk = (x) => { if (Array.isArray(x)) { out.push(x); x.forEach(walk); } };
    table.forEach(walk);
    return out;
}

module.exports.run_case = async function (c, repo) {
    const rbql = require(path.join(repo, 'rbql-js', 'rbql.js'));
    const rbql_csv = require(path.join(repo, 'rbql-js', 'rbql_csv.js'));
    const A = JSON.parse(JSON.stringify(c.A));
    const B = c.B ? JSON.parse(JSON.stringify(c.B)) : null;
    const objsA = objs(A), objsB = B ? objs(B) : null;
    const names = c.names ? c.names.slice() : null;
    const sink = new Sink();
    const w = new rbql_csv.CSVWriter(sink, false, 'utf-8', c.dlm, c.pol);
    const reg = B === null ? null : new rbql.SingleTableRegistry(B);
    let err = null;
    try {
        await rbql.query(c.qjs, new rbql.TableIterator(A, names), w, [], reg);
    } catch (e) {
        const n = (e && e.constructor && e.constructor.name) || 'Error';
        err = [n.includes('Parsing') ? 'P' : n.includes('Runtime') ? 'R' : n.includes('IOHandling') ? 'IO' : 'O', 0, null];
    }
    const same = (x, y) => x.length === y.length && x.every((o, i) => o === y[i]);
    let ok = JSON.stringify(A) === JSON.stringify(c.A) && same(objs(A), objsA) && JSON.stringify(names) === JSON.stringify(c.names || null);
    if (B) ok = ok && JSON.stringify(B) === JSON.stringify(c.B) && same(objs(B), objsB);
    return {sources_ok: ok, error: err, out: Buffer.concat(sink.chunks).toString('utf-8'), A_after: ok ? null : A, names_after: ok ? null : names};
};
