// jskey.js - probes for JsKey.v / Utf16.v (entries 560, 561).  A JSON value travels as a tagged list so that no string ever crosses
// the JSON transport: ['n'] null, ['b', bool], ['i', integer], ['nz'] -0, ['s', [code units]], ['a', [values]], ['nan'], ['undef'],
// ['inf', +1|-1].  case.mode:
//   'text'    : JSON.stringify(value) of an array value, as code units                                              (entry 560)
//   'order'   : s, t lists of code points: a < b of the two JavaScript strings, and their code units                  (entry 561)
//   'distinct', 'distinct_count', 'group', 'join' : the key texts at work inside rbql-js (UniqWriter, UniqCountWriter,
//               select_aggregated, HashJoinMap / lhs_join_var_expression) through query_table over tables of such values
const path = require('path');
function build(x) {
    switch (x[0]) {
        case 'n': return null;
        case 'b': return x[1];
        case 'i': return x[1];
        case 'nz': return -0;
        case 's': return String.fromCharCode(...x[1]);
        case 'a': return x[1].map(build);
        case 'nan': return NaN;
        case 'undef': return undefined;
        case 'inf': return x[1] < 0 ? -Infinity : Infinity;
    }
    throw new Error('bad tag ' + x[0]);
}
function units(s) {
    const r = [];
    for (let i = 0; i < s.length; i++) r.push(s.charCodeAt(i));
    return r;
}
module.exports.run_case = async function (c, repo) {
    if (c.mode == 'text') {
        const t = JSON.stringify(build(c.v));
        return {text: units(t)};
    }
    if (c.mode == 'order') {
        const a = String.fromCodePoint(...c.s), b = String.fromCodePoint(...c.t);
        return {lt: a < b, ua: units(a), ub: units(b)};
    }
    const rbql = require(path.join(repo, 'rbql-js', 'rbql.js'));
    const A = c.A.map(r => r.map(build));
    const out = [], warns = [];
    try {
        if (c.mode == 'distinct') {
            await rbql.query_table('select distinct *', A, out, warns);
            return {rows: out.map(r => units(JSON.stringify(r)))};
        }
        if (c.mode == 'distinct_count') {
            await rbql.query_table('select distinct count *', A, out, warns);
            return {rows: out.map(r => [r[0], units(JSON.stringify(r.slice(1)))])};
        }
        if (c.mode == 'group') {
            await rbql.query_table('select COUNT(*), MIN(NR) group by a1, a2', A, out, warns);
            return {groups: out.map(r => [r[1], r[0]]).sort((x, y) => x[0] - y[0])};
        }
        if (c.mode == 'join') {
            const B = c.B.map(r => r.map(build));
            await rbql.query_table('select a.NR, b.NR join B on a1 == b1 and a2 == b2', A, out, warns, B);
            return {pairs: out};
        }
    } catch (e) {
        return {error: (e && e.constructor && e.constructor.name) || 'Error', msg: String(e && e.message || e).slice(0, 200)};
    }
    throw new Error('bad mode ' + c.mode);
};
