# C12 implementation side: rbql_csv.CSVRecordIterator driven through its public constructor / get_all_records /
# get_header / get_warnings with stream objects whose read() / readinto() deliver prescribed short pieces.
#
# case kinds
#   {'kind': 'all', 'text', 'policy', 'delim', 'comment', 'header', 'modifier', 'chunk_sizes': [..] | None}
#        every one of the 2^(n-1) partitions of `text` x every chunk size: returns the list of DISTINCT outcomes,
#        each with the first (partition, chunk size) that produced it: [[outcome, pieces, cs], ...]
#   {'kind': 'one', 'pieces', 'cs', ...}          one run, returns the outcome
#   {'kind': 'rows', 'pieces', 'cs', ...}         line_mode=True, _get_all_rows() (internal probe, guarded): [rows, NL, bom]
#   {'kind': 'split', 'lines', 'policy', 'delim'} csv_utils.smart_split on each line (oracle for the splitter, which is
#                                                 another area's model): [[fields, warning], ...] or None if absent
#   {'kind': 'bytes_all', 'data': [ints], 'encoding', ...}   every partition of the byte string through a raw
#        io.RawIOBase with short readinto, wrapped by the constructor itself (encoding='utf-8' / 'latin-1')
import io
import re

from rbql import rbql_csv
from rbql import rbql_engine


class PieceStream:
    """a text stream delivering prescribed pieces; read(n) returns at most n characters of the first piece"""
    def __init__(self, pieces):
        self.p = list(pieces)
        self.i = 0

    def read(self, n=-1):
        if self.i >= len(self.p):
            return ''
        x = self.p[self.i]
        if n is None or n < 0 or n >= len(x):
            self.i += 1
            return x
        self.p[self.i] = x[n:]
        return x[:n]


class RawPieces(io.RawIOBase):
    """a raw byte stream whose readinto() is short: at most the next prescribed piece"""
    def __init__(self, pieces):
        io.RawIOBase.__init__(self)
        self.p = [bytes(x) for x in pieces]

    def readable(self):
        return True

    def readinto(self, b):
        if not self.p:
            return 0
        x = self.p[0]
        n = min(len(b), len(x))
        b[:n] = x[:n]
        if n == len(x):
            self.p.pop(0)
        else:
            self.p[0] = x[n:]
        return n


RX_FDL = re.compile(r'E\.g\. at line (\d+)')
RX_FIELDS = re.compile(r'record (\d+) -> (\d+) fields, record (\d+) -> (\d+) fields')
RX_ERR = re.compile(r'at record (\d+), line (\d+)')


def canon_warnings(ws):
    bom, fdl, fields, other = False, None, None, []
    for w in ws:
        if 'Byte Order Mark' in w:
            bom = True
            continue
        m = RX_FIELDS.search(w)
        if m:
            fields = [int(x) for x in m.groups()]
            continue
        m = RX_FDL.search(w)
        if m:
            fdl = int(m.group(1))
            continue
        other.append(w)
    r = [bom, fdl, fields]
    if other:
        r.append(other)
    return r


def canon_error(e):
    name = type(e).__name__
    m = RX_ERR.search(str(e))
    if m:
        return ['err', name, int(m.group(1)), int(m.group(2))]
    if 'Unable to decode' in str(e):
        return ['err', name, 'utf8']
    return ['err', name, str(e)[:80]]


def observe(stream, encoding, c, cs):
    try:
        kw = {}
        if cs is not None:
            kw['chunk_size'] = cs
        it = rbql_csv.CSVRecordIterator(stream, encoding, c['delim'], c['policy'], c['header'], c['comment'], **kw)
        if c.get('modifier') is not None:
            it.handle_query_modifier('header' if c['modifier'] else 'noheader')
        recs = it.get_all_records()
        header = it.get_header()
        ws = it.get_warnings()
        return ['ok', recs, header, canon_warnings(ws), it.NL, it.NR]
    except Exception as e:
        return canon_error(e)


def partitions(seq):
    n = len(seq)
    if n == 0:
        yield []
        return
    for mask in range(1 << (n - 1)):
        out = []
        start = 0
        for i in range(n - 1):
            if mask >> i & 1:
                out.append(seq[start:i + 1])
                start = i + 1
        out.append(seq[start:])
        yield out


def run_all(c):
    text = c['text']
    sizes = c['chunk_sizes'] or [1, 2, len(text) + 1]
    seen = []
    keys = {}
    masks = c.get('masks')
    parts = list(partitions(text))
    if masks is not None:
        parts = [parts[m] for m in masks]
    for pieces in parts:
        for cs in sizes:
            o = observe(PieceStream(pieces), None, c, cs)
            k = repr(o)
            if k not in keys:
                keys[k] = 1
                seen.append([o, pieces, cs])
    return seen


def run_bytes_all(c):
    data = bytes(c['data'])
    seen = []
    keys = {}
    for pieces in partitions(data):
        o = observe(RawPieces(pieces), c['encoding'], c, c.get('cs'))
        k = repr(o)
        if k not in keys:
            keys[k] = 1
            seen.append([o, [list(p) for p in pieces]])
    return seen


def run_case(c):
    kind = c['kind']
    if kind == 'all':
        return run_all(c)
    if kind == 'one':
        return observe(PieceStream(c['pieces']), None, c, c['cs'])
    if kind == 'bytes_one':
        return observe(RawPieces([bytes(p) for p in c['pieces']]), c['encoding'], c, c.get('cs'))
    if kind == 'bytes_all':
        return run_bytes_all(c)
    if kind == 'rows':
        if not hasattr(rbql_csv.CSVRecordIterator, '_get_all_rows'):
            return None
        try:
            it = rbql_csv.CSVRecordIterator(PieceStream(c['pieces']), None, c['delim'], c['policy'], c['header'], c['comment'],
                                            chunk_size=c['cs'], line_mode=True)
            rows = it._get_all_rows()
            return [rows, it.NL, bool(it.utf8_bom_removed)]
        except Exception as e:
            return canon_error(e)
    if kind == 'split':
        from rbql import csv_utils
        if not hasattr(csv_utils, 'smart_split'):
            return None
        out = []
        for l in c['lines']:
            fields, warning = csv_utils.smart_split(l, c['delim'], c['policy'], False)
            out.append([list(fields), bool(warning)])
        return out
    raise ValueError(kind)
