# C04 at file level (Python): rbql.query_csv over an input FILE and a JOIN FILE located by path, both written from prescribed BYTES.
# case = {'q' (JOINFILE stands for the path of the join file), 'file_a', 'file_b': [bytes], 'enc', 'pol', 'dlm', 'comment'}
# -> {'rows': [[str]] | None, 'error': [class, nr, field] | None, 'warnings': [...]}; output: simple policy, TAB separated
import os
import shutil
import tempfile
import rbql
import engine as EN


def run_case(c):
    d = tempfile.mkdtemp(prefix='c04file_', dir=os.environ.get('VERIF_SCRATCH'))
    try:
        inp, joinp, outp = os.path.join(d, 'in.csv'), os.path.join(d, 'jt.csv'), os.path.join(d, 'out.tsv')
        with open(inp, 'wb') as f:
            f.write(bytes(c['file_a']))
        with open(joinp, 'wb') as f:
            f.write(bytes(c['file_b']))
        warns = []
        try:
            rbql.query_csv(c['q'].replace('JOINFILE', joinp), inp, c['dlm'], c['pol'], outp, '\t', 'simple', c['enc'], warns, False, c['comment'])
        except Exception as e:
            return {'rows': None, 'error': EN.canon_error(e), 'warnings': warns}
        with open(outp, 'rb') as f:
            text = f.read().decode(c['enc'])
        return {'rows': [l.split('\t') for l in text.split('\n')[:-1]], 'error': None, 'warnings': warns}
    finally:
        shutil.rmtree(d, ignore_errors=True)
