const path = require('path');
module.exports.run_case = async function (c, repo) {
    const rbql = require(path.join(repo, 'rbql-js', 'rbql.js'));
    const out = [], warns = [], names = [];
    let err = null;
    try {
        await rbql.query_table(c.qjs, c.A.map(r => r.slice()), out, warns, c.B ? c.B.map(r => r.slice()) : null, c.hdrA || null, c.hdrB || null, names, true, c.init_js || '');
    } catch (e) {
        const n = (e && e.constructor && e.constructor.name) || 'Error';
        err = [n.includes('Parsing') ? 'P' : n.includes('Runtime') ? 'R' : n.includes('IOHandling') ? 'IO' : 'O', 0, null];
    }
    const widths = Array.from(new Set(out.map(r => r.length))).sort((a, b) => a - b);
    return {header: names.length ? names : null, widths: widths, nrows: out.length, error: err};
};
