# numlit.py - the Python side of the NumLit.v probes (entry 570).  case.s = list of code points (no string crosses the JSON transport).
#   int   : ['ok', decimal text of int(s)] | ['err']                      (ValueError)
#   float : ['ok', float(s).hex()] (infinities and nan print as 'inf', '-inf', 'nan') | ['err']
#   engine: rbql-py query_table('select MAX(a1)', [[s]]): ['int', text] | ['float', hex] | ['other', type] | ['error', kind, message]
#           kind = 'convert' for NumHandler's "Unable to convert value" RbqlRuntimeError
import rbql


def lit(f, s):
    try:
        return f(s)
    except ValueError:
        return None


def run_case(c):
    s = ''.join(chr(x) for x in c['s'])
    i = lit(int, s)
    f = lit(float, s)
    res = {'int': ['err'] if i is None else ['ok', str(i)], 'float': ['err'] if f is None else ['ok', f.hex()]}
    out = []
    try:
        rbql.query_table('select MAX(a1)', [[s]], out, [])
        v = out[0][0]
        if len(out) != 1 or len(out[0]) != 1:
            res['engine'] = ['other', 'shape %r' % (out,)]
        elif isinstance(v, bool) or not isinstance(v, (int, float)):
            res['engine'] = ['other', type(v).__name__]
        elif isinstance(v, int):
            res['engine'] = ['int', str(v)]
        else:
            res['engine'] = ['float', v.hex()]
    except Exception as e:
        msg = str(e)
        kind = 'convert' if type(e).__name__ == 'RbqlRuntimeError' and 'Unable to convert value' in msg else type(e).__name__
        res['engine'] = ['error', kind, msg[:160]]
    return res
