# C14 supplementary scenario (Python): CSVWriter with colorize_output=True - the warnings must not depend on the colour codes
import io
from rbql import rbql_csv
import c10 as W


def run_case(c):
    out = io.StringIO()
    w = rbql_csv.CSVWriter(out, False, None, c['dlm'], c['pol'], colorize_output=True)
    try:
        for row in c['rows']:
            w.write(list(row))
        w.finish()
    except Exception as e:
        return {'error': type(e).__name__}
    return {'warnings': W.warn_kinds(w.get_warnings()), 'error': None}
