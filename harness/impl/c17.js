const path = require('path');
module.exports.run_case = async function (c, repo) {
    const rbql = require(path.join(repo, 'rbql-js', 'rbql.js'));
    const rows = c.rows.map(r => r.slice());
    const out = [], warns = [];
    let q = 'select like(a1, a2)';
    if (c.literal !== undefined && c.literal !== null) q = 'select like(a1, ' + c.quote + c.literal + c.quote + ')';
    await rbql.query_table(q, rows, out, warns);
    return out.map(r => !!r[0]);
};
