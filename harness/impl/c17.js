const path = require('path');
module.exports.run_case = async function (c, repo) {
    const rbql = require(path.join(repo, 'rbql-js', 'rbql.js'));
    const rows = c.rows.map(r => r.slice());
    const out = [], warns = [];
    await rbql.query_table('select like(a1, a2)', rows, out, warns);
    return out.map(r => !!r[0]);
};
