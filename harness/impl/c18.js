// C18 implementation side (JS): read a CSV text (bulk path through a scratch file, and stream path) with rbql-js
const path = require('path');
const fs = require('fs');
const os = require('os');
const {Readable} = require('stream');

function warn_kinds(ws) {
    const out = [];
    for (const w of ws) {
        const lw = w.toLowerCase();
        if (lw.includes('byte order mark') || lw.includes('bom')) out.push('bom');
        else if (lw.includes('quot')) out.push('quoting');
        else if (lw.includes('number of fields')) out.push('num_fields');
        else if (lw.includes('none values') || lw.includes('null values')) out.push('none');
        else if (lw.includes('separator')) out.push('separator');
        else out.push('other:' + w.slice(0, 60));
    }
    return out.sort();
}

async function read_text(rbql_csv, text, enc, dlm, pol, comment_prefix, has_header) {
    const jsenc = enc === 'latin-1' ? 'binary' : 'utf-8';
    const buf = Buffer.from(text, jsenc === 'binary' ? 'latin1' : 'utf-8');
    try {
        const s = new Readable({read() {}});
        s.push(buf);
        s.push(null);
        const it = new rbql_csv.CSVRecordIterator(s, null, jsenc, dlm, pol, has_header, comment_prefix || null);
        const recs = [];
        let header = null;
        if (has_header) header = await it.get_header();
        while (true) {
            const r = await it.get_record();
            if (r === null) break;
            recs.push(r);
        }
        return {records: recs, header: header, warnings: warn_kinds(it.get_warnings()), error: null};
    } catch (e) {
        const n = (e && e.constructor && e.constructor.name) || 'Error';
        return {records: null, header: null, warnings: null, error: n.includes('IOHandling') ? 'IO' : n};
    }
}

module.exports.run_case = async function (c, repo) {
    const rbql_csv = require(path.join(repo, 'rbql-js', 'rbql_csv.js'));
    const out = [];
    for (const t of c.texts) out.push(await read_text(rbql_csv, t, c.enc, c.dlm, c.pol, c.comment_prefix, c.has_header || false));
    return out;
};
