// C18 implementation side (JS): read a CSV text (bulk path through a scratch file, and stream path) with rbql-js
const path = require('path');
const fs = require('fs');
const os = require('os');
const {Readable} = require('stream');

function warn_kinds(ws) {
    const out = [];
    for (const w of ws) {
        const lw = w.toLowerCase();
        if (lw.includes('byte order mark') || lw.includes('bom')) out.push('bom');
        else if (lw.includes('quot')) out.push('quoting');
        else if (lw.includes('number of fields')) out.push('num_fields');
        else if (lw.includes('none values') || lw.includes('null values')) out.push('none');
        else if (lw.includes('separator')) out.push('separator');
        else out.push('other:' + w.slice(0, 60));
    }
    return out.sort();
}

function fields_nums(ws) {
    for (const w of ws) {
        const m = /record (\d+) -> (\d+) fields, record (\d+) -> (\d+) fields/.exec(w);
        if (m) return [m[1], m[2], m[3], m[4]].map(Number);
    }
    return null;
}

let scratch_n = 0;
async function read_text(rbql_csv, text, enc, dlm, pol, comment_prefix, has_header, bulk) {
    const jsenc = enc === 'latin-1' ? 'binary' : 'utf-8';
    const buf = Buffer.from(text, jsenc === 'binary' ? 'latin1' : 'utf-8');
    let tmp = null;
    try {
        let s = null;
        if (bulk) {
            // the bulk path: the file is read in one piece (csv_path given, no stream)
            tmp = path.join(os.tmpdir(), 'c18_' + process.pid + '_' + (scratch_n++ % 8) + '.csv');
            fs.writeFileSync(tmp, buf);
        } else {
            s = new Readable({read() {}});
            s.push(buf);
            s.push(null);
        }
        const it = new rbql_csv.CSVRecordIterator(s, tmp, jsenc, dlm, pol, has_header, comment_prefix || null);
        const recs = [];
        let header = null;
        if (has_header) header = await it.get_header();
        while (true) {
            const r = await it.get_record();
            if (r === null) break;
            recs.push(r);
        }
        const ws = it.get_warnings();
        return {records: recs, header: header, warnings: warn_kinds(ws), fields: fields_nums(ws), error: null};
    } catch (e) {
        const n = (e && e.constructor && e.constructor.name) || 'Error';
        // "... the same error class": by exception type AND as the public classifier (exception_to_error_info) reports it
        const kind = rbql_csv.exception_to_error_info(e)[0];
        if (n.includes('IOHandling') && kind !== 'IO handling')
            return {records: null, header: null, warnings: null, fields: null, error: `exception_to_error_info says '${kind}' for a ${n}`};
        return {records: null, header: null, warnings: null, fields: null, error: n.includes('IOHandling') ? 'IO' : n};
    } finally {
        if (tmp !== null) { try { fs.unlinkSync(tmp); } catch (e) {} }
    }
}

module.exports.run_case = async function (c, repo) {
    const rbql_csv = require(path.join(repo, 'rbql-js', 'rbql_csv.js'));
    const out = [];
    for (const t of c.texts) out.push(await read_text(rbql_csv, t, c.enc, c.dlm, c.pol, c.comment_prefix, c.has_header || false, c.bulk || false));
    return out;
};
