// cov_static.js - rbql-js side of harness/props/cov_static.py (C14, static / configuration error paths): rbql.query with logging
// subclasses of the public TableIterator, a recording writer and an object registry; query_table (direct mode), query_csv with an
// inconsistent configuration, the command line.  Reports the error class and the ORDER of the calls the caller's objects have seen.
const fs = require('fs');
const os = require('os');
const path = require('path');
const child_process = require('child_process');

function canon_error(e) {
    const n = (e && e.constructor && e.constructor.name) || 'Error';
    const msg = String((e && e.message) || e);
    if (n === 'SyntaxError') return ['S', 0, null];
    if (n.includes('Parsing')) return ['P', 0, null];
    if (n.includes('IOHandling')) return ['IO', 0, null];
    if (n.includes('Runtime')) {
        let m = /No field with index (\d+) at record (\d+) in "B" table/.exec(msg);
        if (m) return ['R', parseInt(m[2]), 'B'];
        m = /[Aa]t record (\d+)/.exec(msg);
        if (m) return ['R', parseInt(m[1]), null];
        return ['R', 0, null];
    }
    return ['O', 0, n];
}

function hints_of(msg) {
    const h = [];
    for (const [key, pat] of [['having', /support "HAVING"/], ['like', /support "LIKE"/], ['from', /not have "FROM"/],
                              ['and', /use 'and' keyword/], ['or', /use 'or' keyword/]]) {
        if (pat.test(msg)) h.push(key);
    }
    return h.sort();
}

async function run_query(c, repo) {
    const rbql = require(path.join(repo, 'rbql-js', 'rbql.js'));
    const log = [];
    const norm = c.normalize !== false;
    class LogIterator extends rbql.TableIterator {
        constructor(table, names, prefix) { super(table, names, norm, prefix); this.tag = prefix.toUpperCase(); }
        async get_variables_map(q) { log.push('V' + this.tag); return await super.get_variables_map(q); }
        async get_record() { const r = await super.get_record(); if (r !== null) log.push('P' + this.tag); return r; }
    }
    class LogWriter extends rbql.RBQLOutputWriter {
        set_header(h) { log.push('H'); }
        async write(f) { log.push('W'); return true; }
        async finish() { log.push('F'); }
        get_warnings() { return []; }
    }
    class LogRegistry extends rbql.RBQLTableRegistry {
        get_iterator_by_table_id(table_id) {
            log.push('LB');
            if (c.B === null || c.B === undefined || table_id.toLowerCase() !== 'b') return null;
            return new LogIterator(c.B.map(r => r.slice()), c.hdrB || null, 'b');
        }
        get_warnings() { return []; }
    }
    const it = new LogIterator(c.A.map(r => r.slice()), c.hdrA || null, 'a');
    const reg = c.registry ? new LogRegistry() : null;
    let err = null, hints = null, label = null;
    try {
        await rbql.query(c.qjs || c.q, it, new LogWriter(), [], reg);
    } catch (e) {
        err = canon_error(e);
        const info = rbql.exception_to_error_info(e);
        label = info[0];
        hints = hints_of(String(info[1]));
    }
    return {error: err, log: log, label: label, hints: hints};
}

async function run_table(c, repo) {
    const rbql = require(path.join(repo, 'rbql-js', 'rbql.js'));
    const out = [], names = [];
    let err = null;
    try {
        await rbql.query_table(c.qjs || c.q, c.A.map(r => r.slice()), out, [], c.B.map(r => r.slice()), c.hdrA, c.hdrB, names, false);
    } catch (e) { err = canon_error(e); }
    return {error: err, rows: out.length};
}

function write_lines(p, lines) { fs.writeFileSync(p, lines.map(l => l + '\n').join(''), 'utf-8'); }

async function run_csv(c, repo) {
    const rbql_csv = require(path.join(repo, 'rbql-js', 'rbql_csv.js'));
    const d = fs.mkdtempSync(path.join(process.env.VERIF_SCRATCH || os.tmpdir(), 'covstjs_'));
    try {
        const inp = path.join(d, 'in.csv'), outp = path.join(d, 'out.csv');
        write_lines(inp, c.in_lines);
        let err = null;
        try {
            await rbql_csv.query_csv(c.qjs || c.q, inp, c.delim, c.policy, outp, c.out_delim, c.out_policy, c.encoding, [], false);
        } catch (e) { err = canon_error(e); }
        await new Promise(r => setTimeout(r, 30));      // the write stream opened before the check creates the file asynchronously
        const size = fs.existsSync(outp) ? fs.statSync(outp).size : null;
        return {error: err, out_size: size, input_intact: fs.readFileSync(inp, 'utf-8') === c.in_lines.map(l => l + '\n').join('')};
    } finally {
        fs.rmSync(d, {recursive: true, force: true});
    }
}

async function run_cli(c, repo) {
    const d = fs.mkdtempSync(path.join(process.env.VERIF_SCRATCH || os.tmpdir(), 'covclijs_'));
    try {
        const inp = path.join(d, 'in.csv'), outp = path.join(d, 'out.csv');
        write_lines(inp, c.in_lines);
        if (c.join_lines) write_lines(path.join(d, 'jt.csv'), c.join_lines);
        const args = [path.join(repo, 'rbql-js', 'cli_rbql.js'), '--query', c.qjs || c.q, '--input', inp];
        if (!c.omit_delim) args.push('--delim', c.delim);
        if (!c.omit_policy) args.push('--policy', c.policy);
        if (c.with_output !== false) args.push('--output', outp);
        if (c.with_headers) args.push('--with-headers');
        const p = child_process.spawnSync(process.execPath, args, {cwd: d, timeout: 120000});
        const stderr = String(p.stderr || '');
        const m = /Error \[([^\]]*)\]/.exec(stderr);
        return {rc: p.status, stdout_len: (p.stdout || '').length, label: m ? m[1] : null, out_size: fs.existsSync(outp) ? fs.statSync(outp).size : null};
    } finally {
        fs.rmSync(d, {recursive: true, force: true});
    }
}

module.exports.run_case = async function (c, repo) {
    const k = c.kind;
    if (k === 'static2' || k === 'late' || k === 'syntax') return await run_query(c, repo);
    if (k === 'ambig') return await run_table(c, repo);
    if (k === 'config') return await run_csv(c, repo);
    if (k === 'cli') return await run_cli(c, repo);
    throw new Error('unknown kind ' + k);
};
