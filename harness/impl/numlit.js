// numlit.js - the JavaScript side of the NumLit.v probes (entry 570).  case.s = list of code points.
//   number: Number(s) as ['nan'] | ['ok', the 64 bits of the double in hex] (infinities included: 7ff0000000000000 / fff0000000000000)
//   blank : s.trim().length == 0 (the second half of rbql-js parse_number's test)
//   engine: rbql-js query_table('select MAX(a1)', [[s]]): ['num', bits] | ['nan'] | ['other', typeof] | ['error', kind, message]
//           kind = 'convert' for parse_number's "Unable to convert value" RbqlRuntimeError
const path = require('path');
function bits(x) {
    const b = new DataView(new ArrayBuffer(8));
    b.setFloat64(0, x);
    return b.getBigUint64(0).toString(16).padStart(16, '0');
}
function enc(x) {
    return Number.isNaN(x) ? ['nan'] : ['ok', bits(x)];
}
module.exports.run_case = async function (c, repo) {
    const rbql = require(path.join(repo, 'rbql-js', 'rbql.js'));
    const s = String.fromCodePoint(...c.s);
    const res = {number: enc(Number(s)), blank: s.trim().length == 0};
    const out = [], warns = [];
    try {
        await rbql.query_table('select MAX(a1)', [[s]], out, warns);
        const v = out[0][0];
        if (out.length != 1 || out[0].length != 1) res.engine = ['other', 'shape ' + JSON.stringify(out)];
        else if (typeof v !== 'number') res.engine = ['other', typeof v];
        else res.engine = Number.isNaN(v) ? ['nan'] : ['num', bits(v)];
    } catch (e) {
        const msg = String(e && e.message || e);
        const name = (e && e.constructor && e.constructor.name) || 'Error';
        res.engine = ['error', (name == 'RbqlRuntimeError' && msg.includes('Unable to convert value')) ? 'convert' : name, msg.slice(0, 160)];
    }
    return res;
};
