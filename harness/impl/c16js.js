// c16js.js - rbql-js histories for C16: a sequence of queries through ONE freshly loaded copy of rbql-js (the module cache entries of
// the repository's rbql-js files are dropped first, so module-level state starts as in a fresh interpreter); a history of one query
// is the solo run.  Result per query: rows, output header, warnings or the error class and message head.
const path = require('path');

function canon_val(v) {
    if (v === null || v === undefined) return null;
    if (typeof v === 'boolean' || typeof v === 'string') return v;
    if (typeof v === 'number') return Number.isInteger(v) ? v : {f: v};
    if (Array.isArray(v)) return v.map(canon_val);
    return {other: String(v)};
}

async function run_query(rbql, q) {
    const A = q.A.map(r => r.slice());
    const B = q.B ? q.B.map(r => r.slice()) : null;
    const out = [], warnings = [], oh = [];
    try {
        await rbql.query_table(q.q, A, out, warnings, B, q.hdrA || null, q.hdrB || null, oh);
        return {rows: out.map(r => r.map(canon_val)), header: oh.slice(), warnings: warnings.length, error: null};
    } catch (e) {
        const info = rbql.exception_to_error_info(e);
        return {rows: null, header: null, warnings: 0, error: [String(info[0]), String(info[1]).replace(/\s+/g, ' ').slice(0, 120)]};
    }
}

module.exports.run_case = async function (c, repo) {
    const dir = path.join(repo, 'rbql-js') + path.sep;
    for (const k of Object.keys(require.cache)) if (k.startsWith(dir)) delete require.cache[k];
    const rbql = require(path.join(repo, 'rbql-js', 'rbql.js'));
    const results = [];
    for (const q of c.queries) results.push(await run_query(rbql, q));
    return {results: results};
};
