# C03 supplementary scenarios (Python): query_table with optional user init code; values rendered as JSON-able data
from fractions import Fraction
import rbql
import engine as EN


def canon(v):
    if isinstance(v, Fraction):
        return str(v)
    if isinstance(v, (list, tuple)):
        return [canon(x) for x in v]
    return EN.canon_val(v)


def run_case(c):
    out = []
    try:
        rbql.query_table(c['q'], [list(r) for r in c['A']], out, [], None, None, None, None, True, c.get('init', ''))
    except Exception as e:
        return {'error': EN.canon_error(e), 'msg': str(e)[:200]}
    return {'rows': [[canon(v) for v in r] for r in out], 'error': None}
