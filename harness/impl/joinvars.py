# resolve_join_variables probe (Python): case = {'im': [[name, index]...], 'jm': [...], 'pairs': [[v1, v2]...]}
import re
from rbql import rbql_engine as E


def run_case(c):
    im = {k: E.VariableInfo(True, i) for k, i in c['im']}
    jm = {k: E.VariableInfo(True, i) for k, i in c['jm']}
    try:
        lhs, rhs = E.resolve_join_variables(im, jm, [tuple(p) for p in c['pairs']], [])
    except Exception as e:
        msg = str(e)
        kind = 1 if 'mbiguous' in msg else 2 if 'Input table does not have field' in msg else 3 if 'Join table does not have field' in msg else 0
        m = re.search(r'field "(.*)"\n', msg, re.S) or re.search(r'variable name: "(.*)" is present both', msg, re.S)
        return {'error': [type(e).__name__, kind, m.group(1) if m else None]}
    out_l = []
    for x in lhs:
        m = re.match(r'safe_join_get\(record_a, (\d+)\)$', x)
        out_l.append(None if x == 'NR' else int(m.group(1)) if m else ['?', x])
    return {'lhs': out_l, 'rhs': [None if i == -1 else i for i in rhs]}
