# C15 implementation side: broken pipes at every stream write, invalid bytes at every position, descriptor hygiene.
import io
import os
import sys
import tempfile
import rbql
from rbql import rbql_engine as E
from rbql import rbql_csv as C
import engine as EN


class BreakingStream(object):
    """text stream whose k-th write raises BrokenPipeError (and every later one too)"""
    def __init__(self, k):
        self.k = k
        self.n = 0
        self.ops = []
        self.accepted = []

    def write(self, s):
        i = self.n
        self.n += 1
        if i >= self.k:
            self.ops.append(['write_fail'])
            raise BrokenPipeError(32, 'Broken pipe')
        self.ops.append(['write'])
        self.accepted.append(s)
        return len(s)

    def flush(self):
        self.ops.append(['flush'])

    def close(self):
        self.ops.append(['close'])


def run_pipe(c):
    A = [list(r) for r in c['A']]
    it = EN.RecIterator(A, c.get('hdrA'), 'a')
    stream = BreakingStream(c['k'])
    wr = C.CSVWriter(stream, c.get('close', False), None, ',', c.get('policy', 'simple'))
    warns = []
    err = None
    try:
        rbql.query(c['q'], it, wr, warns, None)
    except Exception as e:
        err = EN.canon_error(e)
    return {'accepted': stream.accepted, 'nops': len(stream.ops), 'ops': stream.ops[-3:], 'error': err, 'pulls': it.pulls,
            'broken': bool(wr.broken_pipe), 'stdout_closed': bool(sys.stdout.closed)}


def run_bytes(c):
    data = bytes(c['bytes'])
    res = {}
    try:
        it = C.CSVRecordIterator(io.BytesIO(data), 'utf-8', ',', c.get('policy', 'simple'), chunk_size=c['cs'])
        recs = it.get_all_records()
        res['records'] = recs
        res['error'] = None
    except Exception as e:
        res['error'] = EN.canon_error(e)
        res['records'] = None
    try:
        data.decode('utf-8')
        res['valid'] = True
    except UnicodeDecodeError:
        res['valid'] = False
    return res


def fds():
    return sorted(os.listdir('/proc/self/fd'))


def run_fd(c):
    d = tempfile.mkdtemp(prefix='c15_', dir=os.environ.get('VERIF_SCRATCH', None))
    try:
        inp = os.path.join(d, 'in.csv')
        joinp = os.path.join(d, 'jt.csv')
        outp = os.path.join(d, 'out.csv')
        with open(inp, 'wb') as f:
            f.write(bytes(c['input']))
        with open(joinp, 'wb') as f:
            f.write(bytes(c.get('join', [])))
        before = fds()
        warns = []
        err = None
        # every file the CSV front-end opens is tracked (a leaked file object would otherwise be closed by the garbage
        # collector as soon as the exception's traceback is released, hiding the leak from /proc/self/fd)
        tracked = []
        import builtins

        def tracking_open(*a, **kw):
            f = builtins.open(*a, **kw)
            tracked.append(f)
            return f
        C.open = tracking_open
        try:
            rbql.query_csv(c['q'].replace('JOINFILE', joinp), inp, ',', c.get('policy', 'quoted'), outp, ',', c.get('opolicy', 'quoted'), c.get('enc', 'utf-8'), warns, c.get('with_headers', False))
        except Exception as e:
            err = EN.canon_error(e)
        finally_unset = C.__dict__.pop('open', None)
        after = fds()
        not_closed = sum(1 for f in tracked if not f.closed)
        for f in tracked:
            if not f.closed:
                f.close()
        out = None
        if os.path.exists(outp):
            with open(outp, 'rb') as f:
                out = list(f.read())
        return {'leak': (len(after) - len(before)) + not_closed, 'opened': len(tracked), 'error': err, 'out_len': None if out is None else len(out)}
    finally:
        for fn in os.listdir(d):
            os.remove(os.path.join(d, fn))
        os.rmdir(d)


def run_ospipe(c):
    """a REAL pipe whose reading end goes away after `read` bytes: the query writes `n` lines through CSVWriter over the usual
    buffered text stream of the writing end, in a child process (CSVWriter.finish may close sys.stdout there, observation O6)"""
    import json
    import signal
    rfd, wfd = os.pipe()
    res_r, res_w = os.pipe()
    pid = os.fork()
    if pid == 0:
        rc = 0
        try:
            os.close(rfd)
            os.close(res_r)
            signal.signal(signal.SIGPIPE, signal.SIG_IGN)
            sys.stdout = open(os.devnull, 'w')
            stream = open(wfd, 'w', encoding='utf-8', newline='')
            A = [[c['cell'] + str(i), 'v'] for i in range(c['n'])]
            it = EN.RecIterator(A, None, 'a')
            wr = C.CSVWriter(stream, False, None, ',', 'simple')
            err = None
            try:
                rbql.query(c['q'], it, wr, [], None)
            except BaseException as e:
                err = [type(e).__name__, str(e)[:160]]
            os.write(res_w, json.dumps({'error': err, 'pulls': it.pulls, 'broken': bool(wr.broken_pipe)}).encode())
        except BaseException as e:
            try:
                os.write(res_w, json.dumps({'error': ['CHILD', repr(e)[:160]], 'pulls': -1, 'broken': None}).encode())
            except BaseException:
                pass
            rc = 3
        finally:
            os._exit(rc)
    os.close(wfd)
    os.close(res_w)
    got = b''
    while len(got) < c['read']:
        chunk = os.read(rfd, min(65536, c['read'] - len(got)))
        if not chunk:
            break
        got += chunk
    os.close(rfd)            # the consumer goes away
    out = b''
    while True:
        chunk = os.read(res_r, 65536)
        if not chunk:
            break
        out += chunk
    os.close(res_r)
    _pid, status = os.waitpid(pid, 0)
    res = json.loads(out.decode()) if out else {'error': ['CHILD', 'no result'], 'pulls': -1, 'broken': None}
    res['received'] = got.decode('utf-8', 'replace')
    res['status'] = status
    return res


def run_case(c):
    m = c['mode']
    if m == 'ospipe':
        return run_ospipe(c)
    if m == 'pipe':
        return run_pipe(c)
    if m == 'bytes':
        return run_bytes(c)
    if m == 'fd':
        return run_fd(c)
    if m == 'engine':
        return EN.run_case(c)
    raise ValueError(m)
