// js_driver.js <module> <in.json> <out.json> - requires harness/impl/<module>.js, which exports async run_case(case, repo)
const fs = require('fs');
const path = require('path');
const repo = process.env.VERIF_REPO || '/repo';
const mod = require(path.join(__dirname, process.argv[2] + '.js'));
(async () => {
    const cases = JSON.parse(fs.readFileSync(process.argv[3], 'utf-8'));
    const out = [];
    for (const c of cases) {
        try {
            out.push(await mod.run_case(c, repo));
        } catch (e) {
            out.push({driver_exception: (e && e.constructor && e.constructor.name) || 'Error', msg: String(e && e.message || e).slice(0, 300)});
        }
    }
    fs.writeFileSync(process.argv[4], JSON.stringify(out));
})().catch(e => { console.error(e); process.exit(2); });
