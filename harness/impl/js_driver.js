// js_driver.js <module> <in.json> <out.json> - requires harness/impl/<module>.js, which exports async run_case(case, repo)
const fs = require('fs');
const path = require('path');
const repo = process.env.VERIF_REPO || '/repo';
const mod = require(path.join(__dirname, process.argv[2] + '.js'));
let on_uncaught = null;
let late_uncaught = 0;
if (!mod.handles_uncaught) process.on('uncaughtException', (e) => {
    // thrown by a stream handler of the code under test: the outcome of the case in progress; a straggler of an earlier case is counted only
    if (on_uncaught !== null) { const f = on_uncaught; on_uncaught = null; f(e); } else { late_uncaught += 1; }
});
(async () => {
    const cases = JSON.parse(fs.readFileSync(process.argv[3], 'utf-8'));
    const out = [];
    for (const c of cases) {
        try {
            // an exception thrown inside a stream 'data' / 'end' handler of the code under test cannot be caught around the await:
            // it surfaces as an uncaughtException; it is reported as the outcome of the case in progress instead of killing the driver
            out.push(await new Promise((resolve, reject) => {
                on_uncaught = (e) => reject(e);
                mod.run_case(c, repo).then((r) => { on_uncaught = null; resolve(r); }, (e) => { on_uncaught = null; reject(e); });
            }));
        } catch (e) {
            out.push({driver_exception: (e && e.constructor && e.constructor.name) || 'Error', msg: String(e && e.message || e).slice(0, 300)});
        }
    }
    fs.writeFileSync(process.argv[4], JSON.stringify(out));
})().catch(e => { console.error(e); process.exit(2); });
