// C08, non-ASCII names outside literals (rbql-js).
//  kind 'query'    : the PUBLIC path with user init code (the functions the query calls) - query_table, or, when the JOIN table has a name
//                    of its own (case.join_id), rbql.query with a table registry that knows this name
//  kind 'internal' : the text-layer probe of impl/c08.js
const path = require('path');
const base = require('./c08.js');

function norm_cell(v) {
    if (v === null || v === undefined) return null;
    if (typeof v === 'number') return Number.isInteger(v) ? v : ['float', String(v)];
    if (typeof v === 'string' || typeof v === 'boolean') return v;
    if (Array.isArray(v)) return v.map(norm_cell);
    return ['obj', String(v)];
}

module.exports.run_case = async function (c, repo) {
    if (c.kind == 'internal') return await base.run_case(c, repo);
    const rbql = require(path.join(repo, 'rbql-js', 'rbql.js'));
    const table = c.table.map(r => r.slice());
    const join = (c.join === null || c.join === undefined) ? null : c.join.map(r => r.slice());
    const out = [], warns = [];
    class NamedRegistry extends rbql.RBQLTableRegistry {
        get_iterator_by_table_id(table_id) {
            if (table_id !== c.join_id) throw new Error('Unable to find join table: ' + table_id);
            return new rbql.TableIterator(join, null, true, 'b');
        }
    }
    try {
        if (c.join_id === null || c.join_id === undefined) {
            await rbql.query_table(c.q, table, out, warns, join, null, null, null, true, c.init);
        } else {
            await rbql.query(c.q, new rbql.TableIterator(table, null, true), new rbql.TableWriter(out), warns, new NamedRegistry(), c.init);
        }
    } catch (e) {
        return {error: (e && e.constructor && e.constructor.name) || 'Error'};
    }
    return {rows: out.map(norm_cell), header: null};
};
