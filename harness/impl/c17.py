# C17 implementation side: like(a1, a2) through the public query_table path (one query = one regex cache)
import rbql

def run_case(case):
    rows = [list(r) for r in case['rows']]
    out, warns = [], []
    q = 'select like(a1, a2)'
    if case.get('literal') is not None:
        q = 'select like(a1, %s%s%s)' % (case['quote'], case['literal'], case['quote'])
    rbql.query_table(q, rows, out, warns)
    return [bool(r[0]) for r in out]
