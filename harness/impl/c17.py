# C17 implementation side: like(a1, a2) through the public query_table path (one query = one regex cache)
import rbql

def run_case(case):
    rows = [list(r) for r in case['rows']]
    out, warns = [], []
    rbql.query_table('select like(a1, a2)', rows, out, warns)
    return [bool(r[0]) for r in out]
