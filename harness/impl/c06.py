# C06 implementation side: sources (Python lists, pandas dataframe, sqlite file, CSV files) before/after a query.
import copy
import hashlib
import os
import sqlite3
import tempfile
import rbql
from rbql import rbql_engine as E
from rbql import rbql_csv as C
import engine as EN


def sha(path):
    with open(path, 'rb') as f:
        return hashlib.sha256(f.read()).hexdigest()


def to_csv_bytes(table, header):
    rows = ([header] if header else []) + table
    return ('\n'.join(','.join('' if c is None else c for c in r) for r in rows) + '\n').encode('utf-8')


def run_pandas(c):
    import pandas as pd
    hdr = c['hdr']
    df = pd.DataFrame(c['A'], columns=hdr)
    snap = df.copy(deep=True)
    dfb = snap_b = None
    if c.get('B') is not None:
        dfb = pd.DataFrame(c['B'], columns=c['hdrB'])
        snap_b = dfb.copy(deep=True)
    err = None
    try:
        rbql.query_pandas_dataframe(c['q'], df, [], dfb)
    except Exception as e:
        err = EN.canon_error(e)
    ok = df.equals(snap) and list(df.dtypes) == list(snap.dtypes) and list(df.columns) == list(snap.columns)
    if dfb is not None:
        ok = ok and dfb.equals(snap_b) and list(dfb.dtypes) == list(snap_b.dtypes)
    return {'sources_ok': bool(ok), 'error': err}


def run_sqlite(c):
    d = tempfile.mkdtemp(prefix='c06_', dir=os.environ.get('VERIF_SCRATCH'))
    dbp = os.path.join(d, 'db.sqlite')
    outp = os.path.join(d, 'out.csv')
    try:
        con = sqlite3.connect(dbp)
        ncol = len(c['hdr'])
        con.execute('CREATE TABLE t1 (%s)' % ', '.join('%s TEXT' % h for h in c['hdr']))
        con.executemany('INSERT INTO t1 VALUES (%s)' % ','.join('?' * ncol), c['A'])
        con.execute('CREATE TABLE b (%s)' % ', '.join('%s TEXT' % h for h in c['hdrB']))
        con.executemany('INSERT INTO b VALUES (%s)' % ','.join('?' * len(c['hdrB'])), c['B'])
        con.commit()
        con.close()
        before = sha(dbp)
        con = sqlite3.connect(dbp)
        stmts = []
        con.set_trace_callback(stmts.append)
        from rbql import rbql_sqlite
        err = None
        try:
            rbql_sqlite.query_sqlite_to_csv(c['q'], con, c['table_name'], outp, ',', 'quoted', 'utf-8', [])
        except Exception as e:
            err = EN.canon_error(e)
        con.set_trace_callback(None)
        con.close()
        after = sha(dbp)
        return {'sources_ok': before == after, 'error': err, 'sql': stmts}
    finally:
        for fn in os.listdir(d):
            os.remove(os.path.join(d, fn))
        os.rmdir(d)


def run_csv(c):
    d = tempfile.mkdtemp(prefix='c06_', dir=os.environ.get('VERIF_SCRATCH'))
    try:
        inp, joinp, outp = os.path.join(d, 'in.csv'), os.path.join(d, 'jt.csv'), os.path.join(d, 'out.csv')
        with open(inp, 'wb') as f:
            f.write(to_csv_bytes(c['A'], c.get('hdr')))
        with open(joinp, 'wb') as f:
            f.write(to_csv_bytes(c.get('B') or [], c.get('hdrB')))
        os.utime(inp, (1000000000, 1000000000))
        os.utime(joinp, (1000000000, 1000000000))
        before = (sha(inp), sha(joinp), os.stat(inp).st_mtime, os.stat(joinp).st_mtime)
        err = None
        try:
            rbql.query_csv(c['q'].replace(' b on ', ' %s on ' % joinp), inp, ',', 'quoted', outp, ',', 'quoted', 'utf-8', [], c.get('hdr') is not None)
        except Exception as e:
            err = EN.canon_error(e)
        after = (sha(inp), sha(joinp), os.stat(inp).st_mtime, os.stat(joinp).st_mtime)
        return {'sources_ok': before == after, 'error': err}
    finally:
        for fn in os.listdir(d):
            os.remove(os.path.join(d, fn))
        os.rmdir(d)


def run_cli(c):
    """the command line: non-interactive (--query, output to stdout or to a default-named file) and interactive (the query typed at the
    prompt, result saved to a default path derived from the input path): the input file is byte-identical afterwards"""
    import shutil
    import subprocess
    import sys
    d = tempfile.mkdtemp(prefix='c06cli_', dir=os.environ.get('VERIF_SCRATCH'))
    try:
        os.mkdir(os.path.join(d, 'home'))
        inp = os.path.join(d, c['file_name'])
        dl = {'TAB': '\t'}.get(c['delim'], c['delim'])
        data = ''.join(dl.join(r) + '\n' for r in c['A']).encode('utf-8')
        with open(inp, 'wb') as f:
            f.write(data)
        env = dict(os.environ, HOME=os.path.join(d, 'home'), PYTHONWARNINGS='ignore')
        args = [sys.executable, '-m', 'rbql', '--input', inp, '--delim', c['delim']]
        if c['interactive']:
            p = subprocess.run(args, input=(c['q'] + '\n').encode('utf-8'), stdout=subprocess.PIPE, stderr=subprocess.STDOUT, env=env, cwd=d, timeout=120)
        else:
            p = subprocess.run(args + ['--query', c['q']], stdout=subprocess.PIPE, stderr=subprocess.STDOUT, env=env, cwd=d, timeout=120)
        after = open(inp, 'rb').read() if os.path.exists(inp) else None
        return {'sources_ok': after == data, 'error': None, 'rc': p.returncode, 'after': None if after == data else repr(after)[:200], 'out': p.stdout.decode('utf-8', 'replace')[-200:]}
    finally:
        shutil.rmtree(d, ignore_errors=True)


def run_case(c):
    m = c['mode']
    if m == 'cli':
        return run_cli(c)
    if m == 'list':
        return EN.run_case(c)
    if m == 'pandas':
        return run_pandas(c)
    if m == 'sqlite':
        return run_sqlite(c)
    if m == 'csv':
        return run_csv(c)
    raise ValueError(m)
