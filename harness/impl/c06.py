# C06 implementation side: sources (Python lists, pandas dataframe, sqlite file, CSV files) before/after a query.
import copy
import hashlib
import os
import sqlite3
import tempfile
import rbql
from rbql import rbql_engine as E
from rbql import rbql_csv as C
import engine as EN


def sha(path):
    with open(path, 'rb') as f:
        return hashlib.sha256(f.read()).hexdigest()


def to_csv_bytes(table, header):
    rows = ([header] if header else []) + table
    return ('\n'.join(','.join('' if c is None else c for c in r) for r in rows) + '\n').encode('utf-8')


def run_pandas(c):
    import pandas as pd
    hdr = c['hdr']
    df = pd.DataFrame(c['A'], columns=hdr)
    snap = df.copy(deep=True)
    dfb = snap_b = None
    if c.get('B') is not None:
        dfb = pd.DataFrame(c['B'], columns=c['hdrB'])
        snap_b = dfb.copy(deep=True)
    err = None
    try:
        rbql.query_pandas_dataframe(c['q'], df, [], dfb)
    except Exception as e:
        err = EN.canon_error(e)
    ok = df.equals(snap) and list(df.dtypes) == list(snap.dtypes) and list(df.columns) == list(snap.columns)
    if dfb is not None:
        ok = ok and dfb.equals(snap_b) and list(dfb.dtypes) == list(snap_b.dtypes)
    return {'sources_ok': bool(ok), 'error': err}


class RecCursor(sqlite3.Cursor):
    """every statement HANDED to sqlite (the trace callback only reports statements sqlite could prepare)"""
    def execute(self, sql, *args):
        self.connection.handed.append(sql)
        return sqlite3.Cursor.execute(self, sql, *args)

    def executemany(self, sql, *args):
        self.connection.handed.append(sql)
        return sqlite3.Cursor.executemany(self, sql, *args)

    def executescript(self, sql):
        self.connection.handed.append(sql)
        return sqlite3.Cursor.executescript(self, sql)


class RecConnection(sqlite3.Connection):
    def __init__(self, *args, **kwargs):
        sqlite3.Connection.__init__(self, *args, **kwargs)
        self.handed = []

    def cursor(self, factory=RecCursor):
        return sqlite3.Connection.cursor(self, factory)


def quote_ident(name):
    return '"' + name.replace('"', '""') + '"'


def run_sqlite(c):
    d = tempfile.mkdtemp(prefix='c06_', dir=os.environ.get('VERIF_SCRATCH'))
    dbp = os.path.join(d, 'db.sqlite')
    outp = os.path.join(d, 'out.csv')
    try:
        con = sqlite3.connect(dbp)
        ncol = len(c['hdr'])
        con.execute('CREATE TABLE t1 (%s)' % ', '.join('%s TEXT' % h for h in c['hdr']))
        con.executemany('INSERT INTO t1 VALUES (%s)' % ','.join('?' * ncol), c['A'])
        con.execute('CREATE TABLE b (%s)' % ', '.join('%s TEXT' % h for h in c['hdrB']))
        con.executemany('INSERT INTO b VALUES (%s)' % ','.join('?' * len(c['hdrB'])), c['B'])
        # tables that really HAVE the odd name (created with a quoted identifier): were the name pasted into 'SELECT * FROM {};', sqlite
        # could prepare the statement, it would show in the trace and the query would succeed
        made = []
        for name in c.get('make_tables') or []:
            try:
                con.execute('CREATE TABLE %s (%s)' % (quote_ident(name), ', '.join('%s TEXT' % h for h in c['hdrB'])))
                con.executemany('INSERT INTO %s VALUES (%s)' % (quote_ident(name), ','.join('?' * len(c['hdrB']))), c['B'])
                made.append(name)
            except (sqlite3.Error, ValueError, UnicodeError):
                pass              # e.g. a name sqlite refuses even when quoted (NUL), or one that is `b` / `t1` in another case
        con.commit()
        con.close()
        before = sha(dbp)
        con = sqlite3.connect(dbp, factory=RecConnection)
        stmts = []
        con.set_trace_callback(stmts.append)
        from rbql import rbql_sqlite
        err = None
        try:
            rbql_sqlite.query_sqlite_to_csv(c['q'], con, c['table_name'], outp, ',', 'quoted', 'utf-8', [])
        except Exception as e:
            err = EN.canon_error(e)
        con.set_trace_callback(None)
        handed = list(con.handed)
        con.close()
        after = sha(dbp)
        return {'sources_ok': before == after, 'error': err, 'sql': stmts, 'handed': handed, 'tables': ['t1', 'b'] + made}
    finally:
        for fn in os.listdir(d):
            os.remove(os.path.join(d, fn))
        os.rmdir(d)


def run_csv(c):
    d = tempfile.mkdtemp(prefix='c06_', dir=os.environ.get('VERIF_SCRATCH'))
    try:
        inp, joinp, outp = os.path.join(d, 'in.csv'), os.path.join(d, 'jt.csv'), os.path.join(d, 'out.csv')
        with open(inp, 'wb') as f:
            f.write(to_csv_bytes(c['A'], c.get('hdr')))
        with open(joinp, 'wb') as f:
            f.write(to_csv_bytes(c.get('B') or [], c.get('hdrB')))
        os.utime(inp, (1000000000, 1000000000))
        os.utime(joinp, (1000000000, 1000000000))
        before = (sha(inp), sha(joinp), os.stat(inp).st_mtime, os.stat(joinp).st_mtime)
        err = None
        try:
            rbql.query_csv(c['q'].replace(' b on ', ' %s on ' % joinp), inp, ',', 'quoted', outp, ',', 'quoted', 'utf-8', [], c.get('hdr') is not None)
        except Exception as e:
            err = EN.canon_error(e)
        after = (sha(inp), sha(joinp), os.stat(inp).st_mtime, os.stat(joinp).st_mtime)
        return {'sources_ok': before == after, 'error': err}
    finally:
        for fn in os.listdir(d):
            os.remove(os.path.join(d, fn))
        os.rmdir(d)


PATH_FORMS = {
    # how the --input argument names the file <dir>/<name> (cwd = <dir>): forms that path.normalize / os.path.normpath would rewrite included
    'abs': lambda d, fn: os.path.join(d, fn),
    'plain': lambda d, fn: fn,
    'dot': lambda d, fn: './' + fn,
    'updown': lambda d, fn: 'sub/../' + fn,
    'dslash': lambda d, fn: d + '//' + fn,
    'dir_dot': lambda d, fn: d + '/./' + fn,
    'dot_dslash': lambda d, fn: './/' + fn,
}


def run_cli(c):
    """the command line of either port: non-interactive (--query, output to stdout) and interactive (the query typed at the prompt, result
    saved to a default path DERIVED FROM THE INPUT PATH as given): the input file is byte-identical afterwards"""
    import shutil
    import subprocess
    import sys
    d = tempfile.mkdtemp(prefix='c06cli_', dir=os.environ.get('VERIF_SCRATCH'))
    try:
        os.mkdir(os.path.join(d, 'home'))
        os.mkdir(os.path.join(d, 'sub'))
        real = os.path.join(d, c['file_name'])
        inp = PATH_FORMS[c.get('path_form', 'abs')](d, c['file_name'])
        dl = {'TAB': '\t', None: ','}.get(c['delim'], c['delim'])
        data = ''.join(dl.join(r) + '\n' for r in c['A']).encode('utf-8')
        with open(real, 'wb') as f:
            f.write(data)
        env = dict(os.environ, HOME=os.path.join(d, 'home'), PYTHONWARNINGS='ignore')
        if c.get('lang', 'py') == 'js':
            args = ['node', os.path.join(os.environ.get('VERIF_REPO', '/repo'), 'rbql-js', 'cli_rbql.js'), '--input', inp]
        else:
            args = [sys.executable, '-m', 'rbql', '--input', inp]
        if c['delim'] is not None:           # (None: the interactive mode detects the delimiter itself)
            args += ['--delim', c['delim']]
        if c['interactive']:
            p = subprocess.run(args, input=(c['q'] + '\n').encode('utf-8'), stdout=subprocess.PIPE, stderr=subprocess.STDOUT, env=env, cwd=d, timeout=120)
        else:
            p = subprocess.run(args + ['--query', c['q']], stdout=subprocess.PIPE, stderr=subprocess.STDOUT, env=env, cwd=d, timeout=120)
        after = open(real, 'rb').read() if os.path.exists(real) else None
        new_files = sorted(fn for fn in os.listdir(d) + ['sub/' + x for x in os.listdir(os.path.join(d, 'sub'))] if fn not in ('home', 'sub', c['file_name']))
        return {'sources_ok': after == data, 'error': None, 'rc': p.returncode, 'after': None if after == data else repr(after)[:200], 'new_files': new_files,
                'out': p.stdout.decode('utf-8', 'replace')[-200:]}
    finally:
        shutil.rmtree(d, ignore_errors=True)


def run_case(c):
    m = c['mode']
    if m == 'cli':
        return run_cli(c)
    if m == 'list':
        return EN.run_case(c)
    if m == 'pandas':
        return run_pandas(c)
    if m == 'sqlite':
        return run_sqlite(c)
    if m == 'csv':
        return run_csv(c)
    raise ValueError(m)
