// Variable-spelling probes (C08, VarSpelling.v), rbql-js side.
//  kind 'map'   : {q, prefix} -> the variable map of the exported parse_basic_variables + parse_array_variables (guarded):
//                 sorted [[key, initialize, index as decimal text]]
//  kind 'query' : {q, table, join, names, join_names} -> the PUBLIC path query_table: {rows} | {error: class}
const path = require('path');
module.exports.run_case = async function (c, repo) {
    const rbql = require(path.join(repo, 'rbql-js', 'rbql.js'));
    if (c.kind == 'map') {
        if (typeof rbql.parse_basic_variables !== 'function' || typeof rbql.parse_array_variables !== 'function') return {missing: true};
        const m = {};
        try {
            rbql.parse_basic_variables(c.q, c.prefix, m);
            rbql.parse_array_variables(c.q, c.prefix, m);
        } catch (e) {
            return {error: e.constructor.name};
        }
        const out = Object.keys(m).map(k => [k, !!m[k].initialize, String(m[k].index)]);
        out.sort((x, y) => x[0] < y[0] ? -1 : x[0] > y[0] ? 1 : 0);
        return {map: out};
    }
    const out = [], warn = [];
    try {
        await rbql.query_table(c.q, c.table, out, warn, c.join || null, c.names || null, c.join_names || null, null, true);
    } catch (e) {
        return {error: (e && e.constructor && e.constructor.name) || 'Error'};
    }
    return {rows: out};
};
