# sharedmon.py - runtime cross-check of harness/translate_shared.py (C16): a snapshot of EVERY shared cell of the loaded rbql modules
# (module globals, class attributes, default-argument objects, function attributes, the set of names of each module / class, and the
# identity of sys.stdin / stdout / stderr), taken around each executed case.  A cell is described by deep structure (values) AND by
# the identity (id) of every container / instance inside it, so an in-place mutation, a rebinding to an equal object and a new name are
# all seen.  delta() returns the names of the cells that changed since the previous snapshot, in the translator's naming scheme:
#   <module>.<name>   <module>.<Class>.<attr>   <module>.<func>.<default:p>   <module>.<Class>.<meth>.<default:p>   <module>.__dict__
#   <module>.<Class>  (set of attribute names / bases of the class)   ext:sys.stdout
import importlib
import re
import sys
import types

MODS = ['rbql_engine', 'rbql_csv', 'csv_utils', 'rbql_pandas', 'rbql_sqlite']
SKIP = {'__builtins__', '__cached__', '__spec__', '__loader__', '__doc__', '__file__', '__package__', '__name__', '__path__'}
CLS_SKIP = {'__dict__', '__weakref__', '__doc__', '__module__', '__qualname__', '__firstlineno__', '__static_attributes__', '__annotations__'}
_PATTERN = type(re.compile(''))
_state = {'mods': None, 'last': None}


def _mods():
    if _state['mods'] is None:
        out = {}
        for m in MODS:
            try:
                out[m] = importlib.import_module('rbql.' + m)
            except Exception:                      # noqa: BLE001  (a module that cannot be imported here is not executed by the cases either)
                pass
        _state['mods'] = out
    return _state['mods']


def deep(v, depth=0, seen=None):
    if v is None or isinstance(v, (str, int, float, bool, bytes, complex)):
        return repr(v)
    seen = seen if seen is not None else set()
    if id(v) in seen or depth > 7:
        return ('ref', type(v).__name__, id(v))
    seen = seen | {id(v)}
    if isinstance(v, (list, tuple)):
        return (type(v).__name__, id(v), [deep(x, depth + 1, seen) for x in v])
    if isinstance(v, (set, frozenset)):
        return (type(v).__name__, id(v), sorted(repr(deep(x, depth + 1, seen)) for x in v))
    if isinstance(v, dict):
        return (type(v).__name__, id(v), [(deep(k, depth + 1, seen), deep(x, depth + 1, seen)) for k, x in list(v.items())])
    if isinstance(v, types.ModuleType):
        return ('module', v.__name__)
    if isinstance(v, _PATTERN):
        return ('re', v.pattern, v.flags)
    if isinstance(v, (types.FunctionType, types.BuiltinFunctionType, types.MethodType, type)):
        return (type(v).__name__, id(v), getattr(v, '__qualname__', ''))
    mod = getattr(type(v), '__module__', '') or ''
    if mod.startswith('rbql'):
        try:
            return ('inst', type(v).__name__, id(v), deep(vars(v), depth + 1, seen))
        except TypeError:
            pass
    if hasattr(v, '__len__') and hasattr(v, '__iter__') and not isinstance(v, (str, bytes)):
        try:
            return (type(v).__name__, id(v), [deep(x, depth + 1, seen) for x in list(v)[:1000]])
        except Exception:                          # noqa: BLE001
            pass
    return ('obj', type(v).__name__, id(v))


def _func_cells(out, name, f):
    out[name] = ('function', id(f), deep(getattr(f, '__dict__', None)))
    code = getattr(f, '__code__', None)
    dfl = getattr(f, '__defaults__', None) or ()
    if code is not None and dfl:
        pos = code.co_varnames[:code.co_argcount]
        for p, d in zip(pos[len(pos) - len(dfl):], dfl):
            out['%s.<default:%s>' % (name, p)] = deep(d)
    for p, d in (getattr(f, '__kwdefaults__', None) or {}).items():
        out['%s.<default:%s>' % (name, p)] = deep(d)


def _class_cells(out, name, cls, modname, depth=0):
    out[name] = ('class', id(cls), [id(b) for b in cls.__bases__], sorted(k for k in vars(cls) if k not in CLS_SKIP))
    for k, v in list(vars(cls).items()):
        if k in CLS_SKIP:
            continue
        if isinstance(v, (staticmethod, classmethod)):
            v = v.__func__
        if isinstance(v, property):
            for acc in (v.fget, v.fset, v.fdel):
                if acc is not None:
                    _func_cells(out, '%s.%s' % (name, k), acc)
            continue
        if isinstance(v, types.FunctionType):
            _func_cells(out, '%s.%s' % (name, k), v)
        elif isinstance(v, type) and getattr(v, '__module__', None) == modname and depth < 3:
            _class_cells(out, '%s.%s' % (name, k), v, modname, depth + 1)
        else:
            out['%s.%s' % (name, k)] = deep(v)


def snapshot():
    out = {}
    for m, mod in _mods().items():
        d = vars(mod)
        out['%s.__dict__' % m] = sorted(k for k in d if k not in SKIP)
        for k, v in list(d.items()):
            if k in SKIP:
                continue
            name = '%s.%s' % (m, k)
            if isinstance(v, types.FunctionType) and v.__module__ == mod.__name__:
                _func_cells(out, name, v)
            elif isinstance(v, type) and v.__module__ == mod.__name__:
                _class_cells(out, name, v, mod.__name__)
            else:
                out[name] = deep(v)
    for s in ('stdin', 'stdout', 'stderr'):
        out['ext:sys.%s' % s] = id(getattr(sys, s))
    return out


def begin():
    """(re)take the reference snapshot; -> number of cells monitored"""
    _state['last'] = snapshot()
    return len(_state['last'])


def delta():
    """names of the cells that differ from the previous snapshot (which is then replaced); -> (monitored, [names])"""
    if _state['last'] is None:
        begin()
        return len(_state['last']), []
    now = snapshot()
    last = _state['last']
    changed = sorted(k for k in set(now) | set(last) if now.get(k) != last.get(k))
    _state['last'] = now
    return len(now), changed
