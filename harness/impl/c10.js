// C10 implementation side (rbql-js): CSVWriter -> collecting Writable -> CSVRecordIterator over a Readable of the same bytes.
// batch = {pol, dlm, sep, enc ('utf-8' | 'binary' | null), tables: [{header, rows}]}; result per table {text, err, none, delim, readback}
const path = require('path');
const {Writable, Readable} = require('stream');

class Sink extends Writable {
    constructor() { super(); this.chunks = []; }
    _write(chunk, enc, cb) { this.chunks.push(Buffer.isBuffer(chunk) ? chunk : Buffer.from(chunk, enc)); cb(); }
}

function warn_kinds(ws) {
    return ws.map(w => {
        const lw = w.toLowerCase();
        if (lw.includes('byte order mark') || lw.includes('bom')) return 'bom';
        if (lw.includes('quot')) return 'quoting';
        if (lw.includes('number of fields')) return 'num_fields';
        if (lw.includes('none values') || lw.includes('null values')) return 'none';
        if (lw.includes('separator')) return 'separator';
        return 'other:' + w.slice(0, 60);
    }).sort();
}

function err_kind(e) {
    const msg = String(e && e.message || e).toLowerCase();
    const cls = (e && e.constructor && e.constructor.name) || '';
    if (cls == 'RbqlIOHandlingError') {
        if (msg.includes('header')) return 1;
        if (msg.includes('monocolumn')) return 2;
    }
    return 3;
}

async function run_table(rbql_csv, b, t, seq) {
    const enc = b.enc === null ? 'utf-8' : b.enc;
    const sink = new Sink();
    const w = new rbql_csv.CSVWriter(sink, false, enc, b.dlm, b.pol, b.sep);
    let err = null;
    const calls = (t.header !== null ? [t.header] : []).concat(t.rows);
    for (let i = 0; i < calls.length; i++) {
        try {
            if (i == 0 && t.header !== null) {
                // set_header calls the async write without awaiting it; do the same two steps explicitly
                w.header_len = calls[i].length;
                await w.write(calls[i]);
            } else {
                await w.write(calls[i]);
            }
        } catch (e) {
            err = [i, err_kind(e)];
            break;
        }
    }
    await w.finish();
    const raw = Buffer.concat(sink.chunks);
    const text = raw.toString(enc == 'binary' ? 'latin1' : 'utf-8');
    const kinds = warn_kinds(w.get_warnings());
    const res = {text: text, err: err, none: kinds.includes('none'), delim: kinds.includes('separator'),
                 other_warnings: kinds.filter(k => k != 'none' && k != 'separator'), readback: null, qcsv: null};
    if (err === null) {
        try {
            // the bytes are delivered in several chunks: a boundary after every other CR (so that CRLF pairs get split) and, for
            // every third table, one in the middle (inside whatever is there, multi-byte characters included)
            const rs = new Readable({read() {}});
            const cuts = [];
            for (let i = 1; i < raw.length; i++) {
                if (raw[i - 1] == 13 && (i + seq) % 2 == 0) cuts.push(i);
            }
            if (seq % 3 == 0 && raw.length > 1) cuts.push(raw.length >> 1);
            cuts.sort((a, b) => a - b);
            let prev = 0;
            for (const cpos of cuts) {
                if (cpos > prev) { rs.push(raw.subarray(prev, cpos)); prev = cpos; }
            }
            if (raw.length > prev)
                rs.push(raw.subarray(prev));
            rs.push(null);
            const it = new rbql_csv.CSVRecordIterator(rs, null, enc, b.dlm, b.pol);
            const recs = await it.get_all_records();
            res.readback = [recs, warn_kinds(it.get_warnings())];
            if (seq % 2 == 0) {
                // ... and through the bulk path (the file read in one piece): it must read the same table
                const fs = require('fs'), os = require('os');
                const tmp = path.join(os.tmpdir(), 'c10_' + process.pid + '_' + (seq % 4) + '.csv');
                fs.writeFileSync(tmp, raw);
                try {
                    const itb = new rbql_csv.CSVRecordIterator(null, tmp, enc, b.dlm, b.pol);
                    const recsb = await itb.get_all_records();
                    const rb = [recsb, warn_kinds(itb.get_warnings())];
                    if (JSON.stringify(rb) !== JSON.stringify(res.readback)) res.readback = ['BULK-DIFFERS', rb, res.readback];
                } finally {
                    try { fs.unlinkSync(tmp); } catch (e2) {}
                }
            }
        } catch (e) {
            res.readback = ['ERR', (e && e.constructor && e.constructor.name) || 'Error'];
        }
    }
    return res;
}

module.exports.run_case = async function (b, repo) {
    const rbql_csv = require(path.join(repo, 'rbql-js', 'rbql_csv.js'));
    const out = [];
    let seq = 0;
    for (const t of b.tables)
        out.push(await run_table(rbql_csv, b, t, seq++));
    return out;
};
