// engine.js - rbql-js side for C19: one query through rbql-js query_table; result rows, header, error class, and
// the caller's input/join arrays afterwards (deep equality + identity of every row object).
const path = require('path');

function canon_val(v) {
    if (v === null || v === undefined) return null;
    if (typeof v === 'boolean' || typeof v === 'string') return v;
    if (typeof v === 'number') return Number.isInteger(v) ? v : {f: v};
    if (Array.isArray(v)) return v.map(canon_val);
    return {other: String(v)};
}

function canon_error(e) {
    const n = (e && e.constructor && e.constructor.name) || 'Error';
    const msg = String((e && e.message) || e);
    if (n.includes('Parsing')) return ['P', 0, null];
    if (n.includes('IOHandling')) return ['IO', 0, null];
    if (n.includes('Runtime')) {
        let m = /No "a(\d+)" field at record (\d+)/.exec(msg);
        if (m) return ['R', parseInt(m[2]), parseInt(m[1]) - 1];
        m = /No field with index (\d+) at record (\d+) in "B" table/.exec(msg);
        if (m) return ['R', parseInt(m[2]), 'B'];
        m = /[Aa]t record (\d+)/.exec(msg);
        if (m) return ['R', parseInt(m[1]), null];
        return ['R', 0, null];
    }
    return ['O', 0, n];
}

module.exports.run_case = async function (c, repo) {
    const rbql = require(path.join(repo, 'rbql-js', 'rbql.js'));
    const A = c.A.map(r => r.slice());
    const B = c.B ? c.B.map(r => r.slice()) : null;
    const rowsA = A.slice(), rowsB = B ? B.slice() : null;
    const out = [], warns = [];
    let err = null;
    // the same path as query_table (TableIterator / TableWriter / SingleTableRegistry through rbql.query), with an input
    // iterator that counts its pulls and can serve an endless stream (early-stop clause of C02)
    class CountingIterator extends rbql.TableIterator {
        constructor(table, names, endless) { super(table, names, true); this.pulls = 0; this.endless = endless || 0; }
        async get_record() {
            if (this.endless) {
                if (this.stopped) return null;
                if (this.pulls >= this.endless) throw new Error('ENDLESS-BOUND');
                const r = this.table[this.pulls % this.table.length];
                this.pulls += 1;
                this.nr += 1;
                return r;
            }
            const r = await super.get_record();
            if (r !== null) this.pulls += 1;
            return r;
        }
    }
    const it = new CountingIterator(A, c.hdrA || null, c.endless);
    const writer = new rbql.TableWriter(out);
    const reg = B === null ? null : new rbql.SingleTableRegistry(B, c.hdrB || null, true);
    try {
        await rbql.query(c.qjs, it, writer, warns, reg);
    } catch (e) {
        err = (e && e.message === 'ENDLESS-BOUND') ? ['O', 0, 'NONTERMINATION'] : canon_error(e);
    }
    const names = writer.header || [];
    let sources_ok = JSON.stringify(A) === JSON.stringify(c.A) && A.length === rowsA.length && A.every((r, i) => r === rowsA[i]);
    if (B) sources_ok = sources_ok && JSON.stringify(B) === JSON.stringify(c.B) && B.every((r, i) => r === rowsB[i]);
    const src = new Set(rowsA.concat(rowsB || []));
    const alias = out.some(r => src.has(r));
    return {rows: out.map(r => r.map(canon_val)), error: err, header: names.length ? names.slice() : null, sources_ok: sources_ok, alias: alias, pulls: it.pulls};
};
