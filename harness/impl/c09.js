// C09 implementation side (JavaScript): rbql-js query_table with input_column_names (normalize_column_names true / false)
const path = require('path');

function norm(v) {
    if (v === null || v === undefined) return null;
    if (typeof v === 'string' || typeof v === 'number' || typeof v === 'boolean') return v;
    if (Array.isArray(v)) return v.map(norm);
    return ['obj', String(v)];
}

module.exports.run_case = async function (c, repo) {
    const rbql = require(path.join(repo, 'rbql-js', 'rbql.js'));
    const out = [];
    for (const q of c.queries) {
        const rows = [], warns = [], hdr = [];
        try {
            await rbql.query_table(q, c.records.map(r => r.slice()), rows, warns, null, c.names || null, null, hdr, c.normalize !== false);
            out.push({rows: rows.map(r => r.map(norm)), header: hdr.length ? hdr : null});
        } catch (e) {
            out.push({error: (e && e.constructor && e.constructor.name) || 'Error'});
        }
    }
    return out;
};
