# hdrjs.py - the Python select_output_header loop on column infos with explicit (possibly negative) indices (entry 554)
import rbql
from rbql import rbql_engine


def run_case(c):
    infos = [None if q is None else rbql_engine.QueryColumnInfo(table_name=q[0], column_index=q[1], column_name=q[2], is_star=q[3], alias_name=q[4]) for q in c['infos']]
    try:
        return {'header': rbql_engine.select_output_header(c['ih'], c['jh'], infos)}
    except Exception as e:
        return {'error': type(e).__name__}
