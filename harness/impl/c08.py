# C08 implementation side (Python).
#  kind 'query'    : the PUBLIC path rbql.query_table on a spelling of a query -> table / header / error class
#  kind 'internal' : additional probe of the text layer's internal functions (each guarded with hasattr):
#                    cleanup_query, separate_string_literals, remove_redundant_input_table_name,
#                    separate_actions, find_top, translate_update_expression, parse_join_expression,
#                    translate_select_expression, translate_except_expression, combine_string_literals
#  kind 'chars'    : str.strip / re.IGNORECASE probes for single characters (whitespace set, case folding)
import re
import rbql
from rbql import rbql_engine as E


def err_tag(e):
    """error -> (class name, tag): the tag is derived from which check of the text layer fired"""
    msg = str(e)
    cls = type(e).__name__
    table = [
        ('More than one', 1), ('UPDATE keyword must be at the beginning', 2), ('SELECT keyword must be at the beginning', 3),
        ('must contain either SELECT or UPDATE', 4), ('both SELECT and UPDATE', 5), ('LIMIT keyword must be followed', 6),
        ('Invalid join syntax', 7), ('must start with assignment', 8), ('"SELECT" expression is empty', 9),
    ]
    for key, tag in table:
        if key in msg:
            if tag == 1:
                m = re.search(r'More than one "([A-Z ]+)"', msg)
                return [cls, 1, m.group(1) if m else '?']
            return [cls, tag]
    return [cls, 0, msg[:80]]


class RecMap:
    """stands for input_variables_map: accepts every name and records it; index = order of first use"""
    def __init__(self):
        self.names = []

    def get(self, name, default=None):
        if name not in self.names:
            self.names.append(name)
        return E.VariableInfo(initialize=True, index=self.names.index(name))

    def __contains__(self, name):
        return True

    def __getitem__(self, name):
        return self.get(name)


def actions_canon(a):
    out = {}
    for k, v in a.items():
        if isinstance(v, dict):
            out[k] = dict(v)
        else:
            out[k] = v
    return out


def internal(case):
    q = case['q']
    res = {}
    have = lambda n: hasattr(E, n)
    if not (have('cleanup_query') and have('separate_string_literals') and have('separate_actions')):
        return {'missing': True}
    clean = E.cleanup_query(q)
    res['clean'] = clean
    fmt, lits = E.separate_string_literals(clean)
    res['format'] = fmt
    res['literals'] = list(lits)
    if have('combine_string_literals'):
        res['combined'] = E.combine_string_literals(fmt, lits)
    fmt2 = E.remove_redundant_input_table_name(fmt) if have('remove_redundant_input_table_name') else fmt
    res['format2'] = fmt2
    groups = [g[:] for g in E.default_statement_groups if g != [E.FROM]]
    try:
        acts = E.separate_actions(groups, fmt2)
    except Exception as e:
        res['actions'] = {'error': err_tag(e)}
        return res
    res['actions'] = actions_canon(acts)
    det = {}
    if E.SELECT in acts and have('find_top'):
        try:
            det['top'] = E.find_top(acts)
        except Exception as e:
            det['top'] = {'error': err_tag(e)}
    if E.UPDATE in acts and have('translate_update_expression'):
        rm = RecMap()
        try:
            code = E.translate_update_expression(acts[E.UPDATE]['text'], rm, [])
            pairs = []
            for line in code.split('\n'):
                m = re.match(r'^safe_set\(up_fields, ([0-9]+), (.*)\)$', line, flags=re.S)
                pairs.append([rm.names[int(m.group(1))], m.group(2)])
            det['update'] = pairs
        except Exception as e:
            det['update'] = {'error': err_tag(e)}
    if E.JOIN in acts and have('parse_join_expression'):
        try:
            tid, pairs = E.parse_join_expression(acts[E.JOIN]['text'])
            det['join'] = [tid, [list(p) for p in pairs]]
        except Exception as e:
            det['join'] = {'error': err_tag(e)}
    if E.SELECT in acts and have('translate_select_expression'):
        try:
            det['select'] = E.translate_select_expression(acts[E.SELECT]['text'])[0]
        except Exception as e:
            det['select'] = {'error': err_tag(e)}
    if E.EXCEPT in acts and have('translate_except_expression'):
        class Seq(RecMap):          # the variable list in order of appearance, duplicates kept
            def __init__(self):
                RecMap.__init__(self)
                self.seq = []

            def get(self, name, default=None):
                self.seq.append(name)
                return RecMap.get(self, name, default)
        sq = Seq()
        try:
            E.translate_except_expression(acts[E.EXCEPT]['text'], sq, [], None)
            det['except'] = sq.seq
        except Exception as e:
            det['except'] = {'error': err_tag(e)}
    res['details'] = det
    return res


def norm_cell(v):
    if v is None or isinstance(v, (int, str, bool)):
        return v
    if isinstance(v, float):
        return ['float', repr(v)]
    if isinstance(v, (list, tuple)):
        return [norm_cell(x) for x in v]
    return ['obj', type(v).__name__, str(v)]


def run_query(case):
    table = [list(r) for r in case['table']]
    join = [list(r) for r in case['join']] if case.get('join') is not None else None
    out, warns, hdr = [], [], []
    try:
        rbql.query_table(case['q'], table, out, warns, join_table=join,
                         input_column_names=case.get('names'), join_column_names=case.get('join_names'),
                         output_column_names=hdr)
    except Exception as e:
        return {'error': type(e).__name__}
    return {'rows': [norm_cell(r) for r in out], 'header': hdr if case.get('names') is not None else None}


def chars(case):
    c = chr(case['c'])
    k = case['k']
    return [c.strip() == '', re.fullmatch('(?i)' + k, c) is not None, re.fullmatch('.', c) is not None]


def run_case(case):
    kind = case.get('kind')
    if kind == 'internal':
        return internal(case)
    if kind == 'chars':
        return chars(case)
    return run_query(case)
