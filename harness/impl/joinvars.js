// resolve_join_variables probe (rbql-js)
const path = require('path');
module.exports.run_case = async function (c, repo) {
    const rbql = require(path.join(repo, 'rbql-js', 'rbql.js'));
    const im = {}, jm = {};
    for (const [k, i] of c.im) im[k] = {initialize: true, index: i};
    for (const [k, i] of c.jm) jm[k] = {initialize: true, index: i};
    try {
        const [lhs, rhs] = rbql.resolve_join_variables(im, jm, c.pairs, []);
        const out_l = lhs.map(x => { const m = /^safe_join_get\(record_a, (\d+)\)$/.exec(x); return x == 'NR' ? null : m ? parseInt(m[1]) : ['?', x]; });
        return {lhs: out_l, rhs: rhs.map(i => i == -1 ? null : i)};
    } catch (e) {
        const msg = String(e.message);
        const kind = /mbiguous/.test(msg) ? 1 : /Input table does not have field/.test(msg) ? 2 : /Join table does not have field/.test(msg) ? 3 : 0;
        const m = /field "([^]*)"\n/.exec(msg) || /variable name: "([^]*)" is present both/.exec(msg);
        return {error: [e.constructor.name, kind, m ? m[1] : null]};
    }
};
