# cov_static.py - rbql-py side of harness/props/cov_static.py (C14, static / configuration error paths).
# Every scenario goes through a PUBLIC entry point (rbql.query with logging subclasses of the public TableIterator / interfaces,
# rbql.query_table, rbql.query_csv, rbql.query_pandas_dataframe, `python -m rbql`) and reports: the error class, and the ORDER of
# every call the caller's objects have seen (registry lookups, get_variables_map, records pulled from B and A, set_header, write,
# finish).
import os
import re
import shutil
import subprocess
import sys
import tempfile
import rbql
from rbql import rbql_engine as E
import engine as EN


def err_class(e):
    if isinstance(e, SyntaxError):
        return ['S', 0, None]
    return EN.canon_error(e)


def hints_of(msg):
    """the advice lines appended to a syntax error, as an enum (wording beyond the quoted keyword is not compared)"""
    h = []
    for key, pat in (('having', r'support "HAVING"'), ('like', r'support "LIKE"'), ('from', r'not have "FROM"'),
                     ('and', r"use 'and' keyword"), ('or', r"use 'or' keyword")):
        if re.search(pat, msg):
            h.append(key)
    return sorted(h)


class LogIterator(E.TableIterator):
    def __init__(self, log, table, names, normalize, prefix):
        E.TableIterator.__init__(self, table, names, normalize, prefix)
        self.log = log
        self.tag = prefix.upper()

    def get_variables_map(self, query_text):
        self.log.append('V' + self.tag)
        return E.TableIterator.get_variables_map(self, query_text)

    def get_record(self):
        r = E.TableIterator.get_record(self)
        if r is not None:
            self.log.append('P' + self.tag)
        return r


class LogWriter(E.RBQLOutputWriter):
    def __init__(self, log):
        self.log = log
        self.rows = []

    def set_header(self, header):
        self.log.append('H')

    def write(self, fields):
        self.log.append('W')
        self.rows.append(fields)
        return True

    def finish(self):
        self.log.append('F')

    def get_warnings(self):
        return []


class LogRegistry(E.RBQLTableRegistry):
    def __init__(self, log, tables, normalize):
        self.log = log
        self.tables = tables          # {'a': (table, names), 'b': (...)}
        self.normalize = normalize

    def get_iterator_by_table_id(self, table_id, single_char_alias):
        self.log.append('L' + single_char_alias.upper())
        t = self.tables.get(table_id.lower())
        if t is None:
            return None
        return LogIterator(self.log, [list(r) for r in t[0]], t[1], self.normalize, single_char_alias)


def run_query(c):
    log = []
    norm = c.get('normalize', True)
    A = [list(r) for r in c['A']]
    it = LogIterator(log, A, c.get('hdrA'), norm, 'a') if c.get('bound', True) else None
    wr = LogWriter(log)
    reg = None
    if c.get('registry'):
        tables = {}
        if not c.get('bound', True):
            tables['a'] = (A, c.get('hdrA'))
        if c.get('B') is not None:
            tables['b'] = (c['B'], c.get('hdrB'))
        reg = LogRegistry(log, tables, norm)
    err, hints, label = None, None, None
    try:
        rbql.query(c['q'], it, wr, [], reg)
    except Exception as e:
        err = err_class(e)
        info = rbql.exception_to_error_info(e)
        label = info[0]
        hints = hints_of(info[1])
    return {'error': err, 'log': log, 'label': label, 'hints': hints}


def run_table(c):
    """query_table (and query_pandas_dataframe) in direct mode: the ambiguity check"""
    out, names, warns = [], [], []
    err = None
    try:
        rbql.query_table(c['q'], [list(r) for r in c['A']], out, warns, [list(r) for r in c['B']], c['hdrA'], c['hdrB'], names,
                         normalize_column_names=False)
    except Exception as e:
        err = err_class(e)
    res = {'error': err, 'rows': len(out)}
    if c.get('pandas'):
        import pandas
        perr, prow = None, None
        try:
            df = pandas.DataFrame(c['A'], columns=c['hdrA'])
            jdf = pandas.DataFrame(c['B'], columns=c['hdrB'])
            r = rbql.query_pandas_dataframe(c['q'], df, [], jdf, normalize_column_names=False)
            prow = len(r)
        except Exception as e:
            perr = err_class(e)
        res['pandas'] = {'error': perr, 'rows': prow}
    return res


def _write(path, lines, enc='utf-8'):
    with open(path, 'wb') as f:
        f.write(''.join(l + '\n' for l in lines).encode(enc))


def run_csv(c):
    """query_csv with an inconsistent configuration: IO handling error, nothing written"""
    d = tempfile.mkdtemp(prefix='covst_', dir=os.environ.get('VERIF_SCRATCH'))
    try:
        inp, outp = os.path.join(d, 'in.csv'), os.path.join(d, 'out.csv')
        _write(inp, c['in_lines'])
        err = None
        try:
            rbql.query_csv(c['q'], inp, c['delim'], c['policy'], outp, c['out_delim'], c['out_policy'], c['encoding'], [], False)
        except Exception as e:
            err = err_class(e)
        size = os.path.getsize(outp) if os.path.exists(outp) else None
        res = {'error': err, 'out_size': size, 'input_intact': open(inp, 'rb').read() == ''.join(l + '\n' for l in c['in_lines']).encode('utf-8')}
        if c.get('sqlite'):
            import sqlite3
            from rbql import rbql_sqlite
            db = os.path.join(d, 't.db')
            con = sqlite3.connect(db)
            con.execute('create table t (x text, y text)')
            con.executemany('insert into t values (?, ?)', [('k', '1'), ('m', '2')])
            con.commit()
            outq = os.path.join(d, 'outq.csv')
            serr = None
            try:
                rbql_sqlite.query_sqlite_to_csv(c['q'], con, 't', outq, c['out_delim'], c['out_policy'], c['encoding'], [])
            except Exception as e:
                serr = err_class(e)
            con.close()
            res['sqlite'] = {'error': serr, 'out_size': os.path.getsize(outq) if os.path.exists(outq) else None}
        return res
    finally:
        shutil.rmtree(d, ignore_errors=True)


def run_cli(c):
    """`python -m rbql` with a query that must be refused: exit status, stdout, the Error [type] line, the output file"""
    d = tempfile.mkdtemp(prefix='covcli_', dir=os.environ.get('VERIF_SCRATCH'))
    try:
        inp, outp = os.path.join(d, 'in.csv'), os.path.join(d, 'out.csv')
        _write(inp, c['in_lines'])
        if c.get('join_lines') is not None:
            _write(os.path.join(d, 'jt.csv'), c['join_lines'])
        cmd = [sys.executable, '-m', 'rbql', '--query', c['q'], '--input', inp]
        if not c.get('omit_delim'):
            cmd += ['--delim', c['delim']]
        if not c.get('omit_policy'):
            cmd += ['--policy', c['policy']]
        if c.get('with_output', True):
            cmd += ['--output', outp]
        if c.get('with_headers'):
            cmd += ['--with-headers']
        p = subprocess.run(cmd, stdout=subprocess.PIPE, stderr=subprocess.PIPE, cwd=d, timeout=120)
        stderr = p.stderr.decode('utf-8', 'replace')
        m = re.search(r'Error \[([^\]]*)\]', stderr)
        return {'rc': p.returncode, 'stdout_len': len(p.stdout), 'label': m.group(1) if m else None,
                'out_size': os.path.getsize(outp) if os.path.exists(outp) else None}
    finally:
        shutil.rmtree(d, ignore_errors=True)


def run_case(c):
    k = c['kind']
    if k in ('static2', 'late', 'syntax'):
        return run_query(c)
    if k == 'ambig':
        return run_table(c)
    if k == 'config':
        return run_csv(c)
    if k == 'cli':
        return run_cli(c)
    raise ValueError(k)
