// heap_gen.js <repo> - helper of harness/translate_heap.py: asks the REAL rbql-js code generator (shallow_parse_input_query +
// generate_main_loop_code of <repo>/rbql-js/rbql.js) for the main-loop code of the queries given on stdin
// ([{name, q, join}]) and prints [{name, q, code, chain}] (chain = class names of query_context.writer, top first).
// The two functions are not exported by rbql.js, so the file is compiled with three extra export lines added at its end
// (nothing is written to the repo).  A missing function makes this script fail, which the translator reports.
const fs = require('fs');
const path = require('path');
const Module = require('module');

const repo = process.argv[2];
const file = path.join(repo, 'rbql-js', 'rbql.js');
const extra = '\n;exports.__heap_shallow = shallow_parse_input_query; exports.__heap_gen = generate_main_loop_code; exports.__heap_ctx = RBQLContext;\n';
let src = fs.readFileSync(file, 'utf-8');
// rbql.js is wrapped in (function(exports){ ... }(...)): the extra exports go inside the wrapper, before its last line
const close = src.lastIndexOf('\n}(typeof exports');
src = close >= 0 ? src.slice(0, close) + extra + src.slice(close) : src + extra;
const m = new Module(file, null);
m.filename = file;
m.paths = Module._nodeModulePaths(path.dirname(file));
m._compile(src, file);
const R = m.exports;

(async () => {
    const queries = JSON.parse(fs.readFileSync(0, 'utf-8'));
    const out = [];
    for (const item of queries) {
        const A = [['1', 'x;y', '3'], ['2', 'z', '4']];
        const B = [['1', 'p'], ['2', 'q']];
        const it = new R.TableIterator(A, null, true);
        const wr = new R.TableWriter([]);
        const reg = item.join ? new R.SingleTableRegistry(B, null, true) : null;
        const ctx = new R.__heap_ctx(item.q, it, wr, '');
        await R.__heap_shallow(item.q, it, reg, ctx);
        const code = R.__heap_gen(ctx);
        const chain = [];
        let w = ctx.writer;
        while (w) {
            chain.push(w.constructor.name);
            w = w.subwriter;
        }
        out.push({name: item.name, q: item.q, code: code, chain: chain});
    }
    process.stdout.write(JSON.stringify(out));
})().catch(e => { console.error(String(e && e.stack || e)); process.exit(3); });
