// jssort.js - probes for JsSort.v (entries 565, 566) on the REAL comparators of rbql-js.
// The functions are not exported by rbql.js, so their source text is cut out of <root>/rbql-js/rbql.js (balanced braces) and
// evaluated: function stable_compare, function compare_aggregation_keys, class SortedWriter - all in one scope, so that the
// SortedWriter under test sorts with the stable_compare under test.  If one of them cannot be found the probe refuses.
// A key component travels as ['i', integer] or ['s', [UTF-16 code units]] (['p', [code points]] in the sort cases) so that no
// string crosses the JSON transport.  case.mode:
//   'cmp'     : a, b = {k: [components], i: arrival index}; the entries are k.concat([i, record]); when case.same the second
//               argument IS the first array (an entry compared with itself)                                  -> {r: 0 | 1 | 2} for -1 | undefined or 0 | 1
//   'agg'     : a, b = null | [components]; the arguments are null | JSON.stringify(components)                -> {r: 0 | 1 | 2} for -1 | 0 or undefined | 1
//   'sort'    : entries = [{k: [components], id}], reverse: the entries go through SortedWriter.write / finish (Array.prototype.sort
//               with stable_compare, reverse()) into a collecting writer                                      -> {rows: [ids]}
//   'aggsort' : keys = [[components]]: Array.from(new Set(texts)).sort(compare_aggregation_keys) as AggregateWriter.finish does -> {keys: [[components]]}
const fs = require('fs');
const path = require('path');

function cut(src, head) {
    const at = src.indexOf(head);
    if (at < 0 || src.indexOf(head, at + 1) >= 0)
        throw new Error('jssort: cannot find exactly one ' + JSON.stringify(head) + ' in rbql.js');
    let i = src.indexOf('{', at);
    if (i < 0) throw new Error('jssort: no body after ' + head);
    let depth = 0;
    for (let j = i; j < src.length; j++) {
        if (src[j] == '{') depth++;
        else if (src[j] == '}') { depth--; if (depth == 0) return src.slice(at, j + 1); }
    }
    throw new Error('jssort: unbalanced braces after ' + head);
}

const loaded = {};
function load(repo) {
    if (loaded[repo]) return loaded[repo];
    const file = path.join(repo, 'rbql-js', 'rbql.js');
    const src = fs.readFileSync(file, 'utf-8');
    const parts = [cut(src, 'function stable_compare('), cut(src, 'function compare_aggregation_keys('), cut(src, 'class SortedWriter ')];
    const f = (0, eval)('(function () {\n' + parts.join('\n') + '\nreturn {stable_compare: stable_compare, compare_aggregation_keys: compare_aggregation_keys, SortedWriter: SortedWriter};\n})');
    const m = f();
    if (typeof m.stable_compare != 'function' || typeof m.compare_aggregation_keys != 'function' || typeof m.SortedWriter != 'function')
        throw new Error('jssort: the text cut out of ' + file + ' does not define the comparators');
    if (m.stable_compare.length != 2 || m.compare_aggregation_keys.length != 2)
        throw new Error('jssort: unexpected arity of the comparators');
    loaded[repo] = m;
    return m;
}

function comp(x) {
    if (x[0] == 'i') return x[1];
    if (x[0] == 's') return String.fromCharCode(...x[1]);
    if (x[0] == 'p') return String.fromCodePoint(...x[1]);
    throw new Error('bad tag ' + x[0]);
}
function units(s) {
    const r = [];
    for (let i = 0; i < s.length; i++) r.push(s.charCodeAt(i));
    return r;
}
function uncomp(v) {
    if (typeof v == 'number') return ['i', v];
    if (typeof v == 'string') return ['s', units(v)];
    throw new Error('unexpected component ' + String(v));
}
function sign(r, undef_ok) {
    // The observable is what Array.prototype.sort (the only caller of both comparators) makes of the answer: it takes ToNumber(v) and reads NaN
    // as +0 (ECMA-262 CompareArrayElements), so `undefined` (falling off the end of stable_compare) and `0` are ONE answer, "no order".
    // Demanding `undefined` exactly was more than the property says: the behaviour-preserving change seeded/harmless/C02-h2 (an explicit
    // `return 0` at the end of stable_compare) raised a false alarm on the entry-compared-with-itself case (notes/s2.md).
    if (r === -1) return 0;
    if (r === 1) return 2;
    if (r === undefined || r === 0) return 1;
    return 'unexpected result ' + String(r);
}

module.exports.run_case = async function (c, repo) {
    const m = load(repo);
    if (c.mode == 'cmp') {
        const a = c.a.k.map(comp).concat([c.a.i, ['record', 'a']]);
        const b = c.same ? a : c.b.k.map(comp).concat([c.b.i, ['record', 'b']]);
        return {r: sign(m.stable_compare(a, b), true)};
    }
    if (c.mode == 'agg') {
        const a = c.a === null ? null : JSON.stringify(c.a.map(comp));
        const b = c.b === null ? null : JSON.stringify(c.b.map(comp));
        return {r: sign(m.compare_aggregation_keys(a, b), false)};
    }
    if (c.mode == 'sort') {
        const rows = [];
        const sink = {write: async (r) => { rows.push(r); return true; }, finish: async () => {}};
        const w = new m.SortedWriter(sink, c.reverse);
        for (const e of c.entries) {
            // select_simple: sort_key.concat([NR, out_fields]); the NR slot is overwritten by the arrival index
            if (!await w.write(e.k.map(comp).concat([e.nr, [e.id]]))) break;
        }
        await w.finish();
        return {rows: rows.map(r => r[0])};
    }
    if (c.mode == 'aggsort') {
        const set = new Set();
        for (const k of c.keys) set.add(JSON.stringify(k.map(comp)));
        const all_keys = Array.from(set);
        all_keys.sort(m.compare_aggregation_keys);
        return {keys: all_keys.map(t => JSON.parse(t).map(uncomp))};
    }
    throw new Error('bad mode ' + c.mode);
};
