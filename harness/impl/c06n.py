# C06, list sources handed to a CSV writer (Python): rbql.query(TableIterator(A), CSVWriter, registry(B)).
# CSVWriter.normalize_fields rewrites the record it is given in place (None -> '', list cell -> joined string): the engine must
# hand it fresh lists only, and a list-valued CELL of an input row must not be rewritten either.
# case = {'q', 'A', 'B', 'pol', 'dlm'} -> {'sources_ok', 'alias_rows', 'error', 'out'}
import copy
import io
import rbql
from rbql import rbql_engine as E
from rbql import rbql_csv as C
import engine as EN


def ids(table):
    """identity of every row and of every list-valued cell (recursively)"""
    out = []

    def walk(x):
        if isinstance(x, list):
            out.append(id(x))
            for y in x:
                walk(y)
    for r in table:
        walk(r)
    return out


def run_case(c):
    A = copy.deepcopy(c['A'])
    B = copy.deepcopy(c['B']) if c.get('B') is not None else None
    snapA, snapB = copy.deepcopy(A), copy.deepcopy(B)
    idsA, idsB = ids(A), (ids(B) if B is not None else None)
    names = copy.deepcopy(c.get('names'))
    snap_names = copy.deepcopy(names)
    out = io.StringIO()
    w = C.CSVWriter(out, False, None, c['dlm'], c['pol'])
    reg = None if B is None else EN.Registry(B, None)
    err = None
    try:
        rbql.query(c['q'], E.TableIterator(A, names), w, [], reg)
    except Exception as e:
        err = EN.canon_error(e)
    ok = A == snapA and ids(A) == idsA and names == snap_names
    if B is not None:
        ok = ok and B == snapB and ids(B) == idsB
    return {'sources_ok': bool(ok), 'error': err, 'out': out.getvalue(), 'A_after': EN.canon_row(A) if not ok else None, 'names_after': names if not ok else None}
