# C07 implementation side (Python): output header and row widths through rbql.query_table
import rbql
import engine as EN


def run_case(c):
    out, warns, names = [], [], []
    err = None
    try:
        rbql.query_table(c['q'], [list(r) for r in c['A']], out, warns, None if c.get('B') is None else [list(r) for r in c['B']],
                         c.get('hdrA'), c.get('hdrB'), names, True, c.get('init_py', ''))
    except Exception as e:
        err = EN.canon_error(e)
    # query_table leaves output_column_names empty when there is no header
    return {'header': list(names) if names else None, 'widths': sorted(set(len(r) for r in out)), 'nrows': len(out), 'error': err}
