// C04 at file level (rbql-js): rbql_csv.query_csv over an input FILE and a JOIN FILE located by path, both written from prescribed BYTES
// (stream readers, or the bulk path when case.bulk). Output: simple policy, TAB separated.
const path = require('path');
const fs = require('fs');
const os = require('os');

function canon_error(e) {
    const n = (e && e.constructor && e.constructor.name) || 'Error';
    if (n.includes('Parsing')) return ['P', 0, null];
    if (n.includes('IOHandling')) return ['IO', 0, null];
    if (n.includes('Runtime')) return ['R', 0, null];
    return ['O', 0, n + ': ' + String(e && e.message || e).slice(0, 120)];
}

const leftovers = [];
process.on('exit', () => { for (const d of leftovers) { try { fs.rmSync(d, {recursive: true, force: true}); } catch (e) {} } });

module.exports.run_case = async function (c, repo) {
    const rbql_csv = require(path.join(repo, 'rbql-js', 'rbql_csv.js'));
    const d = fs.mkdtempSync(path.join(process.env.VERIF_SCRATCH || os.tmpdir(), 'c04file_'));
    const inp = path.join(d, 'in.csv'), joinp = path.join(d, 'jt.csv'), outp = path.join(d, 'out.tsv');
    const enc = c.enc === 'latin-1' ? 'binary' : 'utf-8';
    try {
        fs.writeFileSync(inp, Buffer.from(c.file_a));
        fs.writeFileSync(joinp, Buffer.from(c.file_b));
        const warns = [];
        try {
            await rbql_csv.query_csv(c.q.replace('JOINFILE', joinp), inp, c.dlm, c.pol, outp, '\t', 'simple', enc, warns, false, c.comment, '', c.bulk ? {bulk_read: true} : null);
        } catch (e) {
            return {rows: null, error: canon_error(e), warnings: warns};
        }
        const text = fs.readFileSync(outp).toString(enc === 'binary' ? 'latin1' : 'utf-8');
        return {rows: text.split('\n').slice(0, -1).map(l => l.split('\t')), error: null, warnings: warns};
    } finally {
        // the output stream of a failed query may still be creating / flushing its file: retry, and leave the rest to process exit
        let gone = false;
        for (let k = 0; k < 5 && !gone; k++) {
            try { fs.rmSync(d, {recursive: true, force: true}); gone = true; } catch (e) { await new Promise((resolve) => setTimeout(resolve, 20)); }
        }
        if (!gone) leftovers.push(d);
    }
};
