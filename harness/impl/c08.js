// C08 implementation side (rbql-js).
//  kind 'query'    : the PUBLIC path rbql.query_table on a spelling of a query -> rows / header / error class
//  kind 'internal' : additional probe of the exported text-layer functions (each guarded): strip_comments (composed as
//                    cleanup_query composes it), separate_string_literals, combine_string_literals, separate_actions,
//                    translate_update_expression, parse_join_expression, translate_select_expression,
//                    translate_except_expression. remove_redundant_table_name is not exported: separate_actions is fed
//                    the model's format2 (case.format2), the public path covers the function itself.
//  kind 'chars'    : String.trim / RegExp i-flag probes for single characters
const path = require('path');

function err_tag(e) {
    const msg = String(e && e.message || e);
    const cls = (e && e.constructor && e.constructor.name) || 'Error';
    const table = [['More than one', 1], ['UPDATE keyword must be at the beginning', 2], ['SELECT keyword must be at the beginning', 3],
        ['must contain either SELECT or UPDATE', 4], ['both SELECT and UPDATE', 5], ['LIMIT keyword must be followed', 6],
        ['Invalid join syntax', 7], ['must start with assignment', 8], ['"SELECT" expression is empty', 9]];
    for (const [key, tag] of table) {
        if (msg.indexOf(key) != -1) {
            if (tag == 1) {
                const m = /More than one "([A-Z ]+)"/.exec(msg);
                return [cls, 1, m ? m[1] : '?'];
            }
            return [cls, tag];
        }
    }
    return [cls, 0, msg.slice(0, 80)];
}

function rec_map(seq) {
    // stands for input_variables_map: has every name; index = order of first use
    const names = [];
    return [new Proxy({}, {
        has: () => true,
        get: (t, name) => {
            if (name === 'hasOwnProperty') return (n) => true;
            if (typeof name !== 'string') return undefined;
            if (names.indexOf(name) == -1) names.push(name);
            if (seq) seq.push(name);
            return {initialize: true, index: names.indexOf(name)};
        },
        getOwnPropertyDescriptor: (t, name) => ({configurable: true, enumerable: true, value: 1}),
    }), names];
}

function internal(rbql, c) {
    const res = {};
    const have = (n) => typeof rbql[n] === 'function';
    if (!(have('strip_comments') && have('separate_string_literals') && have('separate_actions'))) return {missing: true};
    const clean = c.q.split('\n').map(rbql.strip_comments).filter(l => l.length).join(' ').replace(/;+$/g, '');
    res.clean = clean;
    const [fmt, lits] = rbql.separate_string_literals(clean);
    res.format = fmt;
    res.literals = lits;
    if (have('combine_string_literals')) res.combined = rbql.combine_string_literals(fmt, lits);
    let acts;
    try {
        acts = rbql.separate_actions(c.format2);
    } catch (e) {
        res.actions = {error: err_tag(e)};
        return res;
    }
    res.actions = JSON.parse(JSON.stringify(acts));
    const det = {};
    if (acts.hasOwnProperty('UPDATE') && have('translate_update_expression')) {
        const [rm, names] = rec_map(null);
        try {
            const code = rbql.translate_update_expression(acts['UPDATE']['text'], rm, [], '');
            const pairs = [];
            for (const line of code.split('\n')) {
                const m = /^safe_set\(up_fields, ([0-9]+), ([^]*)\);$/.exec(line);
                pairs.push([names[parseInt(m[1])], m[2]]);
            }
            det.update = pairs;
        } catch (e) { det.update = {error: err_tag(e)}; }
    }
    if (acts.hasOwnProperty('JOIN') && have('parse_join_expression')) {
        try {
            const [tid, pairs] = rbql.parse_join_expression(acts['JOIN']['text']);
            det.join = [tid, pairs];
        } catch (e) { det.join = {error: err_tag(e)}; }
    }
    if (acts.hasOwnProperty('SELECT') && have('translate_select_expression')) {
        try {
            det.select = rbql.translate_select_expression(acts['SELECT']['text'])[0];
        } catch (e) { det.select = {error: err_tag(e)}; }
    }
    if (acts.hasOwnProperty('EXCEPT') && have('translate_except_expression')) {
        const seq = [];
        const [rm, names] = rec_map(seq);
        try {
            rbql.translate_except_expression(acts['EXCEPT']['text'], rm, [], null);
            det.except = seq;
        } catch (e) { det.except = {error: err_tag(e)}; }
    }
    res.details = det;
    return res;
}

function norm_cell(v) {
    if (v === null || v === undefined) return null;
    if (typeof v === 'number') return Number.isInteger(v) ? v : ['float', String(v)];
    if (typeof v === 'string' || typeof v === 'boolean') return v;
    if (Array.isArray(v)) return v.map(norm_cell);
    return ['obj', String(v)];
}

async function run_query(rbql, c) {
    const table = c.table.map(r => r.slice());
    const join = (c.join === null || c.join === undefined) ? null : c.join.map(r => r.slice());
    const out = [], warns = [], hdr = [];
    try {
        await rbql.query_table(c.q, table, out, warns, join, c.names || null, c.join_names || null, hdr);
    } catch (e) {
        return {error: (e && e.constructor && e.constructor.name) || 'Error'};
    }
    return {rows: out.map(norm_cell), header: (c.names === null || c.names === undefined) ? null : hdr};
}

module.exports.run_case = async function (c, repo) {
    const rbql = require(path.join(repo, 'rbql-js', 'rbql.js'));
    if (c.kind == 'internal') return internal(rbql, c);
    if (c.kind == 'chars') {
        const ch = String.fromCodePoint(c.c);
        return [ch.trim() === '', new RegExp('^' + c.k + '$', 'i').test(ch), /^.$/.test(ch)];
    }
    return await run_query(rbql, c);
};
