# C05, file front end (Python): UPDATE through rbql.query_csv with with_headers=True, file to file; the join table is the file
# jt.csv beside the input file.  Returns the bytes of the output file as text, the canonical error, and whether the two source
# files are byte-identical afterwards.
import os
import shutil
import tempfile
import rbql
import engine as EN


def to_csv(header, table):
    return ''.join(','.join(r) + '\n' for r in [header] + table).encode('utf-8')


def run_case(c):
    d = tempfile.mkdtemp(prefix='c05csv_', dir=os.environ.get('VERIF_SCRATCH'))
    try:
        inp, joinp, outp = os.path.join(d, 'in.csv'), os.path.join(d, 'jt.csv'), os.path.join(d, 'out.csv')
        data = to_csv(c['hdrA'], c['A'])
        with open(inp, 'wb') as f:
            f.write(data)
        jdata = None
        if c.get('B') is not None:
            jdata = to_csv(c['hdrB'], c['B'])
            with open(joinp, 'wb') as f:
                f.write(jdata)
        err = None
        warns = []
        try:
            rbql.query_csv(c['q_csv'], inp, ',', 'quoted', outp, ',', 'quoted', 'utf-8', warns, True)
        except Exception as e:
            err = EN.canon_error(e)
        out = open(outp, 'rb').read().decode('utf-8', 'replace') if os.path.exists(outp) else None
        ok = open(inp, 'rb').read() == data and (jdata is None or open(joinp, 'rb').read() == jdata)
        return {'out': out, 'error': err, 'warnings': len(warns), 'sources_ok': ok}
    finally:
        shutil.rmtree(d, ignore_errors=True)
