# jskey.py - the Python side of the string order probe (entry 561): a < b of two str built from code points
def run_case(c):
    a = ''.join(chr(x) for x in c['s'])
    b = ''.join(chr(x) for x in c['t'])
    return {'lt': a < b, 'eq': a == b}
