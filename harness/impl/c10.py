# C10 implementation side (Python): CSVWriter -> io.StringIO / io.BytesIO -> CSVRecordIterator.get_all_records(),
# and (when asked) rbql.query_csv("select *") file to file in a scratch directory.
# batch = {'pol','dlm','sep','enc', 'tables': [{'header': None|[cells], 'rows': [[cells]], 'qcsv': bool}, ...]}
# cells: str | None | int | list of cells.
# result per table = {'text', 'err', 'none', 'delim', 'readback', 'qcsv'}
import copy
import io
import os
import rbql
from rbql import rbql_csv, rbql_engine

SCRATCH = os.path.join(os.getcwd(), '..', 'c10_scratch')


def warn_kinds(ws):
    out = []
    for w in ws:
        lw = w.lower()
        if 'byte order mark' in lw or 'bom' in lw:
            out.append('bom')
        elif 'quot' in lw:
            out.append('quoting')
        elif 'number of fields' in lw:
            out.append('num_fields')
        elif 'none values' in lw or 'null values' in lw:
            out.append('none')
        elif 'separator' in lw:
            out.append('separator')
        else:
            out.append('other:' + w[:60])
    return sorted(out)


def err_kind(e):
    msg = str(e).lower()
    if isinstance(e, rbql_engine.RbqlIOHandlingError):
        if 'header' in msg:
            return 1
        if 'monocolumn' in msg:
            return 2
    return 3


def run_table(b, t, seq):
    pol, dlm, sep, enc = b['pol'], b['dlm'], b['sep'], b['enc']
    stream = io.StringIO() if enc is None else io.BytesIO()
    w = rbql_csv.CSVWriter(stream, False, enc, dlm, pol, line_separator=sep)
    err = None
    calls = ([t['header']] if t['header'] is not None else []) + t['rows']
    for i, row in enumerate(calls):
        row = copy.deepcopy(row)                  # CSVWriter.write mutates the list it is given
        try:
            if i == 0 and t['header'] is not None:
                w.set_header(row)
            else:
                w.write(row)
        except Exception as e:
            err = [i, err_kind(e)]
            break
    w.finish()
    raw = stream.getvalue()
    text = raw if enc is None else raw.decode(enc)
    kinds = warn_kinds(w.get_warnings())
    res = {'text': text, 'err': err, 'none': 'none' in kinds, 'delim': 'separator' in kinds,
           'other_warnings': [k for k in kinds if k not in ('none', 'separator')], 'readback': None, 'qcsv': None}
    if err is None:
        try:
            rs = io.StringIO(text) if enc is None else io.BytesIO(raw)
            it = rbql_csv.CSVRecordIterator(rs, enc, dlm, pol)
            recs = it.get_all_records()
            res['readback'] = [recs, warn_kinds(it.get_warnings())]
        except Exception as e:
            res['readback'] = ['ERR', type(e).__name__]
    if t.get('qcsv') and err is None and enc is not None:
        os.makedirs(SCRATCH, exist_ok=True)
        inp = os.path.join(SCRATCH, 'in_%d_%d.csv' % (os.getpid(), seq))
        outp = os.path.join(SCRATCH, 'out_%d_%d.csv' % (os.getpid(), seq))
        try:
            with open(inp, 'wb') as f:
                f.write(raw)
            warns = []
            rbql.query_csv('select *', inp, dlm, pol, outp, dlm, pol, enc, warns, False)
            with open(outp, 'rb') as f:
                out_raw = f.read()
            res['qcsv'] = [out_raw.decode(enc), warn_kinds(warns)]
        except Exception as e:
            res['qcsv'] = ['ERR', type(e).__name__, str(e)[:200]]
        finally:
            for p in (inp, outp):
                try:
                    os.remove(p)
                except OSError:
                    pass
    del w
    return res


def run_case(batch):
    return [run_table(batch, t, i) for i, t in enumerate(batch['tables'])]
