// C05, file front end (rbql-js): UPDATE through rbql_csv.query_csv with with_headers=true, file to file; the join table is the file
// jt.csv beside the input file.  Returns the output file as text, the canonical error, and whether the source files are unchanged.
const path = require('path');
const fs = require('fs');
const os = require('os');

function canon_error(e) {
    const n = (e && e.constructor && e.constructor.name) || 'Error';
    const msg = String((e && e.message) || e);
    if (n.includes('Parsing')) return ['P', 0, null];
    if (n.includes('IOHandling')) return ['IO', 0, null];
    if (n.includes('Runtime')) {
        let m = /No "a(\d+)" field at record (\d+)/.exec(msg);
        if (m) return ['R', parseInt(m[2]), parseInt(m[1]) - 1];
        m = /[Aa]t record (\d+)/.exec(msg);
        if (m) return ['R', parseInt(m[1]), null];
        return ['R', 0, null];
    }
    return ['O', 0, n];
}

function to_csv(header, table) {
    return [header].concat(table).map(r => r.join(',') + '\n').join('');
}

const leftovers = [];
process.on('exit', () => { for (const d of leftovers) { try { fs.rmSync(d, {recursive: true, force: true}); } catch (e) {} } });

module.exports.run_case = async function (c, repo) {
    const rbql_csv = require(path.join(repo, 'rbql-js', 'rbql_csv.js'));
    const d = fs.mkdtempSync(path.join(process.env.VERIF_SCRATCH || os.tmpdir(), 'c05csv_'));
    const inp = path.join(d, 'in.csv'), joinp = path.join(d, 'jt.csv'), outp = path.join(d, 'out.csv');
    try {
        const data = to_csv(c.hdrA, c.A);
        fs.writeFileSync(inp, data);
        let jdata = null;
        if (c.B) { jdata = to_csv(c.hdrB, c.B); fs.writeFileSync(joinp, jdata); }
        const warns = [];
        let err = null;
        try {
            await rbql_csv.query_csv(c.qjs_csv, inp, ',', 'quoted', outp, ',', 'quoted', 'utf-8', warns, true);
        } catch (e) {
            err = canon_error(e);
        }
        const out = (err === null && fs.existsSync(outp)) ? fs.readFileSync(outp, 'utf-8') : null;
        const ok = fs.readFileSync(inp, 'utf-8') === data && (jdata === null || fs.readFileSync(joinp, 'utf-8') === jdata);
        return {out: out, error: err, warnings: warns.length, sources_ok: ok};
    } finally {
        // the output stream of a failed query may still be creating / flushing its file: retry, and leave the rest to process exit
        let gone = false;
        for (let k = 0; k < 5 && !gone; k++) {
            try { fs.rmSync(d, {recursive: true, force: true}); gone = true; } catch (e) { await new Promise((resolve) => setTimeout(resolve, 20)); }
        }
        if (!gone) leftovers.push(d);
    }
};
