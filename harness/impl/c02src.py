# C02, typed sources: the same query over the same TYPED table (numbers, None and strings side by side) held by a pandas dataframe
# (rbql_pandas.DataframeIterator) and by a sqlite table (rbql_sqlite.SqliteRecordIterator), written to the recording writer of the
# engine driver - so that the writes can be compared one by one with the model, without a dataframe / CSV conversion of the output.
import sqlite3
import rbql
import engine as EN


def run_query(q, it):
    wr = EN.RecWriter(None)
    err = None
    try:
        rbql.query(q, it, wr, [], None)
    except Exception as e:
        err = EN.canon_error(e)
    return {'events': wr.events, 'error': err}


def run_pandas(c):
    import pandas as pd
    from rbql import rbql_pandas
    # dtype=object: the cells stay the Python objects of the table (no dtype inference: 7 and None in one column would become 7.0 and NaN)
    df = pd.DataFrame([list(r) for r in c['A']], dtype=object)
    snap = df.copy(deep=True)
    res = run_query(c['q'], rbql_pandas.DataframeIterator(df))
    res['sources_ok'] = bool(df.equals(snap))
    return res


def run_sqlite(c):
    from rbql import rbql_sqlite
    ncols = max([len(r) for r in c['A']] + [1])
    con = sqlite3.connect(':memory:')
    try:
        # columns without a declared type have no affinity: 7 stays an INTEGER, '7' stays TEXT, None is NULL
        con.execute('CREATE TABLE t1 (%s)' % ', '.join('c%d' % (i + 1) for i in range(ncols)))
        con.executemany('INSERT INTO t1 VALUES (%s)' % ','.join('?' * ncols), [list(r) for r in c['A']])
        con.commit()
        return run_query(c['q'], rbql_sqlite.SqliteRecordIterator(con, 't1'))
    finally:
        con.close()


def run_case(c):
    out = {}
    for src in c['sources']:
        out[src] = run_pandas(c) if src == 'pandas' else run_sqlite(c)
    return out
