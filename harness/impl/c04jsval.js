// C04, rbql-js: JOIN over tables of JavaScript VALUES through the public query_table. Cells travel as tagged lists (as in jskey.js, so
// that NaN / undefined / the infinities / -0 survive the JSON transport): ['n'] null, ['undef'], ['nan'], ['inf', +1|-1], ['nz'] -0,
// ['i', integer], ['f', num, den] num / den, ['b', bool], ['s', [code units]].
// -> {rows (numbers and strings only: the queries select record numbers, counts and string payloads), error: [class, record, field]}
const path = require('path');

function build(x) {
    switch (x[0]) {
        case 'n': return null;
        case 'undef': return undefined;
        case 'nan': return NaN;
        case 'inf': return x[1] < 0 ? -Infinity : Infinity;
        case 'nz': return -0;
        case 'i': return x[1];
        case 'f': return x[1] / x[2];
        case 'b': return x[1];
        case 's': return String.fromCharCode(...x[1]);
    }
    throw new Error('bad tag ' + x[0]);
}

function canon_error(e) {
    const n = (e && e.constructor && e.constructor.name) || 'Error';
    const msg = String((e && e.message) || e);
    if (n.includes('Parsing')) return ['P', 0, null];
    if (n.includes('IOHandling')) return ['IO', 0, null];
    if (n.includes('Runtime')) {
        const m = /[Aa]t record (\d+)/.exec(msg);
        return ['R', m ? parseInt(m[1]) : 0, null];
    }
    return ['O', 0, n + ': ' + msg.slice(0, 120)];
}

function canon_val(v) {
    if (v === null || v === undefined) return null;
    if (typeof v === 'string' || typeof v === 'boolean') return v;
    if (typeof v === 'number' && Number.isInteger(v)) return v;
    return {other: String(v)};
}

module.exports.run_case = async function (c, repo) {
    const rbql = require(path.join(repo, 'rbql-js', 'rbql.js'));
    const A = c.A.map(r => r.map(build)), B = c.B.map(r => r.map(build));
    const out = [], warns = [];
    try {
        await rbql.query_table(c.qjs, A, out, warns, B);
    } catch (e) {
        return {rows: null, error: canon_error(e)};
    }
    return {rows: out.map(r => r.map(canon_val)), error: null};
};
