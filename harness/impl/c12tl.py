# C12, text layer: the real CPython objects that TextLayer.v models, driven piece by piece.
#
# case kinds (all carry 'part': 'tl')
#   {'kind': 'dec_all', 'enc', 'data': [ints]}       every one of the 2^(n-1) partitions of the byte string, each through a fresh
#        io.IncrementalNewlineDecoder(codecs.getincrementaldecoder(enc)(errors='strict'), translate=True): decode(piece) per
#        piece, then decode(b'', final=True); returns the sexp text  ((piece lengths) (ok ((output pendingcr needed) ...))) ...
#        in the order of the model's enumeration (mask order, bit i = cut after byte i)
#   {'kind': 'dec_one', 'enc', 'pieces': [[ints]]}   one prescribed list of raw reads (empty ones allowed): (ok ((output pendingcr needed) ...))
#   {'kind': 'nl_calls', 'pend', 'calls': [[text, final]]}   io.IncrementalNewlineDecoder(None, translate=True) over text pieces:
#        ((output pendingcr) ...)
#   {'kind': 'tiow_all', 'enc', 'data', 'reads': [..]}   every partition through io.TextIOWrapper(raw, encoding=enc) over a raw
#        io.RawIOBase with short reads (directly and behind io.BufferedReader, the two ways rbql_csv.encode_input_stream wraps a
#        stream), read whole / by read(k): the list of DISTINCT outcomes, each with the first (pieces, variant, read size)
#   {'kind': 'bytes_stream', 'via': 'bytesio' | 'file', 'data', 'encoding', cfg..}   CSVRecordIterator over io.BytesIO(data) / a real file
#        opened 'rb' (TextIOWrapper then cuts the bytes itself, at multiples of its 8192-byte chunk): one outcome
# pendingcr and the pending bytes of the inner decoder are read with getstate() (documented API of both objects).
import codecs
import io

import c12 as base


def enc(x):
    if x is True:
        return '1'
    if x is False:
        return '0'
    if isinstance(x, int):
        return str(x)
    if isinstance(x, str):
        return '(' + ' '.join([str(ord(c)) for c in x]) + ')'
    return '(' + ' '.join([enc(y) for y in x]) + ')'


def utf8_needed(buf):
    """continuation bytes the decoder still waits for, from the bytes it holds"""
    if not buf:
        return 0
    b = buf[0]
    n = 2 if b < 0xE0 else 3 if b < 0xF0 else 4
    return n - len(buf)


def trace(encoding, pieces):
    d = io.IncrementalNewlineDecoder(codecs.getincrementaldecoder(encoding)(errors='strict'), translate=True)
    obs = []
    ok = True
    for p in list(pieces) + [None]:
        try:
            out = d.decode(b'' if p is None else p, final=p is None)
        except UnicodeDecodeError:
            ok = False
            break
        buf, flag = d.getstate()
        obs.append([out, bool(flag & 1), utf8_needed(buf)])
    return [ok, obs]


def dec_all(c):
    data = bytes(c['data'])
    out = []
    for pieces in base.partitions(data):
        out.append('(' + enc([len(p) for p in pieces]) + ' ' + enc(trace(c['enc'], pieces)) + ')')
    return '(' + ' '.join(out) + ')'


def nl_calls(c):
    d = io.IncrementalNewlineDecoder(None, translate=True)
    if c.get('pend'):
        d.setstate((b'', 1))
    obs = []
    for text, final in c['calls']:
        out = d.decode(text, final=bool(final))
        obs.append([out, bool(d.getstate()[1] & 1)])
    return enc(obs)


def read_text(w, k):
    try:
        if k is None:
            return ['ok', w.read()]
        parts = []
        while True:
            x = w.read(k)
            if not x:
                break
            parts.append(x)
        return ['ok', ''.join(parts)]
    except UnicodeDecodeError as e:
        return ['err', type(e).__name__]


def tiow_all(c):
    data = bytes(c['data'])
    seen = []
    keys = {}
    for pieces in base.partitions(data):
        for variant in ('raw', 'buffered'):
            for k in c['reads']:
                raw = base.RawPieces(pieces)
                w = io.TextIOWrapper(raw if variant == 'raw' else io.BufferedReader(raw), encoding=c['enc'])
                o = read_text(w, k)
                key = repr(o)
                if key not in keys:
                    keys[key] = 1
                    seen.append([o, [list(p) for p in pieces], variant, k])
    return seen


def bytes_stream(c):
    data = bytes(c['data'])
    if c['via'] == 'bytesio':
        return base.observe(io.BytesIO(data), c['encoding'], c, c.get('cs'))
    import os
    import tempfile
    fd, path = tempfile.mkstemp(prefix='c12tl_', suffix='.csv', dir='.')
    try:
        with os.fdopen(fd, 'wb') as f:
            f.write(data)
        with open(path, 'rb') as f:
            return base.observe(f, c['encoding'], c, c.get('cs'))
    finally:
        os.remove(path)


def run_case(c):
    kind = c['kind']
    if kind == 'bytes_stream':
        return bytes_stream(c)
    if kind == 'dec_all':
        return dec_all(c)
    if kind == 'dec_one':
        return enc(trace(c['enc'], [bytes(p) for p in c['pieces']]))
    if kind == 'nl_calls':
        return nl_calls(c)
    if kind == 'tiow_all':
        return tiow_all(c)
    raise ValueError(kind)
