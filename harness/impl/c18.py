# C18 implementation side (Python): read a CSV text written by the other implementation; reader outcome on a given text
import io
import re
from rbql import rbql_csv
from rbql import rbql_engine
import c10 as W


def read_text(text, enc, dlm, pol, comment_prefix=None, has_header=False):
    try:
        rs = io.StringIO(text) if enc is None else io.BytesIO(text.encode('utf-8' if enc == 'utf-8' else 'latin-1'))
        it = rbql_csv.CSVRecordIterator(rs, enc, dlm, pol, has_header=has_header, comment_prefix=comment_prefix)
        recs = it.get_all_records()
        ws = it.get_warnings()
        nums = None
        for w in ws:
            m = re.search(r'record (\d+) -> (\d+) fields, record (\d+) -> (\d+) fields', w)
            if m:
                nums = [int(x) for x in m.groups()]
        return {'records': recs, 'header': it.get_header(), 'warnings': W.warn_kinds(ws), 'fields': nums, 'error': None}
    except Exception as e:
        # "... the same error class": by exception type AND as the public classifier (exception_to_error_info) reports it
        name = type(e).__name__
        kind = rbql_engine.exception_to_error_info(e)[0]
        if 'IOHandling' in name and kind != 'IO handling':
            return {'records': None, 'header': None, 'warnings': None, 'fields': None, 'error': 'exception_to_error_info says %r for a %s' % (kind, name)}
        return {'records': None, 'header': None, 'warnings': None, 'fields': None, 'error': 'IO' if 'IOHandling' in name else name}


def run_case(c):
    return [read_text(t, c['enc'], c['dlm'], c['pol'], c.get('comment_prefix'), c.get('has_header', False)) for t in c['texts']]
