# C14 (CSV warnings) implementation side, Python: rbql.query_csv file to file on prescribed input BYTES.
# case = {'data': [bytes], 'enc', 'in_pol', 'in_dlm', 'out_pol', 'out_dlm', 'query'} -> {'out': text|None, 'warnings': kinds, 'error': kind|None}
import os
import tempfile
import rbql
import c10 as W
import engine as EN

KINDS = {'query parsing': 'P', 'IO handling': 'IO', 'query execution': 'R'}


def classified(e):
    """the error class by exception type AND as the public classifier (exception_to_error_info: command line, IPython magic,
    editor integrations) reports it; the two must agree"""
    ce = EN.canon_error(e)
    kind = rbql.exception_to_error_info(e)[0]
    if ce[0] in ('P', 'IO', 'R') and KINDS.get(kind) != ce[0]:
        return ['O', 0, 'exception_to_error_info says %r for a %s' % (kind, type(e).__name__)]
    return ce


def run_case(c):
    d = tempfile.mkdtemp(prefix='c14w_', dir=os.environ.get('VERIF_SCRATCH'))
    inp, outp = os.path.join(d, 'in.csv'), os.path.join(d, 'out.csv')
    try:
        with open(inp, 'wb') as f:
            f.write(bytes(c['data']))
        warns = []
        try:
            rbql.query_csv(c['query'], inp, c['in_dlm'], c['in_pol'], outp, c['out_dlm'], c['out_pol'], c['enc'], warns, False)
        except Exception as e:
            return {'out': None, 'warnings': None, 'error': classified(e)}
        with open(outp, 'rb') as f:
            raw = f.read()
        return {'out': raw.decode(c['enc']), 'warnings': W.warn_kinds(warns), 'error': None}
    finally:
        for p in (inp, outp):
            try:
                os.remove(p)
            except OSError:
                pass
        os.rmdir(d)
