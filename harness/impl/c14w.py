# C14 (CSV warnings) implementation side, Python: rbql.query_csv file to file on prescribed input BYTES.
# case = {'data': [bytes], 'enc', 'in_pol', 'in_dlm', 'out_pol', 'out_dlm', 'query'} -> {'out': text|None, 'warnings': kinds, 'error': kind|None}
import os
import tempfile
import rbql
import c10 as W
import engine as EN


def run_case(c):
    d = tempfile.mkdtemp(prefix='c14w_', dir=os.environ.get('VERIF_SCRATCH'))
    inp, outp = os.path.join(d, 'in.csv'), os.path.join(d, 'out.csv')
    try:
        with open(inp, 'wb') as f:
            f.write(bytes(c['data']))
        warns = []
        try:
            rbql.query_csv(c['query'], inp, c['in_dlm'], c['in_pol'], outp, c['out_dlm'], c['out_pol'], c['enc'], warns, False)
        except Exception as e:
            return {'out': None, 'warnings': None, 'error': EN.canon_error(e)}
        with open(outp, 'rb') as f:
            raw = f.read()
        return {'out': raw.decode(c['enc']), 'warnings': W.warn_kinds(warns), 'error': None}
    finally:
        for p in (inp, outp):
            try:
                os.remove(p)
            except OSError:
                pass
        os.rmdir(d)
