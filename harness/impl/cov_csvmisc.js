// cov_csvmisc.js - rbql-js side of harness/props/cov_csvmisc.py: a bounded read through the CSV reader (get_all_records(n) must stop
// the stream), the CSVWriter once its stream has failed (write / finish reject), an unknown output policy.
const fs = require('fs');
const os = require('os');
const path = require('path');
const { Writable } = require('stream');

function cls(e) {
    const n = (e && e.constructor && e.constructor.name) || 'Error';
    if (n.includes('Parsing')) return 'P';
    if (n.includes('IOHandling')) return 'IO';
    if (n.includes('Runtime')) return 'R';
    return 'O';
}
const tick = () => new Promise(r => setImmediate(r));

async function run_head(c, repo, d) {
    const rbql_csv = require(path.join(repo, 'rbql-js', 'rbql_csv.js'));
    const p = path.join(d, 'in.csv');
    const data = c.lines.map(l => l + '\n').join('');
    fs.writeFileSync(p, data, 'utf-8');
    const s = fs.createReadStream(p);
    const it = new rbql_csv.CSVRecordIterator(s, null, 'utf-8', ',', 'simple', c.with_header);
    if (c.with_header) await it.get_header();        // (as the engine does before the first get_record: the header line is pre-read, never a record)
    const recs = c.n === null ? await it.get_all_records() : await it.get_all_records(c.n);
    await new Promise(r => setTimeout(r, 40));        // a reader that was not stopped keeps consuming the file in the background
    return {records: recs, consumed: s.bytesRead, size: Buffer.byteLength(data), destroyed: s.destroyed};
}

async function run_jswriter(c, repo, d) {
    const rbql_csv = require(path.join(repo, 'rbql-js', 'rbql_csv.js'));
    let n = 0;
    const got = [];
    const s = new Writable({write(chunk, enc, cb) { n += 1; if (c.fail_at !== null && n >= c.fail_at) cb(new Error('DISK-FULL')); else { got.push(chunk.toString()); cb(); } }});
    const w = new rbql_csv.CSVWriter(s, c.close, 'utf-8', ',', 'simple');
    const writes = [];
    for (const r of c.table) {
        try { writes.push((await w.write(r.slice())) === true ? 'ok' : 'refused'); } catch (e) { writes.push(e && e.message === 'DISK-FULL' ? 'rej' : 'rej:' + String(e && e.message).slice(0, 40)); }
        await tick();
    }
    let fin;
    try { await w.finish(); fin = 'ok'; } catch (e) { fin = e && e.message === 'DISK-FULL' ? 'rej' : 'rej:' + String(e && e.message).slice(0, 40); }
    return {writes: writes, finish: fin, text: got.join('')};
}

async function run_jswriter_query(c, repo, d) {
    // a query from a CSV file (several stream chunks) into a CSVWriter whose stream fails: the query must not report success
    const rbql = require(path.join(repo, 'rbql-js', 'rbql.js'));
    const rbql_csv = require(path.join(repo, 'rbql-js', 'rbql_csv.js'));
    const p = path.join(d, 'in.csv');
    fs.writeFileSync(p, 'abc,def\n'.repeat(c.nlines), 'utf-8');
    let n = 0;
    const s = new Writable({write(chunk, enc, cb) { n += 1; if (n >= c.fail_at) cb(new Error('DISK-FULL')); else cb(); }});
    const w = new rbql_csv.CSVWriter(s, true, 'utf-8', ',', 'simple');
    const it = new rbql_csv.CSVRecordIterator(fs.createReadStream(p), null, 'utf-8', ',', 'simple');
    let res = 'ok';
    try { await rbql.query(c.qjs, it, w, []); } catch (e) { res = 'failed'; }
    return {outcome: res};
}

async function run_jspolicy(c, repo, d) {
    const rbql_csv = require(path.join(repo, 'rbql-js', 'rbql_csv.js'));
    const inp = path.join(d, 'in.csv'), outp = path.join(d, 'out.csv');
    fs.writeFileSync(inp, 'k,1\nm,2\n', 'utf-8');
    let err = null;
    try { await rbql_csv.query_csv('select a1', inp, ',', 'simple', outp, ',', c.out_policy, 'utf-8', []); } catch (e) { err = cls(e); }
    await new Promise(r => setTimeout(r, 30));
    return {error: err, out_size: fs.existsSync(outp) ? fs.statSync(outp).size : null};
}

function csv_line(row) { return row.map(v => /[,"]/.test(v) ? '"' + v.replace(/"/g, '""') + '"' : v).join(','); }
function csv_parse_line(line) {
    const out = []; let i = 0;
    while (i <= line.length) {
        if (line[i] === '"') {
            let v = ''; i += 1;
            while (i < line.length && !(line[i] === '"' && line[i + 1] !== '"')) { if (line[i] === '"') i += 1; v += line[i]; i += 1; }
            out.push(v); i += 2;
        } else { let j = line.indexOf(',', i); if (j === -1) j = line.length; out.push(line.slice(i, j)); i = j + 1; }
    }
    return out;
}

async function run_distinct_csv(c, repo, d) {
    const rbql_csv = require(path.join(repo, 'rbql-js', 'rbql_csv.js'));
    const inp = path.join(d, 'in.csv'), outp = path.join(d, 'out.csv');
    fs.writeFileSync(inp, c.rows.map(r => csv_line(r) + '\n').join(''), 'utf-8');
    try { await rbql_csv.query_csv(c.qjs, inp, ',', 'quoted', outp, ',', 'quoted', 'utf-8', []); } catch (e) { return {error: cls(e), rows: null}; }
    const lines = fs.readFileSync(outp, 'utf-8').split('\n'); lines.pop();
    return {error: null, rows: lines.map(csv_parse_line)};
}

module.exports.run_case = async function (c, repo) {
    const d = fs.mkdtempSync(path.join(process.env.VERIF_SCRATCH || os.tmpdir(), 'covmiscjs_'));
    try {
        if (c.kind === 'distinct_csv') return await run_distinct_csv(c, repo, d);
        if (c.kind === 'head') return await run_head(c, repo, d);
        if (c.kind === 'jswriter') return await run_jswriter(c, repo, d);
        if (c.kind === 'jswriter_query') return await run_jswriter_query(c, repo, d);
        if (c.kind === 'jspolicy') return await run_jspolicy(c, repo, d);
        throw new Error('unknown kind ' + c.kind);
    } finally {
        fs.rmSync(d, {recursive: true, force: true});
    }
};
