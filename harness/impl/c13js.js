// C13 command-line leg of rbql-js (and, for the same query text, of rbql-py): one query over one CSV text through
//   node_file   node rbql-js/cli_rbql.js --input F --output G
//   node_stdio  node rbql-js/cli_rbql.js            (stdin -> stdout)
//   node_tsv    node rbql-js/cli_rbql.js --out-format tsv   (stdin -> stdout)
//   js_lib      rbql_csv.query_csv file -> file; a failure is classified with the exported exception_to_error_info
//   py_stdio    python -m rbql                      (stdin -> stdout; the same query text is valid in both languages)
// Reported per entry point: exit status, stdout text, stderr lines, the output file's text. Nothing is interpreted here.
const fs = require('fs');
const os = require('os');
const path = require('path');
const cp = require('child_process');

function run(cmd, args, input, cwd) {
    const p = cp.spawnSync(cmd, args, {input: input, cwd: cwd, env: process.env, timeout: 120000, maxBuffer: 1 << 26});
    return {rc: p.status === null ? -1 : p.status, stdout: (p.stdout || Buffer.alloc(0)).toString('utf-8'),
            stderr_lines: (p.stderr || Buffer.alloc(0)).toString('utf-8').split('\n').filter(l => l.length > 0).map(l => l.slice(0, 200))};
}

// scratch directories are removed when the driver process ends, not after each case: a library call that fails early leaves a read
// stream behind whose (asynchronous) open would otherwise hit a directory that is already gone and surface in a LATER case
const scratch_dirs = [];
process.on('exit', () => { for (const d of scratch_dirs) { try { fs.rmSync(d, {recursive: true, force: true}); } catch (e) {} } });

module.exports.run_case = async function (c, repo) {
    const d = fs.mkdtempSync(path.join(process.env.VERIF_SCRATCH || os.tmpdir(), 'c13js_'));
    scratch_dirs.push(d);
    const res = {};
    try {
        const inp = path.join(d, 'in.csv'), jt = path.join(d, 'jt.csv');
        const in_bytes = Buffer.from(c.in_b64, 'base64');
        fs.writeFileSync(inp, in_bytes);
        if (c.csv_join !== null && c.csv_join !== undefined) fs.writeFileSync(jt, Buffer.from(c.csv_join, 'utf-8'));
        // (the join table of the query text: the file written above, or - scenario 'nojoin' - a path where there is no file)
        const q = c.q.replace('JOINTABLE_7f3a', c.scenario === 'nojoin' ? path.join(d, 'missing_table.csv') : jt);
        const delim = c.delim || ',', enc = c.encoding || 'utf-8';
        const base = ['--delim', delim, '--policy', 'quoted', '--with-headers', '--query', q].concat(c.encoding ? ['--encoding', c.encoding] : []);
        const cli = path.join(repo, 'rbql-js', 'cli_rbql.js');
        const o1 = path.join(d, 'o1.csv');
        res.node_file = run('node', [cli].concat(base, ['--input', inp, '--output', o1]), null, d);
        res.node_file.out_text = fs.existsSync(o1) ? fs.readFileSync(o1).toString('utf-8') : null;
        res.node_stdio = run('node', [cli].concat(base), in_bytes, d);
        if (c.tsv) res.node_tsv = run('node', [cli].concat(base, ['--out-format', 'tsv']), in_bytes, d);
        res.py_stdio = run(process.env.VERIF_PY, ['-W', 'ignore', '-m', 'rbql'].concat(base), in_bytes, d);
        // library
        const rbql_csv = require(path.join(repo, 'rbql-js', 'rbql_csv.js'));
        const o2 = path.join(d, 'o2.csv');
        const warnings = [];
        try {
            await rbql_csv.query_csv(q, inp, delim, 'quoted', o2, delim, 'quoted', enc, warnings, true);
            res.js_lib = {error_type: null, out_text: fs.existsSync(o2) ? fs.readFileSync(o2).toString('utf-8') : null, warnings: warnings.length};
        } catch (e) {
            const info = rbql_csv.exception_to_error_info(e);
            res.js_lib = {error_type: info[0], out_text: fs.existsSync(o2) ? fs.readFileSync(o2).toString('utf-8') : null};
        }
        return res;
    } finally {
        for (const f of fs.readdirSync(d)) { if (f !== 'in.csv' && f !== 'jt.csv') fs.rmSync(path.join(d, f), {force: true}); }
    }
};
