# engine.py - implementation side for the engine properties (C01-C06, C14, C15): runs one query through
# rbql.query with a recording iterator / writer / registry (public interfaces RBQLInputIterator,
# RBQLOutputWriter, RBQLTableRegistry) and, when asked, through rbql.query_table as well.
import copy
import re
import rbql
from rbql import rbql_engine as E


class RecIterator(E.RBQLInputIterator):
    def __init__(self, table, header, prefix, normalize=True):
        self.table = table
        self.header = header
        self.prefix = prefix
        self.normalize = normalize
        self.pos = 0
        self.pulls = 0

    def get_variables_map(self, query_text):
        vm = dict()
        E.parse_basic_variables(query_text, self.prefix, vm)
        E.parse_array_variables(query_text, self.prefix, vm)
        if self.header is not None:
            if self.normalize:
                E.parse_dictionary_variables(query_text, self.prefix, self.header, vm)
                E.parse_attribute_variables(query_text, self.prefix, self.header, 'column names list', vm)
            else:
                E.map_variables_directly(query_text, self.header, vm)
        return vm

    def get_record(self):
        if self.pos >= len(self.table):
            return None
        r = self.table[self.pos]
        self.pos += 1
        self.pulls += 1
        return r

    def get_warnings(self):
        return []

    def get_header(self):
        return self.header


class Endless(RecIterator):
    """serves table[i % len] for ever; raises after a bound so that a non-terminating query is detected"""
    def __init__(self, table, header, prefix, bound):
        RecIterator.__init__(self, table, header, prefix)
        self.bound = bound

    def get_record(self):
        if self.pulls >= self.bound:
            raise RuntimeError('ENDLESS-BOUND')
        r = self.table[self.pulls % len(self.table)]
        self.pulls += 1
        return r


class RecWriter(E.RBQLOutputWriter):
    def __init__(self, fail_at):
        self.events = []
        self.nwrites = 0
        self.fail_at = fail_at
        self.rows = []

    def set_header(self, header):
        self.events.append(['H', None if header is None else list(header)])

    def write(self, fields):
        ok = self.fail_at is None or self.nwrites < self.fail_at
        self.nwrites += 1
        self.rows.append(fields)
        self.events.append(['W', canon_row(fields), ok])
        return ok

    def finish(self):
        self.events.append(['F'])

    def get_warnings(self):
        return []


class Registry(E.RBQLTableRegistry):
    def __init__(self, table, header):
        self.table = table
        self.header = header
        self.it = None

    def get_iterator_by_table_id(self, table_id, single_char_alias):
        if table_id.lower() != 'b':
            return None
        self.it = RecIterator(self.table, self.header, single_char_alias)
        return self.it


def canon_val(v):
    if v is None or v is True or v is False or isinstance(v, (int, str)):
        return v
    if isinstance(v, float):
        return {'f': v.hex()}
    if isinstance(v, (list, tuple)):
        return [canon_val(x) for x in v]
    return {'other': type(v).__name__}


def canon_row(r):
    return [canon_val(v) for v in r]


def canon_error(e):
    name = type(e).__name__
    msg = str(e)
    if 'RbqlParsingError' in name:
        return ['P', 0, None]
    if 'RbqlIOHandlingError' in name:
        return ['IO', 0, None]
    if 'RbqlRuntimeError' in name:
        m = re.search(r'No "a(\d+)" field at record (\d+)', msg)
        if m:
            return ['R', int(m.group(2)), int(m.group(1)) - 1]
        m = re.search(r'No field with index (\d+) at record (\d+) in "B" table', msg)
        if m:
            return ['R', int(m.group(2)), 'B']
        m = re.search(r'[Aa]t record (\d+)', msg)
        if m:
            return ['R', int(m.group(1)), None]
        return ['R', 0, None]
    return ['O', 0, name]


def run_case(c):
    A = [list(r) for r in c['A']]
    B = None if c.get('B') is None else [list(r) for r in c['B']]
    snapA, snapB = copy.deepcopy(A), copy.deepcopy(B)
    idsA = [id(r) for r in A]
    idsB = None if B is None else [id(r) for r in B]
    hdrA, hdrB = c.get('hdrA'), c.get('hdrB')
    res = {}
    if c.get('endless'):
        it = Endless(A, hdrA, 'a', c['endless'])
    else:
        it = RecIterator(A, hdrA, 'a')
    wr = RecWriter(c.get('fail_at'))
    reg = None if B is None else Registry(B, hdrB)
    warns = []
    err = None
    try:
        rbql.query(c['q'], it, wr, warns, reg)
    except Exception as e:
        err = canon_error(e)
        if isinstance(e, RuntimeError) and 'ENDLESS-BOUND' in str(e):
            err = ['NONTERMINATION', 0, None]
    res['events'] = wr.events
    res['pulls'] = it.pulls
    res['error'] = err
    # C06: sources untouched, no aliasing between output rows and source rows
    src_rows = {id(r) for r in A} | ({id(r) for r in B} if B is not None else set())
    res['sources_ok'] = (A == snapA and B == snapB and [id(r) for r in A] == idsA
                         and (B is None or [id(r) for r in B] == idsB))
    res['alias'] = any(id(r) in src_rows for r in wr.rows)
    if c.get('also_table'):
        A2 = [list(r) for r in c['A']]
        B2 = None if c.get('B') is None else [list(r) for r in c['B']]
        out, w2, names = [], [], []
        e2 = None
        try:
            rbql.query_table(c['q'], A2, out, w2, B2, hdrA, hdrB, names)
        except Exception as e:
            e2 = canon_error(e)
        res['table'] = {'rows': [canon_row(r) for r in out], 'error': e2, 'warnings': w2, 'header': names if names else None,
                        'sources_ok': A2 == c['A'] and (B2 is None or B2 == c['B'])}
    return res
